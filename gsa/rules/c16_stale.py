"""R-C16.5  no type annotation is written onto a node before `check_type_against` has accepted it.

`check_type_against(actual, expected, node, ...)` raises when neither unification nor a widening coercion applies, and
callers such as `_synthesize_binary` suppress that failure and try another candidate on the *same* node.  A call of an
annotation mutator (a function of `ast_util` that assigns `<param>.type`, today `with_type`) on the same node variable,
on the statements leading to the check, leaves the expected type on the node when the check fails: the retried
candidate (`ReversingChecker`) then reads an operand type that was never established -- an implicit narrowing.
Decided per call site of `check_type_against` in the expression checker: the statements that precede it in its own and
every enclosing statement list contain no mutator call whose node argument is the checked node variable.
"""

from __future__ import annotations

import ast

from ..index import call_name
from ..report import Ctx


def _mutators(ctx: Ctx) -> dict[str, int]:
    """ast_util functions that assign `<param>.type` -> index of that parameter."""
    out = {}
    mod = ctx.idx.modules.get("guppylang_internals.ast_util")
    if mod is None:
        return out
    for st in mod.tree.body:
        if isinstance(st, ast.FunctionDef):
            params = [a.arg for a in st.args.args]
            for n in ast.walk(st):
                if isinstance(n, (ast.Assign, ast.AnnAssign)):
                    for t in (n.targets if isinstance(n, ast.Assign) else [n.target]):
                        if isinstance(t, ast.Attribute) and t.attr == "type" and isinstance(t.value, ast.Name) and t.value.id in params:
                            out[st.name] = params.index(t.value.id)
    return out


def _blocks(st: ast.stmt):
    for f in ("body", "orelse", "finalbody"):
        b = getattr(st, f, None)
        if isinstance(b, list) and b and isinstance(b[0], ast.stmt):
            yield b
    for h in getattr(st, "handlers", []) or []:
        yield h.body
    for c in getattr(st, "cases", []) or []:
        yield c.body


def run(ctx: Ctx) -> None:
    muts = _mutators(ctx)
    if not muts:
        ctx.undecided("R-C16.5", "ast_util#annotation-mutators", "guppylang-internals/src/guppylang_internals/ast_util.py",
                      "no function assigning `<param>.type` found in ast_util")
        return
    mod = ctx.idx.modules.get("guppylang_internals.checker.expr_checker")
    if mod is None:
        ctx.undecided("R-C16.5", "expr_checker", "-", "module not found")
        return
    n_sites = 0
    for fn in ast.walk(mod.tree):
        if not isinstance(fn, (ast.FunctionDef, ast.AsyncFunctionDef)) or fn.name == "check_type_against":
            continue

        def scan(stmts: list[ast.stmt], before: list[ast.stmt]) -> None:
            nonlocal n_sites
            for i, st in enumerate(stmts):
                prefix = before + stmts[:i]
                if isinstance(st, (ast.FunctionDef, ast.AsyncFunctionDef, ast.ClassDef)):
                    continue
                header = [n for n in ast.iter_child_nodes(st) if not isinstance(n, (ast.stmt, ast.ExceptHandler, ast.match_case))]
                own = [c for h in header for c in ast.walk(h) if isinstance(c, ast.Call) and call_name(c) == "check_type_against"]
                if not list(_blocks(st)):
                    own = [c for c in ast.walk(st) if isinstance(c, ast.Call) and call_name(c) == "check_type_against"]
                for call in own:
                    n_sites += 1
                    node_arg = call.args[2] if len(call.args) > 2 else next((k.value for k in call.keywords if k.arg == "node"), None)
                    key = f"{mod.name}.{fn.name}#check_type_against@{ast.unparse(call.args[0]) if call.args else '?'}"
                    where = f"{mod.rel}:{call.lineno}"
                    if not isinstance(node_arg, ast.Name):
                        ctx.check(True, "R-C16.5", key, where, {"node_argument": ast.unparse(node_arg) if node_arg else None, "note": "not a variable: nothing can have annotated it by name"}, "")
                        continue
                    early = []
                    for p in prefix:
                        for c in ast.walk(p):
                            if isinstance(c, ast.Call) and call_name(c) in muts:
                                k = muts[call_name(c)]
                                a = c.args[k] if len(c.args) > k else None
                                if isinstance(a, ast.Name) and a.id == node_arg.id:
                                    early.append(f"line {c.lineno}: {ast.unparse(c)}")
                    ctx.check(not early, "R-C16.5", key, where,
                              {"checked_node": node_arg.id, "mutators": sorted(muts), "annotations_written_before_the_check": early},
                              "a type is written onto the node before check_type_against accepted it: when the check fails and the caller "
                              "suppresses the error to try another candidate, the node keeps a type that was never established")
                for b in _blocks(st):
                    scan(b, prefix)

        scan(fn.body, [])
    ctx.floor("R-C16.5", "check_type_against call sites in expr_checker", n_sites, 1)
