"""R-C12.7  every call site of a generic function gets its own inference variables -- `FunctionType.unquantified`, interpreted.

`unquantified()` is interpreted twice on ONE function-type token with two parameters (the parameters' `to_existential` hands out
a new variable at every call; `instantiate` is a recorder; properties decorated with `cached_property` are computed once per
object, as in Python).  Decided: both calls return (instantiated type, variables) with one variable per parameter, in parameter
order, and the two calls share no variable -- `h(h(x))` with `h: forall A. ...` must be able to solve the inner and the outer A
differently.
"""

from __future__ import annotations

import itertools

from ..absint.minieval import Unsupported
from ..absint.pyeval import PyEval, Raised, Tok
from ..report import Ctx

TY = "guppylang_internals.tys.ty"


def run(ctx: Ctx) -> bool:
    idx = ctx.idx
    ft = idx.find_class("FunctionType", TY)
    f = ft.find_method("unquantified")
    key = f"{ft.qualname}.unquantified#fresh-variables-per-call"
    if f is None:
        ctx.undecided("R-C12.7", key, ft.where, "FunctionType.unquantified not found")
        return False
    counter = itertools.count()

    def to_existential(r, a):
        k = next(counter)
        return (Tok(f"arg{k}_for_{r.name}", __ident__=1), Tok(f"?{r.name}#{k}", __ident__=1))

    params = [Tok(nm, __methods__={"to_existential": to_existential}, __ident__=1) for nm in ("A", "B")]
    me = Tok("func_ty", params=params, __classes__=ft.mro(), __ident__=1)
    me.attrs["__methods__"] = {"instantiate": lambda r, a: Tok("instantiated", args=list(a[0]), __ident__=1)}
    results = []
    try:
        for _ in (1, 2):
            out = PyEval(idx, TY, max_depth=6).run(f.node.body, {f.node.args.args[0].arg: me})
            if out[0] != "return" or not (isinstance(out[1], tuple) and len(out[1]) == 2):
                raise Unsupported(f"unquantified returns {out!r}"[:80])
            inst, vs = out[1]
            results.append(([getattr(x, "name", x) for x in inst.attrs.get("args", [])] if isinstance(inst, Tok) else inst, [getattr(v, "name", v) for v in vs]))
    except (Unsupported, Raised) as e:
        ctx.undecided("R-C12.7", key, f.where, str(e))
        return False
    (a1, v1), (a2, v2) = results
    shape_ok = all(len(v) == 2 and v[0].startswith("?A") and v[1].startswith("?B") and len(a) == 2 for a, v in results)
    fresh = not (set(v1) & set(v2)) and not (set(map(str, a1)) & set(map(str, a2)))
    ctx.check(shape_ok and fresh, "R-C12.7", key, f.where, {"first_call": {"arguments": a1, "variables": v1}, "second_call": {"arguments": a2, "variables": v2}},
              "two call sites of one generic function share their inference variables: solving one instantiation constrains the other "
              "(`h(h(x))` is rejected although an instantiation exists, or both calls are forced to the same type arguments)")
    return True


def run_closed(ctx: Ctx) -> bool:
    """R-C12.8  the solution a call hands out is resolved: `check_call`, interpreted on a triangular solution.

    The branch of `check_call` that uses the expected type is interpreted: synthesis fails (a parameter occurs only in the result),
    unification of the expected type `tuple[?T, int]` with the result type `tuple[?A, ?B]` and the argument check are recorders that
    return the consistent solution  ?T := ?A, ?B := int, ?A := bool  (variables solved in terms of each other -- what `unify`
    produces when it meets two variables).  Decided: the call is accepted (no internal error), the instantiation is built from a
    solution in which no solved variable occurs any more (?T := bool), and the solution handed back for the expected type's
    variables is closed as well.
    """
    idx = ctx.idx
    EC = "guppylang_internals.checker.expr_checker"
    f = idx.find_func("check_call", EC)
    key = f"{f.qualname}#solutions-resolved-against-each-other"
    ps = [a.arg for a in f.node.args.args]

    def var(nm):
        t = Tok(nm, __ident__=1)
        t.attrs["unsolved_vars"] = {t}
        t.attrs["__methods__"] = {"substitute": lambda r, a: a[0].get(r, r)}
        return t

    def closed(nm):
        t = Tok(nm, unsolved_vars=set(), __ident__=1)
        t.attrs["__methods__"] = {"substitute": lambda r, a: r}
        return t

    vT, vA, vB = var("?T"), var("?A"), var("?B")
    t_bool, t_int = closed("bool"), closed("int")
    expected = Tok("tuple[?T, int]", unsolved_vars={vT}, __ident__=1)
    expected.attrs["__methods__"] = {"substitute": lambda r, a: r}
    out_ty = Tok("tuple[?A, ?B]", unsolved_vars={vA, vB}, __ident__=1)
    out_ty.attrs["__methods__"] = {"substitute": lambda r, a: r}
    unq = Tok("unquantified", output=out_ty, inputs=[], __ident__=1)
    func_ty = Tok("func_ty", unsolved_vars=set(), inputs=[Tok("inp")], output=Tok("declared_output", __methods__={"substitute": lambda r, a: r}), __ident__=1)
    func_ty.attrs["__methods__"] = {"unquantified": lambda r, a: (unq, [vA, vB])}
    seen: dict = {}

    def h_synth(nd, e, env):
        raise Raised("cannot infer B", "GuppyTypeInferenceError")

    def h_all_solved(nd, e, env):
        seen["subst"] = dict(e.ev(nd.args[0], env))
        return ["inst_A", "inst_B"]

    env = {ps[0]: func_ty, ps[1]: [Tok("arg_true")], ps[2]: expected, ps[3]: Tok("node"), ps[4]: Tok("ctx"),
           "check_num_args": lambda nd, e, env: None, "synthesize_call": h_synth,
           "unify": lambda nd, e, env: {vT: vA, vB: t_int},
           "type_check_args": lambda nd, e, env: (e.ev(nd.args[0], env), {**e.ev(nd.args[2], env), vA: t_bool}),
           "check_all_solved": h_all_solved, "check_inst": lambda nd, e, env: None,
           "TypeMismatchError": lambda nd, e, env: Tok("TypeMismatchError", __methods__={"add_sub_diagnostic": lambda r, a: None})}
    for p_ in ps[5:]:
        env[p_] = "expression"
    ev = PyEval(idx, EC, max_depth=6)
    ev.check_asserts = True
    try:
        out = ev.run(f.node.body, env)
        raised = str(out[1]) if out[0] == "raise" else None
        ret = out[1] if out[0] == "return" else None
    except Raised as e:
        raised, ret = e.cls or str(e), None
    except Unsupported as e:
        ctx.undecided("R-C12.8", key, f.where, str(e))
        return False
    problems = []
    if raised:
        problems.append(f"the call is not accepted: {raised}")
    else:
        s_inst = seen.get("subst")
        names = {k.name: getattr(v, "name", v) for k, v in (s_inst or {}).items()}
        if names.get("?T") != "bool" or names.get("?A") != "bool" or names.get("?B") != "int":
            problems.append(f"the instantiation is computed from the unresolved solution {names}")
        s_out = ret[1] if isinstance(ret, tuple) and len(ret) == 3 else None
        out_names = {k.name: getattr(v, "name", v) for k, v in s_out.items()} if isinstance(s_out, dict) else s_out
        if out_names != {"?T": "bool"}:
            problems.append(f"the solution handed back for the expected type is {out_names}, should be {{'?T': 'bool'}}")
    ctx.check(not problems, "R-C12.8", key, f.where, {"solution_after_the_argument_check": {"?T": "?A", "?B": "int", "?A": "bool"}, "problems": problems},
              "a generic call whose parameters are solved in terms of each other (a nested generic call checked against an expected type "
              "with open variables) fails with an internal error, or hands out a half-resolved instantiation, although an instantiation "
              "that fits exists")
    return True


def _var(nm):
    t = Tok(nm, __ident__=1)
    t.attrs["unsolved_vars"] = {t}
    t.attrs["__methods__"] = {"substitute": lambda r, a: a[0].get(r, r)}  # ONE application, like Type.substitute
    return t


def _closed(nm):
    t = Tok(nm, unsolved_vars=set(), __ident__=1)
    t.attrs["__methods__"] = {"substitute": lambda r, a: r, "to_arg": lambda r, a: f"arg:{r.name}"}
    return t


def _closure(subst: dict) -> dict:
    out = dict(subst)
    for _ in range(len(out) + 1):
        out = {k: out.get(v, v) if isinstance(v, Tok) else v for k, v in out.items()}
    return out


def run_args(ctx: Ctx) -> bool:
    """R-C12.8 (arguments)  `type_check_args`, interpreted, on starting solutions that tie the parameters of the callee together.

    The callee is `g(u: ?U, t: ?T)`; the solution found from the expected type ties ?U and ?T (directly, through a chain via a
    third variable, or not at all); the two arguments are literals of type bool / float (`ExprChecker.check` is a recorder: against
    an open variable it solves it with the literal's type, against a closed type it accepts exactly that type).
    Specification: rejected (GuppyTypeError) iff ?U and ?T are tied and the literal types differ; if accepted, the returned
    solution -- closed under itself -- gives every parameter the type of its argument.
    """
    idx = ctx.idx
    EC = "guppylang_internals.checker.expr_checker"
    f = idx.find_func("type_check_args", EC)
    key = f"{f.qualname}#argument-solutions-merged-not-overwritten"
    ps = [a.arg for a in f.node.args.args]
    bad = []
    n = 0
    try:
        for start_name, (lit_u, lit_t) in itertools.product(("none", "?T:=?U", "?U:=?T", "?X:=?T,?T:=?U", "?T:=?X,?X:=?U", "?U:=?X,?X:=?T"), itertools.product(("bool", "float"), repeat=2)):
            n += 1
            vU, vT, vX = _var("?U"), _var("?T"), _var("?X")
            tys = {"bool": _closed("bool"), "float": _closed("float")}
            start = {"none": {}, "?T:=?U": {vT: vU}, "?U:=?T": {vU: vT}, "?X:=?T,?T:=?U": {vX: vT, vT: vU}, "?T:=?X,?X:=?U": {vT: vX, vX: vU},
                     "?U:=?X,?X:=?T": {vU: vX, vX: vT}}[start_name]
            tied = start_name != "none"

            def mk_checker(nd, e, env):
                def check(r, a):
                    arg, ty = a[0], a[1]
                    lit = tys[arg.attrs["lit"]]
                    if ty.attrs.get("unsolved_vars"):
                        return (arg, {ty: lit})
                    if ty is not lit:
                        raise Raised(f"expected {ty.name}, got {lit.name}", "GuppyTypeError")
                    return (arg, {})
                return Tok("ExprChecker", __methods__={"check": check})

            out_ty = Tok("out", unsolved_vars=set(), __methods__={"substitute": lambda r, a: r}, __ident__=1)
            func_ty = Tok("unquantified", parametrized=False, comptime_args=[], output=out_ty, __ident__=1,
                          inputs=[Tok("inp_u", ty=vU, flags=set(), __ident__=1), Tok("inp_t", ty=vT, flags=set(), __ident__=1)])
            args = [Tok("arg_u", __class__="Constant", lit=lit_u, __ident__=1), Tok("arg_t", __class__="Constant", lit=lit_t, __ident__=1)]
            env = {ps[0]: args, ps[1]: func_ty, ps[2]: dict(start), ps[3]: Tok("ctx"), ps[4]: Tok("node"),
                   "check_num_args": lambda nd, e, env: None, "ExprChecker": mk_checker}
            from .c06_place import FlagEval  # `InputFlags.X` evaluates to its name

            ev = FlagEval(idx, EC, max_depth=6)
            ev.check_asserts = True
            try:
                out = ev.run(f.node.body, env)
                raised = str(out[1]) if out[0] == "raise" else None
                ret = out[1] if out[0] == "return" else None
            except Raised as e:
                raised, ret = e.cls or str(e), None
            want_reject = tied and lit_u != lit_t
            case = {"solution_from_the_expected_type": start_name, "arguments": f"g({lit_u} literal, {lit_t} literal)"}
            if want_reject != (raised is not None) or (raised is not None and "GuppyTypeError" not in raised):
                got = _closure(ret[1]) if ret and isinstance(ret[1], dict) else None
                bad.append({**case, "outcome": f"rejected ({raised})" if raised else "accepted", "should_be": "rejected: ?U and ?T are tied but the arguments have different types" if want_reject else "accepted",
                            "solution": {k.name: getattr(v, "name", v) for k, v in (got or {}).items()}})
            elif not want_reject:
                got = _closure(ret[1]) if isinstance(ret, tuple) and isinstance(ret[1], dict) else {}
                names = {k.name: getattr(v, "name", v) for k, v in got.items()}
                if names.get("?U") != lit_u or names.get("?T") != lit_t:
                    bad.append({**case, "solution": names, "should_be": {"?U": lit_u, "?T": lit_t}})
    except Unsupported as e:
        ctx.undecided("R-C12.8", key, f.where, str(e))
        return False
    ctx.check(not bad, "R-C12.8", key, f.where, {"cases": n, "counterexamples": bad[:4], "n_counterexamples": len(bad)},
              "the solution found for one argument is overwritten by the next one when the callee's parameters are tied through the "
              "expected type (`f(g(True, 1.5))` with `g: (U, T) -> tuple[T, U, V]`, `f: tuple[X, X, int] -> X` is accepted with U = float "
              "and a bool argument), or a call that has an instantiation is rejected")
    return True


def run_against(ctx: Ctx) -> bool:
    """R-C12.8 (function values)  `check_type_against` on a generic function value: the solution handed back is resolved.

    The parametrised branch is interpreted with `unify` a recorder returning the consistent triangular solutions
    {?X := ?T, ?T := int} and {?T := ?X, ?X := int} (?X: variable of the expected type, ?T: the private variable standing for the
    value's parameter).  Specification: accepted; the instantiation of the parameter is int; the solution handed back is exactly
    {?X := int} -- no private variable of the value's own type escapes.
    """
    idx = ctx.idx
    EC = "guppylang_internals.checker.expr_checker"
    f = idx.find_func("check_type_against", EC)
    key = f"{f.qualname}#generic-value-solution-resolved"
    ps = [a.arg for a in f.node.args.args]
    bad = []
    try:
        for orient in ("?X:=?T,?T:=int", "?T:=?X,?X:=int"):
            vX, vT = _var("?X"), _var("?T")
            t_int = _closed("int")
            sol = {vX: vT, vT: t_int} if orient.startswith("?X") else {vT: vX, vX: t_int}
            exp = Tok("Callable[[?X, int], ?X]", __class__="FunctionType", parametrized=False, unsolved_vars={vX}, __ident__=1)
            unq = Tok("(?T, ?T) -> ?T", __ident__=1)
            act = Tok("forall T. (T, T) -> T", __class__="FunctionType", __bases__=("TypeBase",), parametrized=True, unsolved_vars=set(), params=[Tok("param_T", name="T")], __ident__=1)
            act.attrs["__methods__"] = {"unquantified": lambda r, a, unq=unq, vT=vT: (unq, [vT])}
            env = {ps[0]: act, ps[1]: exp, ps[2]: Tok("node"), ps[3]: Tok("ctx"), "unify": lambda nd, e, env, sol=sol: dict(sol), "check_inst": lambda nd, e, env: None,
                   "TypeMismatchError": lambda nd, e, env: Tok("TypeMismatchError", __methods__={"add_sub_diagnostic": lambda r, a: None})}
            for p_ in ps[4:]:
                env[p_] = "expression"
            ev = PyEval(idx, EC, max_depth=6)
            ev.check_asserts = True
            try:
                out = ev.run(f.node.body, env)
                raised = str(out[1]) if out[0] == "raise" else None
                ret = out[1] if out[0] == "return" else None
            except Raised as e:
                raised, ret = e.cls or str(e), None
            if raised is not None:
                bad.append({"solution_of_unify": orient, "outcome": f"rejected ({raised})", "should_be": "accepted with T = int"})
                continue
            if not (isinstance(ret, tuple) and len(ret) == 3 and isinstance(ret[1], dict)):
                raise Unsupported(f"check_type_against returns {ret!r}"[:80])
            s_out = {k.name: getattr(v, "name", v) for k, v in ret[1].items()}
            if s_out != {"?X": "int"} or list(ret[2]) != ["arg:int"]:
                bad.append({"solution_of_unify": orient, "solution_handed_back": s_out, "instantiation": [str(x) for x in ret[2]], "should_be": {"solution": {"?X": "int"}, "instantiation": ["arg:int"]}})
    except Unsupported as e:
        ctx.undecided("R-C12.8", key, f.where, str(e))
        return False
    ctx.check(not bad, "R-C12.8", key, f.where, {"cases": 2, "counterexamples": bad},
              "a generic function passed where a function type with open variables is expected (`h(k)`, `k: (T, T) -> T`, "
              "`h: Callable[[X, int], X] -> X`) hands back a solution that still mentions the value's private variable (internal error "
              "in the caller) or is rejected although T = X = int fits")
    return True


def run_transform(ctx: Ctx) -> bool:
    """R-C12.7 (function types)  applying a substitution to a function type keeps what identifies it: its comptime arguments.

    `FunctionType.transform` is interpreted on a function-type token with one comptime argument, with a transformer that does not
    handle the type itself (so it is rebuilt from transformed parts); the constructor is a recorder.  Decided: the rebuilt type is
    given the transformed comptime arguments (and the parameters and unitary flags of the original) -- otherwise `F.substitute(s)`
    is not F any more for the type of `foo[5]`, `foo(n: nat @comptime)`: it no longer unifies with itself.
    """
    idx = ctx.idx
    ft = idx.find_class("FunctionType", TY)
    f = ft.find_method("transform")
    key = f"{ft.qualname}.transform#keeps-comptime-arguments"
    if f is None:
        ctx.undecided("R-C12.7", key, ft.where, "FunctionType.transform not found")
        return False
    ps = [a.arg for a in f.node.args.args]
    carg = Tok("comptime_arg_5", __methods__={"transform": lambda r, a: Tok("transformed(comptime_arg_5)", __ident__=1)}, __ident__=1)
    ity = Tok("in_ty", __methods__={"transform": lambda r, a: Tok("transformed(in_ty)", __ident__=1)}, __ident__=1)
    oty = Tok("out_ty", __methods__={"transform": lambda r, a: Tok("transformed(out_ty)", __ident__=1)}, __ident__=1)
    flags = Tok("flags", __ident__=1)
    me = Tok("F5", inputs=[Tok("inp", ty=ity, __ident__=1)], output=oty, params=[], comptime_args=[carg], unitary_flags=flags, __classes__=ft.mro(), __ident__=1)
    tr = Tok("transformer", __methods__={"transform": lambda r, a: None}, __ident__=1)
    made: list = []

    def h_ctor(nd, e, env):
        pos = [e.ev(a, env) for a in nd.args]
        kw = {k.arg: e.ev(k.value, env) for k in nd.keywords if k.arg}
        names = ["inputs", "output", "params", "comptime_args", "unitary_flags"]
        for n_, v_ in zip(names, pos):
            kw.setdefault(n_, v_)
        made.append(kw)
        return Tok("rebuilt", **kw)

    env = {ps[0]: me, ps[1]: tr, "FunctionType": h_ctor, "replace": lambda nd, e, env: Tok("inp'", __ident__=1), "cast": lambda nd, e, env: e.ev(nd.args[1], env)}
    try:
        PyEval(idx, TY, max_depth=4).run(f.node.body, env)
    except (Unsupported, Raised) as e:
        ctx.undecided("R-C12.7", key, f.where, str(e))
        return False
    if len(made) != 1:
        ctx.undecided("R-C12.7", key, f.where, f"{len(made)} function types constructed")
        return False
    got = made[0].get("comptime_args")
    names = [getattr(x, "name", x) for x in got] if isinstance(got, list) else got
    ok = names == ["transformed(comptime_arg_5)"] and made[0].get("unitary_flags") is flags and made[0].get("params") == []
    ctx.check(ok, "R-C12.7", key, f.where, {"comptime_args_given_to_the_rebuilt_type": names, "flags_kept": made[0].get("unitary_flags") is flags},
              "a substitution applied to the type of `foo[5]` (`foo(n: nat @comptime)`) drops its comptime argument: the type no longer unifies "
              "with itself -- `pick((foo[5], 1), (foo[5], 2))` is rejected although T := tuple[F, int] fits, and a call of such a function value "
              "crashes in type_check_args")
    return True


def run_flags(ctx: Ctx) -> bool:
    """R-C12.1 (unitary flags)  two function types that differ only in their unitary flags are not identical.

    `unify` is interpreted on `qubit -> None [Control]` against `qubit -> None [no flags]` (same inputs, output, parameters).
    `FunctionType` equality compares the flags, so no assignment makes the two identical: unification has to fail.
    """
    idx = ctx.idx
    f = idx.find_func("unify", TY)
    key = f"{f.qualname}#function-types-differing-in-unitary-flags"
    ps = [a.arg for a in f.node.args.args]
    q = Tok("qubit_ty", __class__="OpaqueType", __bases__=("TypeBase",), linear=True, unsolved_vars=set(), __ident__=1)
    n = Tok("none_ty", __class__="NoneType", __bases__=("TypeBase",), linear=False, unsolved_vars=set(), __ident__=1)

    def fty(name, flags):
        inp = Tok(f"inp_{name}", ty=q, flags="Inout", __ident__=1)
        return Tok(name, __class__="FunctionType", __bases__=("ParametrizedTypeBase", "TypeBase"), inputs=[inp], output=n, params=[], args=[Tok("a1", __class__="TypeArg", ty=q), Tok("a2", __class__="TypeArg", ty=n)],
                   unitary_flags=flags, unsolved_vars=set(), __ident__=1)

    a, b = fty("controllable", "Control"), fty("plain", "NoFlags")
    env = {ps[0]: a, ps[1]: b, ps[2]: {}, "_unify_args": lambda nd, e, env: e.ev(nd.args[2], env)}
    try:
        out = PyEval(idx, TY, max_depth=4).run(f.node.body, env)
    except (Unsupported, Raised) as e:
        ctx.undecided("R-C12.1", key, f.where, str(e))
        return False
    res = out[1] if out[0] == "return" else out
    ctx.check(res is None, "R-C12.1", key, f.where, {"left": "qubit -> None [Control]", "right": "qubit -> None [no flags]", "unify_returns": repr(res)},
              "function types that differ only in their unitary flags unify although they are not identical")
    return True
