"""R-C12.7  every call site of a generic function gets its own inference variables -- `FunctionType.unquantified`, interpreted.

`unquantified()` is interpreted twice on ONE function-type token with two parameters (the parameters' `to_existential` hands out
a new variable at every call; `instantiate` is a recorder; properties decorated with `cached_property` are computed once per
object, as in Python).  Decided: both calls return (instantiated type, variables) with one variable per parameter, in parameter
order, and the two calls share no variable -- `h(h(x))` with `h: forall A. ...` must be able to solve the inner and the outer A
differently.
"""

from __future__ import annotations

import itertools

from ..absint.minieval import Unsupported
from ..absint.pyeval import PyEval, Raised, Tok
from ..report import Ctx

TY = "guppylang_internals.tys.ty"


def run(ctx: Ctx) -> bool:
    idx = ctx.idx
    ft = idx.find_class("FunctionType", TY)
    f = ft.find_method("unquantified")
    key = f"{ft.qualname}.unquantified#fresh-variables-per-call"
    if f is None:
        ctx.undecided("R-C12.7", key, ft.where, "FunctionType.unquantified not found")
        return False
    counter = itertools.count()

    def to_existential(r, a):
        k = next(counter)
        return (Tok(f"arg{k}_for_{r.name}", __ident__=1), Tok(f"?{r.name}#{k}", __ident__=1))

    params = [Tok(nm, __methods__={"to_existential": to_existential}, __ident__=1) for nm in ("A", "B")]
    me = Tok("func_ty", params=params, __classes__=ft.mro(), __ident__=1)
    me.attrs["__methods__"] = {"instantiate": lambda r, a: Tok("instantiated", args=list(a[0]), __ident__=1)}
    results = []
    try:
        for _ in (1, 2):
            out = PyEval(idx, TY, max_depth=6).run(f.node.body, {f.node.args.args[0].arg: me})
            if out[0] != "return" or not (isinstance(out[1], tuple) and len(out[1]) == 2):
                raise Unsupported(f"unquantified returns {out!r}"[:80])
            inst, vs = out[1]
            results.append(([getattr(x, "name", x) for x in inst.attrs.get("args", [])] if isinstance(inst, Tok) else inst, [getattr(v, "name", v) for v in vs]))
    except (Unsupported, Raised) as e:
        ctx.undecided("R-C12.7", key, f.where, str(e))
        return False
    (a1, v1), (a2, v2) = results
    shape_ok = all(len(v) == 2 and v[0].startswith("?A") and v[1].startswith("?B") and len(a) == 2 for a, v in results)
    fresh = not (set(v1) & set(v2)) and not (set(map(str, a1)) & set(map(str, a2)))
    ctx.check(shape_ok and fresh, "R-C12.7", key, f.where, {"first_call": {"arguments": a1, "variables": v1}, "second_call": {"arguments": a2, "variables": v2}},
              "two call sites of one generic function share their inference variables: solving one instantiation constrains the other "
              "(`h(h(x))` is rejected although an instantiation exists, or both calls are forced to the same type arguments)")
    return True


def run_closed(ctx: Ctx) -> bool:
    """R-C12.8  the solution a call hands out is resolved: `check_call`, interpreted on a triangular solution.

    The branch of `check_call` that uses the expected type is interpreted: synthesis fails (a parameter occurs only in the result),
    unification of the expected type `tuple[?T, int]` with the result type `tuple[?A, ?B]` and the argument check are recorders that
    return the consistent solution  ?T := ?A, ?B := int, ?A := bool  (variables solved in terms of each other -- what `unify`
    produces when it meets two variables).  Decided: the call is accepted (no internal error), the instantiation is built from a
    solution in which no solved variable occurs any more (?T := bool), and the solution handed back for the expected type's
    variables is closed as well.
    """
    idx = ctx.idx
    EC = "guppylang_internals.checker.expr_checker"
    f = idx.find_func("check_call", EC)
    key = f"{f.qualname}#solutions-resolved-against-each-other"
    ps = [a.arg for a in f.node.args.args]

    def var(nm):
        t = Tok(nm, __ident__=1)
        t.attrs["unsolved_vars"] = {t}
        t.attrs["__methods__"] = {"substitute": lambda r, a: a[0].get(r, r)}
        return t

    def closed(nm):
        t = Tok(nm, unsolved_vars=set(), __ident__=1)
        t.attrs["__methods__"] = {"substitute": lambda r, a: r}
        return t

    vT, vA, vB = var("?T"), var("?A"), var("?B")
    t_bool, t_int = closed("bool"), closed("int")
    expected = Tok("tuple[?T, int]", unsolved_vars={vT}, __ident__=1)
    expected.attrs["__methods__"] = {"substitute": lambda r, a: r}
    out_ty = Tok("tuple[?A, ?B]", unsolved_vars={vA, vB}, __ident__=1)
    out_ty.attrs["__methods__"] = {"substitute": lambda r, a: r}
    unq = Tok("unquantified", output=out_ty, inputs=[], __ident__=1)
    func_ty = Tok("func_ty", unsolved_vars=set(), inputs=[Tok("inp")], output=Tok("declared_output", __methods__={"substitute": lambda r, a: r}), __ident__=1)
    func_ty.attrs["__methods__"] = {"unquantified": lambda r, a: (unq, [vA, vB])}
    seen: dict = {}

    def h_synth(nd, e, env):
        raise Raised("cannot infer B", "GuppyTypeInferenceError")

    def h_all_solved(nd, e, env):
        seen["subst"] = dict(e.ev(nd.args[0], env))
        return ["inst_A", "inst_B"]

    env = {ps[0]: func_ty, ps[1]: [Tok("arg_true")], ps[2]: expected, ps[3]: Tok("node"), ps[4]: Tok("ctx"),
           "check_num_args": lambda nd, e, env: None, "synthesize_call": h_synth,
           "unify": lambda nd, e, env: {vT: vA, vB: t_int},
           "type_check_args": lambda nd, e, env: (e.ev(nd.args[0], env), {**e.ev(nd.args[2], env), vA: t_bool}),
           "check_all_solved": h_all_solved, "check_inst": lambda nd, e, env: None,
           "TypeMismatchError": lambda nd, e, env: Tok("TypeMismatchError", __methods__={"add_sub_diagnostic": lambda r, a: None})}
    for p_ in ps[5:]:
        env[p_] = "expression"
    ev = PyEval(idx, EC, max_depth=6)
    ev.check_asserts = True
    try:
        out = ev.run(f.node.body, env)
        raised = str(out[1]) if out[0] == "raise" else None
        ret = out[1] if out[0] == "return" else None
    except Raised as e:
        raised, ret = e.cls or str(e), None
    except Unsupported as e:
        ctx.undecided("R-C12.8", key, f.where, str(e))
        return False
    problems = []
    if raised:
        problems.append(f"the call is not accepted: {raised}")
    else:
        s_inst = seen.get("subst")
        names = {k.name: getattr(v, "name", v) for k, v in (s_inst or {}).items()}
        if names.get("?T") != "bool" or names.get("?A") != "bool" or names.get("?B") != "int":
            problems.append(f"the instantiation is computed from the unresolved solution {names}")
        s_out = ret[1] if isinstance(ret, tuple) and len(ret) == 3 else None
        out_names = {k.name: getattr(v, "name", v) for k, v in s_out.items()} if isinstance(s_out, dict) else s_out
        if out_names != {"?T": "bool"}:
            problems.append(f"the solution handed back for the expected type is {out_names}, should be {{'?T': 'bool'}}")
    ctx.check(not problems, "R-C12.8", key, f.where, {"solution_after_the_argument_check": {"?T": "?A", "?B": "int", "?A": "bool"}, "problems": problems},
              "a generic call whose parameters are solved in terms of each other (a nested generic call checked against an expected type "
              "with open variables) fails with an internal error, or hands out a half-resolved instantiation, although an instantiation "
              "that fits exists")
    return True
