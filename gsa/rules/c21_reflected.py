"""R-C21.3 (semantic form)  comptime operators fall back to the reflected method of the OTHER operand, operands swapped.

The wrapper that `binary_operation(f)` returns is interpreted from its syntax tree (the inner function's body; its decorators
only wrap errors) for a forward dunder (`__add__`, found in `binary_table`) and for a reflected one (`__radd__`, found in
`reverse_binary_table`), with every combination of: the direct method  succeeds / raises a Guppy error / raises another
exception,  and the partner method on the other operand  succeeds / raises.  The two tables are given in the orientation the
module defines (their own orientation is a separate instance), the operands are tokens whose methods are recorders.

Decided: the direct method is tried first, with (self, other) in this order, and its result returned; only if it fails the
partner method named by the table -- `__radd__` for `__add__`, `__add__` for `__radd__` -- is called ON `other` WITH `self`, and
its result returned; if both fail a GuppyTypeError is raised.  Both operands are traced objects (instances of the same class:
Python itself never tries the reflected method then, so `NotImplemented` is not a way out).
"""

from __future__ import annotations

import ast
import itertools

from ..absint.minieval import Unsupported
from ..absint.pyeval import PyEval, Raised, Tok
from ..report import Ctx

OBJ = "guppylang_internals.tracing.object"


def run(ctx: Ctx) -> bool:
    idx = ctx.idx
    bo = idx.find_func("binary_operation", OBJ)
    key = f"{bo.qualname}#reflected-fallback"
    wrapped = next((n for n in ast.walk(bo.node) if isinstance(n, ast.FunctionDef) and n is not bo.node), None)
    if wrapped is None or len(wrapped.args.args) != 2 or len(bo.node.args.args) != 1:
        ctx.undecided("R-C21.3", key, bo.where, "no inner wrapper function (self, other)")
        return False
    fname = bo.node.args.args[0].arg
    p_self, p_other = (a.arg for a in wrapped.args.args)
    tables = {"binary_table": {"__add__": ("__radd__", "+")}, "reverse_binary_table": {"__radd__": ("__add__", "+")}}
    bad = []
    n = 0
    try:
        for name, direct, partner in itertools.product(("__add__", "__radd__"), ("ok", "GuppyTypeError", "ValueError"), ("ok", "GuppyTypeError")):
            n += 1
            log: list = []

            def forward(a, b, log=log, direct=direct):
                log.append(("direct", a.name, b.name))
                if direct != "ok":
                    raise Raised("direct method fails", direct)
                return Tok("direct_result", __ident__=1)

            def getattr_(r, a, log=log, partner=partner):
                def bound(x, r=r, mname=a[0]):
                    log.append(("partner", r.name, mname, x.name))
                    if partner != "ok":
                        raise Raised("partner method fails", partner)
                    return Tok("partner_result", __ident__=1)
                bound.__gsa_lambda__ = True
                return bound

            # both operands are traced values (`i + f` with i: int, f: float): they are instances of the mixin's classes
            me = Tok("left_operand", _ty=Tok("ty_self"), __class__="GuppyObject", __bases__=("DunderMixin",), __ident__=1)
            other = Tok("right_operand", _ty=Tok("ty_other"), __class__="GuppyObject", __bases__=("DunderMixin",), __ident__=1)
            for t in (me, other):
                t.attrs["__methods__"] = {"__getattr__": getattr_}
            state = Tok("state", dfg=Tok("dfg", builder=Tok("builder")), node=Tok("node"), ctx=Tok("ctx"), __ident__=1)
            env = {fname: Tok("f", __name__=name, __call__=forward, __ident__=1), p_self: me, p_other: other, **tables,
                   "get_tracing_state": lambda nd, e, env, state=state: state, "guppy_object_from_py": lambda nd, e, env: e.ev(nd.args[0], env),
                   "BinaryOperatorNotDefinedError": lambda nd, e, env: Tok("BinaryOperatorNotDefinedError")}
            ev = PyEval(idx, OBJ, max_depth=6)
            try:
                out = ev.run(wrapped.body, env)
                raised = str(out[1]) if out[0] == "raise" else None
                ret = out[1] if out[0] == "return" else None
            except Raised as e:
                raised, ret = e.cls or str(e), None
            partner_name = "__radd__" if name == "__add__" else "__add__"
            want_log = [("direct", "left_operand", "right_operand")]
            if direct != "ok":
                want_log.append(("partner", "right_operand", partner_name, "left_operand"))
            want = "direct_result" if direct == "ok" else ("partner_result" if partner == "ok" else None)
            case = {"method": name, "direct_method": direct, "partner_method_on_the_other_operand": partner}
            got = ret.name if isinstance(ret, Tok) else ret
            if log != want_log or got != want or (want is None and "GuppyTypeError" not in str(raised)) or (want is not None and raised):
                bad.append({**case, "calls": log, "should_call": want_log, "outcome": raised or got, "should_be": want or "GuppyTypeError"})
    except Unsupported as e:
        ctx.undecided("R-C21.3", key, bo.where, str(e))
        return False
    ctx.check(not bad, "R-C21.3", key, bo.where, {"cases": n, "counterexamples": bad[:3], "n_counterexamples": len(bad)},
              "the reflected-operator fallback looks the method up in the wrong table or does not swap operands")
    return True
