"""R-C21.3 (semantic form)  comptime operators fall back to the reflected method of the OTHER operand, operands swapped.

End to end, from the module's own code:  (1) the module-level statements of tracing/object.py that build `binary_table` and
`reverse_binary_table` are interpreted on a model of the checker's operator table ({Add: ("__add__", "__radd__", "+"),
Sub: ("__sub__", "__rsub__", "-")}) -- whatever form they have (comprehensions, a loop filling two dicts);  (2)
`binary_operation(f)` is interpreted as a whole (its inner wrapper is built with its transparent decorators and then called) for
a forward dunder (`__add__`) and a reflected one (`__rsub__`), with every combination of: the direct method  succeeds / raises a
Guppy error / raises another exception,  and the partner method on the other operand  succeeds / raises.  The operands are
traced objects (instances of the mixin's class: Python itself never tries the reflected method for two objects of one class, so
`NotImplemented` is not a way out); their methods are recorders.

Decided: the direct method is tried first, with (self, other) in this order, and its result returned; only if it fails the
partner method of the SAME operator -- `__radd__` for `__add__`, `__sub__` for `__rsub__` -- is called ON `other` WITH `self`,
and its result returned; if both fail a GuppyTypeError is raised.
"""

from __future__ import annotations

import ast
import itertools

from ..absint.minieval import Unsupported
from ..absint.pyeval import PyEval, Raised, Tok
from ..report import Ctx

OBJ = "guppylang_internals.tracing.object"
SOURCE_TABLE = {"Add": ("__add__", "__radd__", "+"), "Sub": ("__sub__", "__rsub__", "-")}
TABLES = ("binary_table", "reverse_binary_table")


def module_tables(idx) -> dict:
    """The two tables as the module's own top-level statements build them from SOURCE_TABLE."""
    mod = idx.module(OBJ)
    env: dict = {"expr_checker.binary_table": dict(SOURCE_TABLE), "binary_table_source": dict(SOURCE_TABLE)}
    # `from ... import binary_table as X` style aliases of the checker's table
    for st in mod.tree.body:
        if isinstance(st, ast.ImportFrom) and (st.module or "").endswith("expr_checker"):
            for a in st.names:
                if a.name == "binary_table":
                    env[a.asname or a.name] = dict(SOURCE_TABLE)
    ev = PyEval(idx, OBJ, max_depth=4)
    for st in mod.tree.body:
        if isinstance(st, (ast.Assign, ast.AnnAssign, ast.AugAssign, ast.For)):
            names = {n.id for n in ast.walk(st) if isinstance(n, ast.Name)}
            if names & set(TABLES):
                r = ev.run([st], env)
                if r[0] == "raise":
                    raise Unsupported(f"building the operator tables raises {r[1]}")
    out = {t: env.get(t) for t in TABLES}
    if not all(isinstance(v, dict) and v for v in out.values()):
        raise Unsupported(f"operator tables not built by evaluable module-level statements: { {k: type(v).__name__ for k, v in out.items()} }")
    return out


def run(ctx: Ctx) -> bool:
    idx = ctx.idx
    bo = idx.find_func("binary_operation", OBJ)
    key = f"{bo.qualname}#reflected-fallback"
    if len(bo.node.args.args) != 1:
        ctx.undecided("R-C21.3", key, bo.where, "binary_operation does not take exactly the decorated method")
        return False
    fname = bo.node.args.args[0].arg
    bad = []
    n = 0
    try:
        tables = module_tables(idx)
        partner_of = {"__add__": "__radd__", "__rsub__": "__sub__"}
        for name, direct, partner in itertools.product(("__add__", "__rsub__"), ("ok", "GuppyTypeError", "ValueError"), ("ok", "GuppyTypeError")):
            n += 1
            log: list = []

            def forward(a, b, log=log, direct=direct):
                log.append(("direct", getattr(a, "name", a), getattr(b, "name", b)))
                if direct != "ok":
                    raise Raised("direct method fails", direct)
                return Tok("direct_result", __ident__=1)

            def getattr_(r, a, log=log, partner=partner):
                def bound(x, r=r, mname=a[0]):
                    log.append(("partner", r.name, mname, getattr(x, "name", x)))
                    if partner != "ok":
                        raise Raised("partner method fails", partner)
                    return Tok("partner_result", __ident__=1)
                bound.__gsa_lambda__ = True
                return bound

            me = Tok("left_operand", _ty=Tok("ty_self"), __class__="GuppyObject", __bases__=("DunderMixin",), __ident__=1)
            other = Tok("right_operand", _ty=Tok("ty_other"), __class__="GuppyObject", __bases__=("DunderMixin",), __ident__=1)
            for t in (me, other):
                t.attrs["__methods__"] = {"__getattr__": getattr_}
            state = Tok("state", dfg=Tok("dfg", builder=Tok("builder")), node=Tok("node"), ctx=Tok("ctx"), __ident__=1)

            def transparent(fn):
                return fn
            transparent.__gsa_decorator__ = True
            env = {fname: Tok("f", __name__=name, __call__=forward, __ident__=1), "__globals__": {k: dict(v) for k, v in tables.items()},
                   "capture_guppy_errors": transparent,
                   "get_tracing_state": lambda nd, e, env, state=state: state, "guppy_object_from_py": lambda nd, e, env: e.ev(nd.args[0], env),
                   "BinaryOperatorNotDefinedError": lambda nd, e, env: Tok("BinaryOperatorNotDefinedError")}
            ev = PyEval(idx, OBJ, max_depth=6)
            out = ev.run(bo.node.body, env)
            if out[0] != "return" or not callable(out[1]):
                raise Unsupported(f"binary_operation returns {out!r}"[:80])
            try:
                ret, raised = out[1](me, other), None
            except Raised as e:
                ret, raised = None, e.cls or str(e)
            want_log = [("direct", "left_operand", "right_operand")]
            if direct != "ok":
                want_log.append(("partner", "right_operand", partner_of[name], "left_operand"))
            want = "direct_result" if direct == "ok" else ("partner_result" if partner == "ok" else None)
            case = {"method": name, "direct_method": direct, "partner_method_on_the_other_operand": partner}
            got = ret.name if isinstance(ret, Tok) else ret
            if log != want_log or got != want or (want is None and "GuppyTypeError" not in str(raised)) or (want is not None and raised):
                bad.append({**case, "calls": log, "should_call": want_log, "outcome": raised or got, "should_be": want or "GuppyTypeError"})
    except Unsupported as e:
        ctx.undecided("R-C21.3", key, bo.where, str(e))
        return False
    ctx.check(not bad, "R-C21.3", key, bo.where, {"cases": n, "tables_as_built_by_the_module": {k: {a: list(b) for a, b in v.items()} for k, v in tables.items()},
                                                  "counterexamples": bad[:3], "n_counterexamples": len(bad)},
              "the reflected-operator fallback looks the method up in the wrong table (or the tables are keyed the wrong way round) or does "
              "not swap operands")
    return True
