"""R-C01.5  DFContainer pack/unpack of struct and tuple places, by abstract interpretation.

`DFContainer.__setitem__` / `__getitem__` (compiler/core.py) are interpreted from their syntax
trees on symbolic places: a struct or tuple place whose type nests up to depth 2 with every mix
of linear / non-linear leaves (the leaf list is the finite domain: what the code inspects is the
class of the type, the field list and `.linear`).  The HUGR builder is a recorder.  Decided:

  a. after `c[p] = w` only leaf places are bound (no stale wire for the aggregate itself),
     one leaf per UnpackTuple output, in field order;
  b. `c[p]` afterwards packs exactly those leaf wires, in the same order and with the same
     type list as the unpack (well-typed ports);
  c. after `c[p]` no linear leaf is still bound (a linear wire can be connected only once),
     and the aggregate's wire is bound so a second read does not pack again;
  d. after `c[p]` (packed, cached) every leaf is assigned anew (`s.q = ...; s.r = ...`): no wire of an enclosing aggregate is
     still bound, and the next `c[p]` packs exactly the new leaf wires, each once (not the stale first pack).
"""

from __future__ import annotations

import ast
import itertools

from ..absint.minieval import Unsupported
from ..absint.pyeval import PyEval, Raised, Tok
from ..report import Ctx


def _mk_types(idx):
    st = idx.find_class("StructType", "guppylang_internals.tys.ty")
    tt = idx.find_class("TupleType", "guppylang_internals.tys.ty")

    def leaf(name, linear):
        return Tok(f"ty:{name}", __class__="OpaqueType", linear=linear, copyable=not linear, droppable=not linear,
                   __methods__={"to_hugr": lambda recv, a: f"hugr:{recv.name}"})

    def struct(name, fields):
        lin = any(t.attrs["linear"] for _, t in fields)
        return Tok(f"ty:{name}", __class__="StructType", __bases__=["ParametrizedTypeBase", "TypeBase"], linear=lin,
                   fields=[Tok(f"field:{name}.{fn}", name=fn, ty=t) for fn, t in fields],
                   __methods__={"to_hugr": lambda recv, a: f"hugr:{recv.name}"})

    def tup(name, elems):
        lin = any(t.attrs["linear"] for t in elems)
        return Tok(f"ty:{name}", __class__="TupleType", __bases__=["ParametrizedTypeBase", "TypeBase"], linear=lin, element_types=list(elems),
                   __methods__={"to_hugr": lambda recv, a: f"hugr:{recv.name}"})

    return leaf, struct, tup


def run(ctx: Ctx) -> None:
    idx = ctx.idx
    dfc = idx.find_class("DFContainer", "guppylang_internals.compiler.core")
    get_, set_ = dfc.methods.get("__getitem__"), dfc.methods.get("__setitem__")
    if get_ is None or set_ is None:
        from ..index import AnalysisError
        raise AnalysisError("DFContainer.__getitem__/__setitem__ vanished")
    ctx.saw("functions", get_.qualname)
    ctx.saw("functions", set_.qualname)
    leaf, struct, tup = _mk_types(idx)
    cases = []
    for l1, l2, l3 in itertools.product((False, True), repeat=3):
        a, b, c = leaf("a", l1), leaf("b", l2), leaf("c", l3)
        cases.append((f"struct(a:{l1},b:{l2})", struct("S", [("x", a), ("y", b)])))
        cases.append((f"tuple({l1},{l2},{l3})", tup("T", [a, b, c])))
        cases.append((f"struct(x:{l1},t:tuple({l2},{l3}))", struct("S", [("x", a), ("t", tup("T", [b, c]))])))
        cases.append((f"tuple({l1},struct(y:{l2},z:{l3}))", tup("T", [a, struct("S", [("y", b), ("z", c)])])))
    seen = set()
    n_ok = 0
    for label, ty in cases:
        if label in seen:
            continue
        seen.add(label)
        key = f"{dfc.qualname}#set-then-get:{label}"
        ops: list[tuple] = []
        counter = itertools.count()

        def add_op(recv, args, ops=ops, counter=counter):
            op, ins = args[0], args[1:]
            n = next(counter)
            if op[0] == "UnpackTuple":
                outs = [f"w{n}.{i}" for i in range(len(op[1]))]
            else:
                outs = [f"w{n}.0"]
            ops.append((op[0], list(op[1]), list(ins), outs))
            return outs

        builder = Tok("builder", __methods__={"add_op": add_op})

        def mk_place(kind):
            def h(node, ev, env):
                vals = [ev.ev(x, env) for x in node.args]
                parent = vals[0]
                if kind == "FieldAccess":
                    fld = vals[1]
                    return Tok(f"{parent.name}.{fld.attrs['name']}", id=f"{parent.attrs['id']}.{fld.attrs['name']}", ty=fld.attrs["ty"], parent=parent, __class__="FieldAccess", __ident__=1)
                elem, i = vals[1], vals[2]
                return Tok(f"{parent.name}.{i}", id=f"{parent.attrs['id']}.{i}", ty=elem, parent=parent, __class__="TupleAccess", __ident__=1)
            return h

        env = {
            "FieldAccess": mk_place("FieldAccess"), "TupleAccess": mk_place("TupleAccess"),
            "ops.UnpackTuple": lambda node, ev, env: ("UnpackTuple", ev.ev(node.args[0], env)),
            "ops.MakeTuple": lambda node, ev, env: ("MakeTuple", ev.ev(node.args[0], env)),
            "is_return_var": lambda node, ev, env: False,
        }
        locals_: dict = {}
        cont = Tok("container", builder=builder, ctx=Tok("ctx"), locals=locals_, __classes__=[dfc], __ident__=1)
        place = Tok("p", id="p", ty=ty, name="p", __class__="Variable", __ident__=1)
        ev = PyEval(idx, "guppylang_internals.compiler.core", max_depth=12)
        try:
            ev.call_dunder(set_, cont, [place, "w_in"], env)
            after_set = dict(locals_)
            n_unpack = len(ops)
            got = ev.call_dunder(get_, cont, [place], env)
            after_get = dict(locals_)
            n_ops_first = len(ops)
            got2 = ev.call_dunder(get_, cont, [place], env) if not ty.attrs["linear"] else got
            repacked = len(ops) - n_ops_first
            # second assignment to the same place: the cached aggregate wire must not survive it
            n_before2 = len(ops)
            ev.call_dunder(set_, cont, [place, "w_in2"], env)
            after_set2 = dict(locals_)
            new_leafs = {w for o in ops[n_before2:] if o[0] == "UnpackTuple" for w in o[3]}
            # d. the aggregate is read (packed and cached), then re-initialised LEAF BY LEAF (`s.q = ...; s.r = ...`): the cached
            #    wires of the enclosing aggregates are stale and must be forgotten, the next read packs the new leaves
            got3 = ev.call_dunder(get_, cont, [place], env)

            def leaves(pl, t):
                cls_ = t.attrs["__class__"]
                if cls_ == "StructType":
                    for fld in t.attrs["fields"]:
                        yield from leaves(Tok(f"{pl.name}.{fld.attrs['name']}", id=f"{pl.attrs['id']}.{fld.attrs['name']}", ty=fld.attrs["ty"], parent=pl, __class__="FieldAccess", __ident__=1), fld.attrs["ty"])
                elif cls_ == "TupleType":
                    for i_, et in enumerate(t.attrs["element_types"]):
                        yield from leaves(Tok(f"{pl.name}.{i_}", id=f"{pl.attrs['id']}.{i_}", ty=et, parent=pl, __class__="TupleAccess", __ident__=1), et)
                else:
                    yield pl
            leaf_places = list(leaves(place, ty))
            for i_, lp in enumerate(leaf_places):
                ev.call_dunder(set_, cont, [lp, f"w_new{i_}"], env)
            after_leafwise = dict(locals_)
            n_before4 = len(ops)
            got4 = ev.call_dunder(get_, cont, [place], env)
            packed_inputs4 = [w for o in ops[n_before4:] if o[0] == "MakeTuple" for w in o[2] if str(w).startswith("w_new")]
            # d'. only the leaves of a NESTED aggregate are assigned anew (`s.t.0 = ...; s.t.1 = ...`) while the direct leaves of the
            #     place keep their wires (possible when those are not linear): the wire of the OUTER place is stale as well
            deep = [lp for lp in leaf_places if lp.attrs["id"].count(".") >= 2]
            shallow_linear = any(lp.attrs["ty"].attrs["linear"] for lp in leaf_places if lp.attrs["id"].count(".") == 1)
            nested_check = None
            if deep and not shallow_linear:
                for i_, lp in enumerate(deep):
                    ev.call_dunder(set_, cont, [lp, f"w_deep{i_}"], env)
                stale_outer = "p" in locals_
                n_before5 = len(ops)
                got5 = ev.call_dunder(get_, cont, [place], env)
                used5 = sorted(w for o in ops[n_before5:] if o[0] == "MakeTuple" for w in o[2] if str(w).startswith("w_deep"))
                nested_check = {"outer_wire_still_bound": stale_outer, "second_read_returns_the_earlier_pack": got5 == got4,
                                "nested_leaves_packed": used5, "should_pack": sorted(f"w_deep{i_}" for i_ in range(len(deep)))}
        except Unsupported as e:
            ctx.undecided("R-C01.5", key, set_.where, f"{type(e).__name__}: {e}")
            continue
        except Raised as e:
            # storing a well-formed value and reading it back must not fail (an internal compiler error for an accepted program)
            ctx.violation("R-C01.5", key, set_.where, {"raises": str(e), "ops_so_far": [(o[0], o[2], o[3]) for o in ops]},
                          "storing a struct/tuple value into a place and reading it back raises inside the compiler")
            continue
        problems = []
        # a. only leaves bound, one per unpack output
        unpack_outs = [w for o in ops[:n_unpack] if o[0] == "UnpackTuple" for w in o[3]]
        consumed = {w for o in ops[:n_unpack] for w in o[2]}
        leaf_wires = [w for w in unpack_outs if w not in consumed]
        if sorted(after_set.values()) != sorted(leaf_wires) or "p" in after_set:
            problems.append({"clause": "a", "bound_after_set": after_set, "leaf_wires": leaf_wires})
        # b. packs mirror unpacks
        packs = [o for o in ops[n_unpack:n_ops_first] if o[0] == "MakeTuple"]
        unpacks = [o for o in ops[:n_unpack] if o[0] == "UnpackTuple"]
        if len(packs) != len(unpacks) or any(o[0] not in ("MakeTuple",) for o in ops[n_unpack:n_ops_first]):
            problems.append({"clause": "b", "packs": len(packs), "unpacks": len(unpacks)})
        else:
            # match each pack with the unpack of the same type list; inputs of the pack are, leaf for leaf, the unpack's outputs
            # (inner aggregates: the output of the inner pack stands where the inner unpack's input stood)
            subst = {}
            for pk in packs:  # inner packs are emitted first
                cand = [u for u in unpacks if u[1] == pk[1] and [subst.get(w, w) for w in pk[2]] == [subst.get(w, w) for w in u[3]]]
                if not cand:
                    problems.append({"clause": "b", "pack": pk, "unpacks": unpacks})
                    break
                subst[pk[3][0]] = cand[0][2][0]
            if not problems and subst.get(got, got) != "w_in":
                problems.append({"clause": "b", "result": got})
        # c. linear leaves unbound after the read, aggregate bound
        lin_left = [k for k in after_get if k != "p" and _leaf_linear(ty, k)]
        if lin_left or after_get.get("p") != got or repacked or got2 != got:
            problems.append({"clause": "c", "still_bound_linear": lin_left, "bound_after_get": after_get, "repacked_on_second_read": repacked})
        if "p" in after_set2 or not set(after_set2.values()) <= new_leafs:
            problems.append({"clause": "a (re-assignment)", "bound_after_second_set": after_set2, "wires_of_second_value": sorted(new_leafs)})
        leaf_ids = {lp.attrs["id"] for lp in leaf_places}
        stale = sorted(k for k in after_leafwise if k not in leaf_ids)
        # (inner aggregates are packed first: every new leaf wire goes into exactly one pack; positions are clause b's subject)
        if stale or got4 == got3 or sorted(packed_inputs4) != sorted(f"w_new{i_}" for i_ in range(len(leaf_places))):
            problems.append({"clause": "d (leaf-wise re-initialisation after a read)", "aggregate_wires_still_bound": stale, "second_read_returns_the_first_pack": got4 == got3,
                             "leaves_packed_by_the_second_read": packed_inputs4})
        if nested_check is not None and (nested_check["outer_wire_still_bound"] or nested_check["second_read_returns_the_earlier_pack"]
                                         or nested_check["nested_leaves_packed"] != nested_check["should_pack"]):
            problems.append({"clause": "d' (only the leaves of a nested aggregate re-assigned)", **nested_check})
        n_ok += not problems
        ctx.check(not problems, "R-C01.5", key, set_.where, {"ops": [(o[0], o[2], o[3]) for o in ops], "problems": problems},
                  "storing a struct/tuple value and reading it back wires the HUGR wrongly: a stale or doubly-used wire, a field in "
                  "the wrong position, or a linear leaf that stays bound after it was packed")
    ctx.floor("R-C01.5", "place shapes evaluated", len(seen), 20)


def _leaf_linear(ty: Tok, place_id: str) -> bool:
    t = ty
    for part in place_id.split(".")[1:]:
        if t.attrs["__class__"] == "StructType":
            t = next(f.attrs["ty"] for f in t.attrs["fields"] if f.attrs["name"] == part)
        else:
            t = t.attrs["element_types"][int(part)]
    return bool(t.attrs["linear"])
