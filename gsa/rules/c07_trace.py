"""R-C07.5 (semantic form)  comptime tracing writes the callee's updates back into every borrowed argument.

`trace_call` is interpreted from its syntax tree on argument lists of length 0..3 over {owned, borrowed}; the tracing state,
the object constructors, the call checker / compiler and `update_packed_value` are recorders.  The data-flow container hands
out a *post-call* wire for a variable once the call has been compiled (and the pre-call wire before).

Decided: `update_packed_value` is called exactly once per borrowed argument, in order, with that very argument and an object
built from the variable's post-call wire and the variable's own type; owned arguments are not touched; when an argument cannot
be updated (the helper reports failure) a GuppyComptimeError is raised.
"""

from __future__ import annotations

import itertools

from ..absint.minieval import Unsupported
from ..absint.pyeval import PyEval, Raised, Tok
from ..index import dotted
from ..report import Ctx

TF = "guppylang_internals.tracing.function"


class FlagNameEval(PyEval):
    def attr(self, value, name, node, env):
        d = dotted(node)
        if d and d.split(".")[-2:-1] == ["InputFlags"]:
            return f"InputFlags.{name}"
        return super().attr(value, name, node, env)


def run(ctx: Ctx) -> bool:
    idx = ctx.idx
    tc = idx.find_func("trace_call", TF)
    key = f"{tc.qualname}#writes-back-every-borrowed-argument"
    a = tc.node.args
    fparam = (a.posonlyargs + a.args)[0].arg
    vararg = a.vararg.arg if a.vararg else None
    if vararg is None:
        ctx.undecided("R-C07.5", key, tc.where, "trace_call has no *args parameter")
        return False
    bad = []
    n = 0
    try:
        for length in range(0, 4):
            for kinds in itertools.product(("owned", "borrowed"), repeat=length):
                for failing in [None] + [i for i, k in enumerate(kinds) if k == "borrowed"]:
                    n += 1
                    compiled = [False]
                    updates: list = []
                    counter = [0]
                    args = [Tok(f"pyarg{i}", __ident__=1) for i in range(length)]
                    var_of: dict = {}

                    def h_from_py(node, e, env):
                        v = e.ev(node.args[0], env)
                        return Tok(f"obj({v.name})", _ty=Tok(f"ty({v.name})", __ident__=1), __methods__={"_use_wire": lambda r, x, v=v: Tok(f"precall_wire({v.name})")}, __ident__=1)

                    def h_var(node, e, env, counter=counter):
                        vals = [e.ev(x, env) for x in node.args]
                        kws = {k.arg: e.ev(k.value, env) for k in node.keywords if k.arg}
                        counter[0] += 1
                        sv = kws.get("static_value", vals[3] if len(vals) > 3 else None)
                        v = Tok(f"var{counter[0]}", name=vals[0], ty=vals[1], static_value=sv, __class__="ComptimeVariable", __ident__=1)
                        if isinstance(sv, Tok):
                            var_of[sv.name] = v
                        return v

                    def dfg_get(k, compiled=compiled):
                        return Tok(("postcall_wire(" if compiled[0] else "precall_wire(") + k.name + ")", __ident__=1)

                    dfg = Tok("dfg", builder=Tok("builder", __ident__=1), __getitem__=dfg_get, __methods__={"__setitem__": lambda r, x: None}, __ident__=1)
                    state = Tok("state", dfg=dfg, node=Tok("node"), ctx=Tok("ctx"), globals=Tok("globals"), __ident__=1)
                    inputs = [Tok(f"inp{i}", flags={"InputFlags.Inout"} if k == "borrowed" else set(), ty=Tok(f"sig_ty{i}")) for i, k in enumerate(kinds)]
                    func = Tok("func", ty=Tok("fty", inputs=inputs), __methods__={"synthesize_call": lambda r, x: (Tok("call_node"), Tok("ret_ty"))}, __ident__=1)

                    def h_compile(r, x, compiled=compiled):
                        compiled[0] = True
                        return Tok("ret_wire")

                    def h_update(node, e, env, updates=updates, failing=failing, args=args):
                        vals = [e.ev(x, env) for x in node.args]
                        updates.append(vals)
                        i = next((j for j, t in enumerate(args) if t is vals[0]), None)
                        return not (failing is not None and i == failing)

                    env = {
                        fparam: func, vararg: tuple(args),
                        "get_tracing_state": lambda node, e, env: state,
                        "guppy_object_from_py": h_from_py, "ComptimeVariable": h_var, "next": lambda node, e, env: f"%tmp{counter[0]}",
                        "Locals": lambda node, e, env: Tok("locals"), "Context": lambda node, e, env: Tok("context"),
                        "with_loc": lambda node, e, env: e.ev(node.args[1], env), "with_type": lambda node, e, env: e.ev(node.args[1], env),
                        "PlaceNode": lambda node, e, env: Tok("place_node", place=e.ev(node.args[0], env)),
                        "ExprCompiler": lambda node, e, env: Tok("expr_compiler", __methods__={"compile": h_compile}),
                        "GuppyObject": lambda node, e, env: Tok("guppy_object", _ty=e.ev(node.args[0], env), wire=e.ev(node.args[1], env)),
                        "update_packed_value": h_update,
                        "unpack_guppy_object": lambda node, e, env: Tok("result"),
                    }
                    ev = FlagNameEval(idx, TF, max_depth=6)
                    case = {"arguments": list(kinds), "update_fails_for_argument": failing}
                    try:
                        out = ev.run(tc.node.body, env)
                        raised = str(out[1]) if out[0] == "raise" else None
                    except Raised as e:
                        raised = e.cls or str(e)
                    borrowed = [i for i, k in enumerate(kinds) if k == "borrowed"]
                    upto = borrowed if failing is None else [i for i in borrowed if i <= failing]
                    got = []
                    for vals in updates:
                        i = next((j for j, t in enumerate(args) if t is vals[0]), None)
                        obj = vals[1] if len(vals) > 1 else None
                        v = var_of.get(args[i].name) if i is not None else None
                        good = isinstance(obj, Tok) and v is not None and isinstance(obj.attrs.get("wire"), Tok) and obj.attrs["wire"].name == f"postcall_wire({v.name})" \
                            and obj.attrs.get("_ty") is v.attrs["ty"]
                        got.append((i, good))
                    want_raise = failing is not None
                    if [i for i, _ in got] != upto or not all(g for _, g in got) or (raised is not None) != want_raise or (want_raise and "GuppyComptimeError" not in str(raised)):
                        bad.append({**case, "updated(argument index, with post-call wire and the variable's type)": got, "should_update": upto,
                                    "outcome": raised or "returns", "should": "raise GuppyComptimeError" if want_raise else "return"})
    except Unsupported as e:
        ctx.undecided("R-C07.5", key, tc.where, str(e))
        return False
    ctx.check(not bad, "R-C07.5", key, tc.where, {"cases": n, "counterexamples": bad[:3], "n_counterexamples": len(bad)},
              "a comptime function calling a Guppy function that borrows an argument keeps the pre-call wires (or skips an argument, or "
              "swallows the failure to update one)")
    _undeclared(ctx, tc, fparam, vararg)
    return True


def _undeclared(ctx: Ctx, tc, fparam: str, vararg: str) -> None:
    """Callees whose DECLARED type has no inputs although their calls borrow (custom checkers without annotations such as
    `barrier(*args)`, whose checker builds `FuncInput(t, InputFlags.Inout)`; overload sets, whose type is a dummy).

    `trace_call` is interpreted with one argument on such a callee (`func.ty.inputs == []`, `has_signature` false).  Decided: the
    argument -- consumed by `_use_wire` before the call -- is handed back (`update_packed_value` on it with the post-call wire) or
    the call is refused with an error; returning normally without either loses the borrowed value.
    The instance exists only while some custom call checker of the std library synthesises a borrowing input.
    """
    import ast

    idx = ctx.idx
    key = f"{tc.qualname}#borrowed-argument-of-a-callee-without-declared-inputs-handed-back"
    chk_mod = idx.module("guppylang_internals.std._internal.checker")
    borrowing = []
    for m in idx.iter_funcs((chk_mod.name,)):
        for call in ast.walk(m.node):
            if isinstance(call, ast.Call) and dotted(call.func).endswith("FuncInput") and any(dotted(a_).endswith("InputFlags.Inout") for a_ in call.args[1:]):
                borrowing.append(m.qualname.rsplit(".", 2)[-2] + "." + m.node.name if "." in m.qualname else m.qualname)
    if not borrowing:
        return
    updates: list = []
    compiled = [False]
    arg = Tok("pyarg0", __ident__=1)
    var_box: list = []

    def h_var(node, e, env):
        vals = [e.ev(x, env) for x in node.args]
        v = Tok("var1", name=vals[0], ty=vals[1], static_value=arg, __class__="ComptimeVariable", __ident__=1)
        var_box.append(v)
        return v

    dfg = Tok("dfg", builder=Tok("builder", __ident__=1), __getitem__=lambda k: Tok(("postcall_wire(" if compiled[0] else "precall_wire(") + k.name + ")", __ident__=1),
              __methods__={"__setitem__": lambda r, x: None}, __ident__=1)
    state = Tok("state", dfg=dfg, node=Tok("node"), ctx=Tok("ctx"), globals=Tok("globals"), __ident__=1)
    func = Tok("func", __class__="CustomFunctionDef", __bases__=("CallableDef",), has_signature=False, name="barrier", ty=Tok("dummy_ty", inputs=[], __ident__=1),
               __methods__={"synthesize_call": lambda r, x: (Tok("call_node"), Tok("ret_ty"))}, __ident__=1)

    def h_compile(r, x):
        compiled[0] = True
        return Tok("ret_wire")

    def h_update(node, e, env):
        updates.append([e.ev(x, env) for x in node.args])
        return True

    env = {fparam: func, vararg: (arg,), "get_tracing_state": lambda node, e, env: state,
           "guppy_object_from_py": lambda node, e, env: Tok("obj(pyarg0)", _ty=Tok("ty(pyarg0)", __ident__=1), __methods__={"_use_wire": lambda r, x: Tok("precall_wire")}, __ident__=1),
           "ComptimeVariable": h_var, "next": lambda node, e, env: "%tmp1", "Locals": lambda node, e, env: Tok("locals"), "Context": lambda node, e, env: Tok("context"),
           "with_loc": lambda node, e, env: e.ev(node.args[1], env), "with_type": lambda node, e, env: e.ev(node.args[1], env),
           "PlaceNode": lambda node, e, env: Tok("place_node", place=e.ev(node.args[0], env)),
           "ExprCompiler": lambda node, e, env: Tok("expr_compiler", __methods__={"compile": h_compile}),
           "GuppyObject": lambda node, e, env: Tok("guppy_object", _ty=e.ev(node.args[0], env), wire=e.ev(node.args[1], env)),
           "update_packed_value": h_update, "unpack_guppy_object": lambda node, e, env: Tok("result")}
    try:
        out = FlagNameEval(idx, TF, max_depth=6).run(tc.node.body, env)
        raised = str(out[1]) if out[0] == "raise" else None
    except Raised as e:
        raised = e.cls or str(e)
    except Unsupported as e:
        ctx.undecided("R-C07.5", key, tc.where, str(e))
        return
    handed_back = any(v and v[0] is arg for v in updates)
    ctx.check(handed_back or raised is not None, "R-C07.5", key, tc.where,
              {"callee": "declared type without inputs (has_signature false), call checked by a custom checker", "borrowing_custom_checkers": sorted(set(borrowing)),
               "argument_handed_back": handed_back, "outcome": raised or "returns normally"},
              "a comptime function that passes a non-copyable value to `barrier(q)` / `state_result(tag, q)` / an overloaded function loses it: "
              "the borrowed value is never handed back (a later use is rejected as a second use, and leaking it goes unnoticed)")
