"""C08 use-before-definition is rejected exactly -- via the obligations it rests on.

The accept/reject boundary is `check_bb`'s test against the dataflow results.  Decided:

R-C08.1  the analyses feeding it satisfy the C09 obligations (re-checked here) and
         `CFG.analyze` is called before its results are used by check_cfg /
         check_nested_func_def / check_modified_block; the set of locals
         (`assigned_somewhere`) is built from *all* blocks, reachable or not (Python scoping
         ignores branch conditions).
R-C08.2  (with R-C08.3) `check_bb` is interpreted as a whole with recorder tokens on every combination of the membership facts it
         tests, for the entry block and for real and never-taken successor edges (c08_checkbb.py); the truth-table form of
         the two raise conditions below is the fallback.  Both 'not defined' decision points are the same predicate:
         entry block:   raise iff  not assigned-before and (local or (not global and not generic))
         along an edge: raise iff  (local and not in scope) or (not local and not global and not generic)
         (truth tables over the membership atoms).
R-C08.3  every successor edge, dummy ones included, is examined; the edge loop has no early
         exit other than raising.
R-C08.4  CFG construction, interpreted (c08_build.py): `visit_stmts` on all statement sequences of length <= 4 over {plain, ends in
         a new block, jumps}: dead code after a jump starts a fresh block dummy-linked from the block that jumped; `build` with
         the real `link` / `update_reachable` (both set-iteration orders) on 9 model CFGs: reachable = graph reachability, no
         dead block keeps a live successor, no live block a dummy predecessor, both list pairs stay mirrored, other edges kept,
         "return expected" iff the fall-through end is live.  (Shape / text forms only as fallback.)
R-C08.5  path-dependent types: check_rows_match raises iff some variable's type differs between the
         two rows (all small row pairs, c08_rows.py below); check_cfg compares revisited blocks; `check_cfg` interpreted on 4
         model CFGs with statically dead blocks: every block reachable over real and dummy edges is checked once, with the
         row of the edge it was reached by, every other edge is compared (c08_worklist.py).
R-C08.6  per-block summaries: BB.compute_variable_stats with the whole VariableVisitor is interpreted on 18 small blocks
         (token trees of AST nodes; NodeVisitor protocol supplied by the interpreter): `used` = names read before the block
         assigns them, `assigned` = names it assigns -- for plain / augmented / annotated / attribute / subscript / tuple
         targets, comprehensions, nested functions, modifier blocks, comptime expressions, the branch predicate
         (c08_stats.py; the def-use shape rule of c08_blockuse.py only as fallback).
R-C08.7  assignment expressions: `ExprBuilder` interpreted on `(x, (x := e))` -- a load that Python evaluates before the assignment
         expression must not end up behind the `x = e` statement the builder emits (c08_walrus.py); the three assignment
         visitors of CFGBuilder interpreted on `a[INDEX] = VALUE`: INDEX goes through the expression builder too (c08_targets.py).
Not decided: that the CFG has exactly Python's paths.
"""

from __future__ import annotations

import ast
import itertools

from ..absint import booltab
from ..flow import CFG, calls_any, must_raise, node_calls
from ..guards import generic_atomizer, lexical_guards
from ..index import AnalysisError, call_name, calls_in, dotted, walk_no_nested
from ..report import Ctx

LEVEL = "other"
EXPLANATION = (
    "Truth tables of the two 'not defined' predicates of check_bb over the membership atoms (assigned-before, local, in "
    "scope, global, generic), def-before-use of the analysis results in the three callers, all-blocks construction of the "
    "set of locals, edge-loop completeness, and two CFG-construction shape rules; the dataflow obligations themselves are "
    "those of C09 and are re-run as part of this check."
)

CC = "guppylang_internals.checker.cfg_checker"


def _membership_atom(e: ast.expr):
    """`x in A` / `x not in A`  ->  (atom text of A, positive?)"""
    if isinstance(e, ast.Compare) and len(e.ops) == 1 and isinstance(e.ops[0], (ast.In, ast.NotIn)):
        return ast.unparse(e.comparators[0]), isinstance(e.ops[0], ast.In)
    return None


ROLE = [("ass_before", "ass"), ("assigned_somewhere", "local"), ("ctx.locals", "scope"), ("generic_params", "gen"), ("globals", "glob")]


def role_of(container: str) -> str | None:
    for k, r in ROLE:
        if k in container:
            return r
    return None


def _known(x: ast.expr):
    m = _membership_atom(x)
    if m is None:
        return None
    r = role_of(m[0])
    return None if r is None else ("+" if m[1] else "-") + r


def raise_table(fn: ast.AST, raises: list[ast.Raise], atoms: list[str]):
    """atoms assignment -> True (a raise is reached whatever the other guards say), False (never),
    or 'sometimes' (depends on a condition the rule does not know: reported as a mismatch)."""
    from ..guards import raise_condition_table
    t = raise_condition_table(fn, raises, atoms, _known)
    return {k: (True if v == "always" else (False if v == "never" else "sometimes")) for k, v in t.items()}


def run(ctx: Ctx) -> None:
    idx = ctx.idx
    # ------------------------------------------------------------ R-C08.1 (dataflow obligations = C09)
    from . import C09
    sub = Ctx("C09", idx, ctx.tier, ctx.seed)
    C09.run(sub)
    bad = [o for o in sub.obligations if o.status != "ok"]
    ctx.check(not bad, "R-C08.1", "dataflow-obligations(C09)", "guppylang-internals/src/guppylang_internals/cfg/analysis.py",
              {"obligations": len(sub.obligations), "not_ok": [f"{o.rule} {o.key} {o.status}" for o in bad][:6]},
              "the definite/maybe-assignment or liveness results that decide 'not defined' are not the path-based solution")
    # CFG.analyze: locals from ALL blocks, statistics for all blocks -- part of the interpreted set-up obligation of C09 (R-C09.4);
    # the text-shape form below is the fallback when that was not decided
    analyze_decided = any(o.key.endswith("analyze#sets-up-both-analyses") and o.status in ("ok", "violation") for o in sub.obligations)
    if not analyze_decided:
        an = idx.method("CFG", "analyze", "guppylang_internals.cfg.cfg")
        # assigned_somewhere from all blocks
        asg = [n for n in walk_no_nested(an.node) if isinstance(n, ast.Assign) and any(isinstance(t, ast.Attribute) and t.attr == "assigned_somewhere" for t in n.targets)]
        ok = False
        facts = {}
        if len(asg) == 1:
            gens = [g for x in ast.walk(asg[0].value) if isinstance(x, (ast.GeneratorExp, ast.SetComp, ast.ListComp)) for g in x.generators]
            over_bbs = [g for g in gens if ast.unparse(g.iter) == "self.bbs"]
            facts = {"value": ast.unparse(asg[0].value)[:140], "filters_on_block_loop": [ast.unparse(c) for g in over_bbs for c in g.ifs]}
            ok = bool(over_bbs) and not any(g.ifs for g in over_bbs) and ".assigned" in facts["value"] and "def_ass_before" in facts["value"]
        ctx.check(ok, "R-C08.1", f"{an.qualname}#locals-from-all-blocks", an.where, facts,
                  "a name assigned only in statically dead code is not treated as a local: a read of it silently resolves to a global of the same "
                  "name instead of being rejected (Python scoping ignores branch conditions)")
        stats = [n for n in walk_no_nested(an.node) if isinstance(n, ast.Assign) and dotted(n.targets[0]) == "stats"]
        ok = len(stats) == 1 and isinstance(stats[0].value, ast.DictComp) and ast.unparse(stats[0].value.generators[0].iter) == "self.bbs" and not stats[0].value.generators[0].ifs
        ctx.check(ok, "R-C08.1", f"{an.qualname}#stats-for-all-blocks", an.where, {}, "variable statistics are not computed for every block")
    for fn_name, hint in (("check_cfg", CC), ("check_nested_func_def", "guppylang_internals.checker.func_checker"), ("check_modified_block", "guppylang_internals.checker.modifier_checker")):
        f = idx.find_func(fn_name, hint)
        g = CFG(f.node)
        users = [n for n in g.nodes if n.kind in ("stmt", "test") and n.ast is not None and any(
            isinstance(x, ast.Attribute) and x.attr in ("live_before", "ass_before", "maybe_ass_before") and isinstance(x.ctx, ast.Load) for e in _exprs(n) for x in ast.walk(e))
            or any(call_name(c) in ("check_bb", "check_cfg") for c in node_calls(n))]
        users = [n for n in users if not any(call_name(c) == "analyze" for c in node_calls(n))]
        if fn_name != "check_cfg":
            users = [n for n in users if any(isinstance(x, ast.Attribute) and x.attr in ("live_before",) for e in _exprs(n) for x in ast.walk(e))]
        ok = bool(users) and all(g.dominated_by(n, calls_any({"analyze"})) for n in users)
        ctx.check(ok, "R-C08.1", f"{f.qualname}#analyze-before-use", f.where, {"uses": len(users)},
                  "liveness/assignment results are read before (or without) running the analyses for this CFG")

    # ------------------------------------------------------------ R-C08.2 the two predicates
    from . import c08_checkbb
    if not c08_checkbb.run(ctx):
        # fallback (check_bb not interpretable): truth tables of the raise conditions inside the two loops, loop completeness by shape
        cb = idx.find_func("check_bb", CC)
        ctx.saw("functions", cb.qualname)
        entry_if = next((n for n in cb.node.body if isinstance(n, ast.If) and "entry_bb" in ast.unparse(n.test)), None)
        edge_loop = next((n for n in cb.node.body if isinstance(n, ast.For) and "successors" in ast.unparse(n.iter)), None)
        if entry_if is None or edge_loop is None:
            raise AnalysisError("check_bb: entry check or successor loop vanished")
        # entry predicate
        raises = [r for r in ast.walk(entry_if) if isinstance(r, ast.Raise)]
        atoms = ["ass", "local", "glob", "gen"]
        try:
            # `continue` on assigned-before is an early exit inside the for loop: lexical_guards handles it
            inner_for = next(n for n in ast.walk(entry_if) if isinstance(n, ast.For))
            tbl = raise_table(inner_for, raises, atoms)
            bad = []
            for vals, got in tbl.items():
                e = dict(zip(atoms, vals))
                want = (not e["ass"]) and (e["local"] or (not e["glob"] and not e["gen"]))
                if got != want:
                    bad.append({**e, "raises": got, "should": want})
            ctx.check(not bad, "R-C08.2", f"{cb.qualname}#entry-block-predicate", f"{cb.module.rel}:{entry_if.lineno}", {"rows": len(tbl), "counterexamples": bad[:4]},
                      "in the first block of a function a read of a not-yet-assigned local is accepted (resolved to a global) or a defined one rejected")
        except (booltab.Unsupported, StopIteration, KeyError) as e:
            ctx.undecided("R-C08.2", f"{cb.qualname}#entry-block-predicate", cb.where, f"{type(e).__name__}: {e}")
        # edge predicate
        raises = [r for r in ast.walk(edge_loop) if isinstance(r, ast.Raise)]
        atoms = ["local", "scope", "glob", "gen"]
        try:
            inner = next(n for n in ast.walk(edge_loop) if isinstance(n, ast.For) and n is not edge_loop)
            tbl = raise_table(inner, raises, atoms)
            bad = []
            for vals, got in tbl.items():
                e = dict(zip(atoms, vals))
                want = (e["local"] and not e["scope"]) or ((not e["local"]) and not e["glob"] and not e["gen"])
                if got != want:
                    bad.append({**e, "raises": got, "should": want})
            ctx.check(not bad, "R-C08.2", f"{cb.qualname}#edge-predicate", f"{cb.module.rel}:{edge_loop.lineno}", {"rows": len(tbl), "counterexamples": bad[:4]},
                      "a variable that a successor needs and that is not assigned on this path is accepted, or an assigned one rejected")
        except (booltab.Unsupported, StopIteration, KeyError) as e:
            ctx.undecided("R-C08.2", f"{cb.qualname}#edge-predicate", cb.where, f"{type(e).__name__}: {e}")
        # the variables examined along an edge are exactly those live before the successor
        inner = [n for n in ast.walk(edge_loop) if isinstance(n, ast.For) and n is not edge_loop]
        ok = bool(inner) and "live_before" in ast.unparse(inner[0].iter) and dotted(edge_loop.target) in ast.unparse(inner[0].iter)
        ctx.check(ok, "R-C08.2", f"{cb.qualname}#examines-live-variables-of-successor", cb.where, {"iterates": ast.unparse(inner[0].iter) if inner else None},
                  "the variables checked along an edge are not the ones live at the successor")

        # ------------------------------------------------------------ R-C08.3 every edge
        it = ast.unparse(edge_loop.iter)
        exits = [n for st in edge_loop.body for n in walk_no_nested(st) if isinstance(n, (ast.Break, ast.Return))]
        ctx.check("bb.successors" in it and "bb.dummy_successors" in it and not exits, "R-C08.3", f"{cb.qualname}#all-successor-edges", f"{cb.module.rel}:{edge_loop.lineno}",
                  {"iterates": it, "early_exits": len(exits)},
                  "a control-flow edge (e.g. into statically dead code) is not checked for undefined variables")

    from . import c08_walrus
    c08_walrus.run(ctx)  # R-C08.7
    from . import c08_targets
    c08_targets.run(ctx)  # R-C08.7 (targets)
    from . import c08_worklist
    c08_worklist.run(ctx)  # R-C08.5 (work list of check_cfg)

    # ------------------------------------------------------------ R-C08.4 CFG construction
    from . import c08_build
    vs_decided, build_decided = c08_build.run(ctx)
    if not vs_decided:
        # fallback: the shape of the loop in visit_stmts
        vs = idx.method("CFGBuilder", "visit_stmts", "guppylang_internals.cfg.builder")
        upd = [n for n in walk_no_nested(vs.node) if isinstance(n, ast.Assign) and isinstance(n.targets[0], ast.Tuple) and [dotted(t) for t in n.targets[0].elts] == ["prev_bb", "bb_opt"]]
        ok = len(upd) == 1 and isinstance(upd[0].value, ast.Tuple) and dotted(upd[0].value.elts[0]) == "bb_opt" and isinstance(upd[0].value.elts[1], ast.Call) and call_name(upd[0].value.elts[1]) == "visit"
        dl = [c for c in calls_in(vs.node) if call_name(c) == "dummy_link"]
        ok2 = len(dl) == 1 and [dotted(a) for a in dl[0].args] == ["prev_bb", "bb_opt"]
        ctx.check(ok and ok2, "R-C08.4", f"{vs.qualname}#dead-code-hangs-off-the-jumping-block", vs.where,
                  {"update": ast.unparse(upd[0]) if upd else None, "dummy_link": ast.unparse(dl[0]) if dl else None},
                  "dead code after return/break/continue is attached to an earlier block: its variable uses are demanded too early and a "
                  "correct program is rejected as 'not defined'")
    if not build_decided:
        # fallback: the pruning statements by their text
        bld = idx.method("CFGBuilder", "build", "guppylang_internals.cfg.builder")
        txt = ast.unparse(bld.node)
        ok = "bb.successors.remove(succ)" in txt and "succ.predecessors.remove(bb)" in txt and "pred.dummy_successors.remove(bb)" in txt and "bb.dummy_predecessors = []" in txt \
            and "update_reachable()" in txt
        if ok:
            ctx.ok("R-C08.4", f"{bld.qualname}#pruning-is-symmetric", bld.where, {"decided_by": "text of the pruning statements"})
        else:
            # neither interpretable nor in the known spelling: nothing can be said (a spelling that is absent proves nothing)
            ctx.undecided("R-C08.4", f"{bld.qualname}#pruning-is-symmetric", bld.where, "build could not be interpreted and the pruning statements are not in the known form")

    # ------------------------------------------------------------ R-C08.5 path-dependent types
    from . import c08_rows
    c08_rows.run(ctx)

    # ------------------------------------------------------------ R-C08.6 per-block use/assign summaries
    from . import c08_blockuse, c08_stats
    if not c08_stats.run(ctx):
        c08_blockuse.run(ctx)  # fallback: def-use shape of the statements that add to `used`


def _exprs(n):
    from ..flow import node_exprs
    return node_exprs(n)
