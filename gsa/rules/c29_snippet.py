"""R-C29.6  a rendered snippet shows the spanned lines, the markers under the spanned columns and every label word.

`DiagnosticsRenderer.render_snippet` is interpreted from its syntax tree together with everything it uses from the repository
-- `SourceMap.span_lines`, `Span` / `Loc` (properties, `shift_left`, `__len__`), `wrap` -- on a source file of nine lines with
indentation depths 0, 4, 16 and 20, for single-line spans at many columns (up to column 75), two-line and four-line spans,
0 or 2 context lines, primary / secondary style, no label, a short label and a long one (words of at most ten characters).
`textwrap.wrap` is the standard library's own (the checker calls it as the model of itself); nothing of the repository is run.

Decided, for every case, on the produced lines (`<number> | <text>`):
  * rendering returns normally;
  * the numbered lines are the context lines and the first / last (single) line of the span, in order, with their true
    numbers, and their texts are the source lines minus one common amount of leading blanks;
  * the marker run under the first / last line starts and ends exactly under the spanned columns (shifted by the same amount);
  * every word of the label appears, whole and in order, after the markers and on the continuation lines.
"""

from __future__ import annotations

import itertools
import textwrap

from ..absint.minieval import Unsupported
from ..absint.pyeval import PyEval, Raised, Tok
from ..report import Ctx

DG = "guppylang_internals.diagnostic"
SP = "guppylang_internals.span"

SOURCE = [
    "def foo(x: int, y: int, some_rather_long_parameter_name: int) -> int:  # a line that is longer than seventy columns",
    "    a = x + y",
    "    if a > some_rather_long_parameter_name and x < y and y < 123456789 and a != 0 and x != y and a < 99999:",
    "                b = a * 2",
    "                    c = b + compute_something_with_a_long_name(a, b, x, y) + another_long_function_name(c)",
    "                    d = c",
    "                e = d",
    "    return a",
    "",
    "    tail = a  # a statement whose context lines include the blank line above",
    "",
]
SHORT = "wrong type here"
LONG = ("this label is rather long because it explains in many short words what exactly went wrong with the expression that is marked above "
        "and what the user could do instead to repair the program")


def run(ctx: Ctx) -> bool:
    idx = ctx.idx
    rs = idx.method("DiagnosticsRenderer", "render_snippet", DG)
    span_cls, loc_cls, sm_cls = idx.find_class("Span", SP), idx.find_class("Loc", SP), idx.find_class("SourceMap", SP)
    key = f"{rs.qualname}#lines-markers-and-label-words"
    ps = [a.arg for a in rs.node.args.args]

    def loc(file, line, col):
        return Tok(f"Loc({line},{col})", __class__="Loc", __classes__=loc_cls.mro(), file=file, line=line, column=col, __str__=f"{file}:{line}:{col}")

    def span(a, b):
        return Tok(f"Span({a.name},{b.name})", __class__="Span", __classes__=span_cls.mro(), start=a, end=b)

    def h_wrap_std(node, e, env):
        vals = [e.ev(x, env) for x in node.args]
        kws = {}
        for k in node.keywords:
            v = e.ev(k.value, env)
            if k.arg is None:
                kws.update(v)
            else:
                kws[k.arg] = v
        try:
            return textwrap.wrap(*vals, **kws)
        except (ValueError, TypeError) as ex:
            raise Raised(f"textwrap.wrap: {ex}", type(ex).__name__) from None

    hooks = {
        "Loc": lambda node, e, env: loc(*[e.ev(x, env) for x in node.args]),
        "Span": lambda node, e, env: span(*[e.ev(x, env) for x in node.args]),
        "textwrap.wrap": h_wrap_std,
    }
    cases = []
    for line_no, cols in ((1, [(0, 3), (8, 9), (40, 46), (55, 60), (62, 70), (75, 80)]), (2, [(4, 5), (8, 13)]), (5, [(20, 21), (24, 60), (70, 90)]), (8, [(4, 10)])):
        for c1, c2 in cols:
            cases.append(((line_no, c1), (line_no, c2)))
    cases += [((1, 4), (2, 9)), ((2, 4), (3, 20)), ((4, 16), (7, 21)), ((5, 24), (6, 25)), ((1, 0), (8, 12))]
    cases += [((10, 4), (10, 8)), ((8, 4), (10, 12))]  # a blank line among the context lines / inside the span
    bad = []
    n = 0
    try:
        for (s, t), prefix, primary, label, max_lineno in itertools.product(cases, (0, 2), (True, False), (None, SHORT, LONG), (9, 120)):
            if max_lineno == 120 and (primary is False or prefix == 2):
                continue
            n += 1
            sp = span(loc("f.py", *s), loc("f.py", *t))
            buffer: list = []
            source = Tok("source_map", __classes__=sm_cls.mro(), sources={"f.py": list(SOURCE)}, __ident__=1)
            me = Tok("renderer", __classes__=rs.cls.mro(), buffer=buffer, source=source, __ident__=1)
            ev = PyEval(idx, DG, max_depth=12)
            case = {"span": f"{s[0]}:{s[1]}-{t[0]}:{t[1]}", "context_lines": prefix, "primary": primary, "label": (label or "")[:20], "max_lineno": max_lineno}
            try:
                out = ev.run(rs.node.body, {ps[0]: me, ps[1]: sp, ps[2]: label, ps[3]: max_lineno, ps[4]: primary, ps[5]: prefix, **hooks})
                if out[0] == "raise":
                    raise Raised(str(out[1]), str(out[1]))
            except Raised as e:
                bad.append({**case, "problem": f"rendering raises {e.cls or e}"})
                continue
            problems = _judge(buffer, s, t, prefix, primary, label)
            if problems:
                bad.append({**case, "problems": problems[:3], "output": [str(x)[:100] for x in buffer][:8]})
    except Unsupported as e:
        ctx.undecided("R-C29.6", key, rs.where, str(e))
        return False
    ctx.check(not bad, "R-C29.6", key, rs.where, {"cases": n, "counterexamples": bad[:2], "n_counterexamples": len(bad)},
              "a rendered snippet does not show the spanned source lines with their numbers, puts the markers under other columns than the "
              "spanned ones, loses or splits a word of the label, or fails")
    return True


def _judge(buffer, s, t, prefix, primary, label) -> list[str]:
    problems: list[str] = []
    rows = []
    for ln in buffer:
        if not isinstance(ln, str) or " | " not in ln and not ln.rstrip().endswith("|"):
            return [f"an output line has no line-number bar: {ln!r}"]
        num, _, text = ln.partition(" | ") if " | " in ln else (ln.rstrip()[:-1], "", "")
        rows.append((num.strip(), text))
    l1, c1 = s
    l2, c2 = t
    p = min(prefix, l1 - 1)
    want_numbered = list(range(l1 - p, l1 + 1)) + ([l2] if l2 != l1 else [])
    numbered = [(int(nm), tx) for nm, tx in rows if nm.isdigit()]
    if [k for k, _ in numbered] != want_numbered:
        return [f"numbered lines {[k for k, _ in numbered]}, should be {want_numbered}"]
    removes = set()
    for k, tx in numbered:
        src = SOURCE[k - 1]
        if not src.endswith(tx) or src[: len(src) - len(tx)].strip():
            problems.append(f"line {k} is shown as {tx!r}")
        else:
            removes.add(len(src) - len(tx))
    if len(removes) > 1:
        problems.append(f"the shown lines are trimmed by different amounts {sorted(removes)}")
    if problems:
        return problems
    rm = removes.pop() if removes else 0
    marker = "^" if primary else "-"
    idx_of = {k: i for i, (nm, _) in enumerate(rows) if nm.isdigit() for k in [int(nm)]}

    def marker_run(row_text):
        stripped = row_text.rstrip("\n")
        start = len(stripped) - len(stripped.lstrip(" "))
        j = start
        while j < len(stripped) and stripped[j] == marker:
            j += 1
        return start, j, stripped[j:]

    def row_after(k):
        i = idx_of[k] + 1
        return rows[i][1] if i < len(rows) and not rows[i][0].isdigit() else None

    if l1 != l2:
        first = row_after(l1)
        if first is None:
            return ["no marker line under the first line of the span"]
        a, b, rest = marker_run(first)
        shown_len = len(SOURCE[l1 - 1]) - rm
        if (a, b) != (c1 - rm, shown_len) or rest.strip():
            problems.append(f"markers under the first line cover columns {a}..{b}, the span covers {c1 - rm}..{shown_len}")
    last = row_after(l2)
    if last is None:
        return problems + ["no marker line under the last line of the span"]
    a, b, rest = marker_run(last)
    want_a = (c1 - rm) if l1 == l2 else 0  # the last line of a multi-line span is marked from the start of the shown line
    if (a, b) != (want_a, c2 - rm):
        problems.append(f"markers under line {l2} cover columns {a}..{b}, the span covers {want_a}..{c2 - rm}")
    # label words: after the markers, then on the following unnumbered lines
    tail = [rest] + [tx for nm, tx in rows[idx_of[l2] + 2:] if not nm.isdigit()]
    words = " ".join(tail).split()
    want_words = (label or "").split()
    if words != want_words:
        missing = [w for w in want_words if w not in words]
        problems.append(f"label words shown: {words[:8]}…, should be {want_words[:8]}… (missing or split: {missing[:4]})")
    return problems
