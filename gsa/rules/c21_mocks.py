"""R-C21.2 (sibling mocks)  the mocked builtins `int`, `float`, `len` forward the SAME kinds of traced values -- interpreted.

Each mock (a class with `__new__`, or a function) is interpreted on an argument that is an instance of each traced-object class the
mock module imports from `tracing.object` (a token of that class whose `__int__` / `__float__` / `__len__` are recorders), with
the real builtins as recorders.  Decided: for every such class, either all three mocks forward the value to its dunder method or
none does -- a class that only some mocks know is handed to the real builtin by the others (`int(s)` on a struct value raised
TypeError in a comptime function while `len(s)` worked).
"""

from __future__ import annotations

import ast

from ..absint.minieval import Unsupported
from ..absint.pyeval import PyEval, Raised, Tok
from ..report import Ctx

MOCKS = (("int", "__int__"), ("float", "__float__"), ("len", "__len__"))


def run(ctx: Ctx, mock_mod) -> bool:
    idx = ctx.idx
    traced = []
    for st in mock_mod.tree.body:
        if isinstance(st, ast.ImportFrom) and (st.module or "").endswith("tracing.object"):
            traced += [a.asname or a.name for a in st.names]
    key = f"{mock_mod.name}#same-traced-classes-as-sibling-mocks"
    if not traced:
        ctx.undecided("R-C21.2", key, mock_mod.rel, "the mock module imports no traced-object class")
        return False
    verdict: dict = {}
    where = mock_mod.rel
    try:
        for bname, dunder in MOCKS:
            c = idx.classes.get(f"{mock_mod.name}.{bname}")
            f = c.methods["__new__"] if c is not None and "__new__" in c.methods else idx.funcs.get(f"{mock_mod.name}.{bname}")
            if f is None:
                raise Unsupported(f"mock of {bname} not found")
            a = f.node.args
            pos = [x.arg for x in a.posonlyargs + a.args]
            for cls in traced:
                calls: list = []
                x = Tok(f"a_{cls}", __class__=cls, __methods__={d: (lambda r, av, d=d: calls.append(d) or Tok("traced_result")) for _, d in MOCKS}, __ident__=1)
                env = {}
                if f.node.name == "__new__":
                    env[pos[0]] = Tok("cls")
                    env[pos[1]] = x
                else:
                    env[pos[0]] = x
                if a.vararg:
                    env[a.vararg.arg] = ()
                if a.kwarg:
                    env[a.kwarg.arg] = {}
                for b in ("int", "float", "len"):
                    env[f"builtins.{b}"] = lambda nd, e, en, b=b: calls.append(f"builtins.{b}") or Tok("builtin_result")
                try:
                    PyEval(idx, mock_mod.name, max_depth=4).run(f.node.body, env)
                except Raised as e:
                    raise Unsupported(f"{bname} mock raises {e.cls or e}") from None
                verdict[(bname, cls)] = calls == [dunder]
    except Unsupported as e:
        ctx.undecided("R-C21.2", key, where, str(e))
        return False
    # plain Python values go to the real builtin and its result comes back unchanged (`int(True)` is 1, not True)
    plain_bad = []
    try:
        for bname, dunder in MOCKS:
            c = idx.classes.get(f"{mock_mod.name}.{bname}")
            f = c.methods["__new__"] if c is not None and "__new__" in c.methods else idx.funcs.get(f"{mock_mod.name}.{bname}")
            a = f.node.args
            pos = [x.arg for x in a.posonlyargs + a.args]
            for val in ((True, 7, 2.5, "12") if bname != "len" else ([1, 2], "ab", (1,))):
                calls = []
                env = {}
                if f.node.name == "__new__":
                    env[pos[0]] = Tok("cls")
                    env[pos[1]] = val
                else:
                    env[pos[0]] = val
                if a.vararg:
                    env[a.vararg.arg] = ()
                if a.kwarg:
                    env[a.kwarg.arg] = {}
                result = Tok("builtin_result", __ident__=1)
                for b in ("int", "float", "len"):
                    env[f"builtins.{b}"] = lambda nd, e, en, b=b, result=result: calls.append((f"builtins.{b}", [e.ev(nd.args[0], en)] if nd.args else [])) or result
                try:
                    out = PyEval(idx, mock_mod.name, max_depth=4).run(f.node.body, env)
                except Raised as e:
                    plain_bad.append({"mock": bname, "argument": repr(val), "outcome": f"raises {e.cls or e}"})
                    continue
                got = out[1] if out[0] == "return" else None
                if got is not result or calls != [(f"builtins.{bname}", [val])]:
                    plain_bad.append({"mock": bname, "argument": repr(val), "returns": repr(got), "calls": repr(calls), "should": f"return builtins.{bname}(argument)"})
    except Unsupported as e:
        ctx.undecided("R-C21.2", f"{mock_mod.name}#plain-values-go-to-the-real-builtin", where, str(e))
    else:
        ctx.check(not plain_bad, "R-C21.2", f"{mock_mod.name}#plain-values-go-to-the-real-builtin", where, {"counterexamples": plain_bad[:4]},
                  "a mocked builtin answers for a plain Python value itself instead of asking the real builtin: `int(True)` is `True` (a Guppy bool) "
                  "in a comptime function but 1 in a regular one")
    bad = []
    for cls in traced:
        fw = {b: verdict[(b, cls)] for b, _ in MOCKS}
        if len(set(fw.values())) > 1:
            bad.append({"class": cls, "forwarded_to_its_dunder_by": sorted(b for b, v in fw.items() if v), "handed_to_the_real_builtin_by": sorted(b for b, v in fw.items() if not v)})
    ctx.check(not bad, "R-C21.2", key, where, {"traced_classes": traced, "counterexamples": bad},
              "a mocked builtin hands a traced value of a class its sibling mocks forward to the real builtin (TypeError in a comptime function "
              "although the same body is accepted as a regular function)")
    return True
