"""Token models of syntax trees, and an interpreter that supplies the `ast.NodeVisitor` protocol.

`N("Assign", targets=[...], value=...)` builds a token that stands for an AST node (Python's or one of Guppy's own node
classes): the class name is what `isinstance` / `match` / `visit_<Class>` dispatch see, `_fields` is the order in which
`generic_visit` walks the children.

`VisitorEval` is PyEval plus:  `recv.visit(node)` / `recv.generic_visit(node)` on a token marked `__visitor__` dispatches to the
`visit_<Class>` method of the token's repository classes (MRO order) or walks the node's fields, exactly like ast.NodeVisitor.
With a `FlagDomain` it also evaluates enum.Flag arithmetic (`in`, `&`, `|`, `^`, `~`, `==`, truth) on `FlagV` values, and
`<FlagClass>.<Member>` evaluates to the member's value.
"""

from __future__ import annotations

import ast
from typing import Any

from .flagabs import FlagDomain, FlagV
from .minieval import Unsupported
from .pyeval import PyEval, Raised, Tok

_n = [0]


def N(cls: str, **fields: Any) -> Tok:
    _n[0] += 1
    order = fields.pop("_order", tuple(fields))
    return Tok(f"{cls}#{_n[0]}", __class__=cls, __bases__=("AST",), __ast__=True, _fields=tuple(order), __ident__=1, **fields)


def is_ast(v: Any) -> bool:
    return isinstance(v, Tok) and v.attrs.get("__ast__") is True


def names_in(node: Any) -> list:
    """Name tokens inside a node, in field order (what `find_nodes(isinstance Name)` returns for a real tree)."""
    out = []
    if is_ast(node):
        if node.attrs["__class__"] == "Name":
            out.append(node)
        for f in node.attrs["_fields"]:
            v = node.attrs.get(f)
            for x in (v if isinstance(v, list) else [v]):
                out.extend(names_in(x))
    return out


class VisitorEval(PyEval):
    def __init__(self, idx, module: str, max_depth: int = 24, flags: FlagDomain | None = None):
        super().__init__(idx, module, max_depth=max_depth)
        self.flagdom = flags

    # ---- NodeVisitor protocol
    def call(self, node, env):
        if isinstance(node.func, ast.Attribute) and node.func.attr in ("visit", "generic_visit") and len(node.args) == 1:
            recv = self.ev(node.func.value, env)
            if isinstance(recv, Tok) and recv.attrs.get("__visitor__"):
                return self.visit_node(recv, self.ev(node.args[0], env), env, generic=node.func.attr == "generic_visit")
        return super().call(node, env)

    def visit_node(self, recv, n, env, generic=False):
        if not is_ast(n):
            raise Unsupported(f"visit of {n!r}")
        if not generic:
            for c in recv.attrs["__classes__"]:
                m = c.methods.get("visit_" + n.attrs["__class__"])
                if m is not None:
                    if self.depth >= self.max_depth:
                        raise Unsupported("visitor depth")
                    ps = [a.arg for a in m.node.args.args]
                    new = {k: v for k, v in env.items() if callable(v)}
                    new[ps[0]], new[ps[1]] = recv, n
                    self.depth += 1
                    try:
                        out = self.run(m.node.body, new)
                    finally:
                        self.depth -= 1
                    if out[0] == "raise":
                        raise Raised(f"visit_{n.attrs['__class__']}: {out[1]}", str(out[1]))
                    return out[1] if out[0] == "return" else None
        for f in n.attrs["_fields"]:
            v = n.attrs.get(f)
            for x in (v if isinstance(v, list) else [v]):
                if is_ast(x):
                    self.visit_node(recv, x, env)
        return None

    # ---- enum.Flag arithmetic
    def attr(self, value, name, node, env):
        if self.flagdom is not None:
            base = ast.unparse(node.value)
            if base.split(".")[-1] == self.flagdom.name and name in self.flagdom.members:
                return FlagV(self.flagdom.members[name])
        return super().attr(value, name, node, env)

    def truth(self, v):
        if isinstance(v, FlagV):
            return v.bits != 0
        return super().truth(v)

    def compare(self, op, a, b):
        if isinstance(a, FlagV) and isinstance(b, FlagV):
            if isinstance(op, ast.In):
                return a.bits & b.bits == a.bits
            if isinstance(op, ast.NotIn):
                return a.bits & b.bits != a.bits
            if isinstance(op, (ast.Eq, ast.Is)):
                return a.bits == b.bits
            if isinstance(op, (ast.NotEq, ast.IsNot)):
                return a.bits != b.bits
            raise Unsupported(f"flag comparison {type(op).__name__}")
        return super().compare(op, a, b)

    def binop(self, op, a, b):
        if isinstance(a, FlagV) and isinstance(b, FlagV):
            if isinstance(op, ast.BitAnd):
                return FlagV(a.bits & b.bits)
            if isinstance(op, ast.BitOr):
                return FlagV(a.bits | b.bits)
            if isinstance(op, ast.BitXor):
                return FlagV(a.bits ^ b.bits)
            raise Unsupported(f"flag operator {type(op).__name__}")
        return super().binop(op, a, b)

    def unary(self, op, a):
        if isinstance(a, FlagV) and isinstance(op, ast.Invert) and self.flagdom is not None:
            return FlagV(~a.bits & self.flagdom.mask)
        return super().unary(op, a)
