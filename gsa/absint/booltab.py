"""Truth-table evaluation of boolean expression trees over named atoms.

`atomize(expr) -> str | None` names the atoms (e.g. 'self._used' -> 'used');
everything that is not and/or/not/ifexp/constant/atom makes the expression
`Unsupported` (the caller reports UNDECIDED, never a violation).
"""

from __future__ import annotations

import ast
import itertools
from typing import Callable


class Unsupported(Exception):
    pass


def atoms_of(e: ast.expr, atomize: Callable[[ast.expr], str | None]) -> list[str]:
    out: list[str] = []

    def go(x: ast.expr) -> None:
        while isinstance(x, ast.NamedExpr):  # `(n := e)` has the truth value of e
            x = x.value
        a = atomize(x)
        if a is not None:
            if a not in out:
                out.append(a)
            return
        if isinstance(x, ast.BoolOp):
            for v in x.values:
                go(v)
        elif isinstance(x, ast.UnaryOp) and isinstance(x.op, ast.Not):
            go(x.operand)
        elif isinstance(x, ast.IfExp):
            go(x.test), go(x.body), go(x.orelse)
        elif isinstance(x, ast.Constant) and isinstance(x.value, bool):
            return
        elif isinstance(x, ast.Compare) and len(x.ops) == 1 and isinstance(x.ops[0], (ast.Is, ast.IsNot, ast.Eq, ast.NotEq)) \
                and isinstance(x.comparators[0], ast.Constant) and isinstance(x.comparators[0].value, (bool, type(None))):
            go(x.left)
        else:
            raise Unsupported(ast.unparse(x)[:80])

    go(e)
    return out


def evaluate(e: ast.expr, env: dict[str, bool], atomize: Callable[[ast.expr], str | None]) -> bool:
    while isinstance(e, ast.NamedExpr):
        e = e.value
    a = atomize(e)
    if a is not None:
        return env[a]
    if isinstance(e, ast.BoolOp):
        vals = [evaluate(v, env, atomize) for v in e.values]
        return all(vals) if isinstance(e.op, ast.And) else any(vals)
    if isinstance(e, ast.UnaryOp) and isinstance(e.op, ast.Not):
        return not evaluate(e.operand, env, atomize)
    if isinstance(e, ast.IfExp):
        return evaluate(e.body if evaluate(e.test, env, atomize) else e.orelse, env, atomize)
    if isinstance(e, ast.Constant) and isinstance(e.value, bool):
        return e.value
    if isinstance(e, ast.Compare) and len(e.ops) == 1 and isinstance(e.comparators[0], ast.Constant):
        c = e.comparators[0].value
        v = evaluate(e.left, env, atomize)
        op = e.ops[0]
        if isinstance(c, bool):
            return (v == c) if isinstance(op, (ast.Is, ast.Eq)) else (v != c)
        if c is None:  # `x is None` with x a truthy/falsy atom: None is falsy
            return (not v) if isinstance(op, (ast.Is, ast.Eq)) else v
    raise Unsupported(ast.unparse(e)[:80])


def table(e: ast.expr, atom_names: list[str], atomize: Callable[[ast.expr], str | None]) -> dict[tuple[bool, ...], bool]:
    found = atoms_of(e, atomize)
    extra = [a for a in found if a not in atom_names]
    if extra:
        raise Unsupported(f"unexpected atoms {extra}")
    out = {}
    for vals in itertools.product([False, True], repeat=len(atom_names)):
        out[vals] = evaluate(e, dict(zip(atom_names, vals)), atomize)
    return out


def equivalent(e: ast.expr, atom_names: list[str], atomize: Callable[[ast.expr], str | None],
               spec: Callable[..., bool]) -> tuple[bool, list[dict]]:
    """Compare e with spec(**atoms) on all assignments. Returns (ok, counterexamples)."""
    t = table(e, atom_names, atomize)
    bad = []
    for vals, got in t.items():
        env = dict(zip(atom_names, vals))
        want = spec(**env)
        if got != want:
            bad.append({**env, "got": got, "want": want})
    return (not bad, bad)


def suffix_atomizer(mapping: dict[str, str]) -> Callable[[ast.expr], str | None]:
    """Atoms recognised by the *suffix* of their dotted/unparsed form:
    {'._used': 'used', '.copyable': 'copyable'}; a bare Name matches 'name' keys."""

    def f(x: ast.expr) -> str | None:
        if isinstance(x, (ast.Attribute, ast.Name)):
            s = ast.unparse(x)
            for suf, name in mapping.items():
                if s == suf or s.endswith(suf if suf.startswith(".") else "." + suf):
                    return name
        return None

    return f
