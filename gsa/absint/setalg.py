"""Membership evaluation of set/dict-valued expressions for one symbolic element.

`member(expr, env)` answers "is the symbolic element x in expr?" given booleans for the
atoms (names/attributes that denote sets or dicts, compared by their source text with
`.keys()` / `.items()` stripped).  Supported: |, &, -, ^, set/dict displays of nothing,
comprehensions over an atom with `if y [not] in ATOM` filters, `set(X)`, `X.keys()`,
`X.union(Y)`, `X.intersection(Y)`, `X.difference(Y)`, `X.copy()`.
"""

from __future__ import annotations

import ast
import itertools


class Unsupported(Exception):
    pass


def atom_text(e: ast.expr) -> str:
    while isinstance(e, ast.Call) and isinstance(e.func, ast.Attribute) and e.func.attr in ("keys", "items", "copy") and not e.args:
        e = e.func.value
    return ast.unparse(e)


def atoms(e: ast.expr) -> list[str]:
    out: list[str] = []

    def add(t: str) -> None:
        if t not in out:
            out.append(t)

    def go(x: ast.expr) -> None:
        if isinstance(x, ast.BinOp) and isinstance(x.op, (ast.BitOr, ast.BitAnd, ast.Sub, ast.BitXor)):
            go(x.left), go(x.right)
        elif isinstance(x, (ast.SetComp, ast.DictComp, ast.ListComp, ast.GeneratorExp)):
            for g in x.generators:
                go(g.iter)
                for c in g.ifs:
                    for cmp in _filters(c):
                        add(atom_text(cmp[1]))
        elif isinstance(x, ast.Call) and isinstance(x.func, ast.Attribute) and x.func.attr in ("union", "intersection", "difference", "symmetric_difference"):
            go(x.func.value)
            for a in x.args:
                go(a)
        elif isinstance(x, ast.Call) and isinstance(x.func, ast.Name) and x.func.id in ("set", "frozenset", "dict", "list") and len(x.args) <= 1:
            for a in x.args:
                go(a)
        elif isinstance(x, (ast.Set, ast.Dict, ast.List)) and not getattr(x, "elts", getattr(x, "keys", [])):
            return
        else:
            add(atom_text(x))

    go(e)
    return out


def _filters(c: ast.expr) -> list[tuple[bool, ast.expr]]:
    """[(positive?, container)] for `y in C`, `y not in C`, conjunctions thereof."""
    if isinstance(c, ast.BoolOp) and isinstance(c.op, ast.And):
        return [f for v in c.values for f in _filters(v)]
    if isinstance(c, ast.Compare) and len(c.ops) == 1 and isinstance(c.ops[0], (ast.In, ast.NotIn)):
        return [(isinstance(c.ops[0], ast.In), c.comparators[0])]
    if isinstance(c, ast.UnaryOp) and isinstance(c.op, ast.Not):
        return [(not p, t) for p, t in _filters(c.operand)]
    raise Unsupported(f"filter {ast.unparse(c)[:60]}")


def member(e: ast.expr, env: dict[str, bool]) -> bool:
    if isinstance(e, ast.BinOp):
        a, b = member(e.left, env), member(e.right, env)
        if isinstance(e.op, ast.BitOr):
            return a or b
        if isinstance(e.op, ast.BitAnd):
            return a and b
        if isinstance(e.op, ast.Sub):
            return a and not b
        if isinstance(e.op, ast.BitXor):
            return a != b
        raise Unsupported(f"operator {type(e.op).__name__}")
    if isinstance(e, (ast.SetComp, ast.DictComp, ast.ListComp, ast.GeneratorExp)):
        if len(e.generators) != 1:
            raise Unsupported("nested comprehension")
        g = e.generators[0]
        r = member(g.iter, env)
        for c in g.ifs:
            for pos, cont in _filters(c):
                r = r and (env[atom_text(cont)] == pos)
        return r
    if isinstance(e, ast.Call) and isinstance(e.func, ast.Attribute) and e.func.attr in ("union", "intersection", "difference", "symmetric_difference"):
        r = member(e.func.value, env)
        for a in e.args:
            b = member(a, env)
            r = {"union": r or b, "intersection": r and b, "difference": r and not b, "symmetric_difference": r != b}[e.func.attr]
        return r
    if isinstance(e, ast.Call) and isinstance(e.func, ast.Name) and e.func.id in ("set", "frozenset", "dict", "list"):
        return member(e.args[0], env) if e.args else False
    if isinstance(e, (ast.Set, ast.Dict, ast.List)) and not getattr(e, "elts", getattr(e, "keys", [])):
        return False
    t = atom_text(e)
    if t in env:
        return env[t]
    raise Unsupported(f"unknown set expression {t[:60]}")


def table(e: ast.expr, names: list[str] | None = None) -> tuple[list[str], dict[tuple[bool, ...], bool]]:
    ns = names or atoms(e)
    out = {}
    for vals in itertools.product([False, True], repeat=len(ns)):
        out[vals] = member(e, dict(zip(ns, vals)))
    return ns, out
