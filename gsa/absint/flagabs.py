"""Finite-domain evaluation over a Python `enum.Flag` class read from the source.

`FlagDomain.from_class(ClassDef)` folds the member values (`auto()`, `A | B`, ints);
`FlagEval` interprets `in`, `&`, `|`, `^`, `~`, `==`, `bool()` on flag values exactly as
enum.Flag does (`a in b`  <=>  a & b == a), so an expression over flags can be compared
with its specification on *all* pairs of flag sets.
"""

from __future__ import annotations

import ast
from dataclasses import dataclass
from typing import Any

from .minieval import MiniEval, Opaque, Unsupported


@dataclass(frozen=True)
class FlagV:
    bits: int

    def __repr__(self) -> str:
        return f"Flags({self.bits:#b})"


class FlagDomain:
    def __init__(self, name: str, members: dict[str, int]):
        self.name = name
        self.members = members
        self.mask = 0
        for v in members.values():
            self.mask |= v

    @classmethod
    def from_class(cls, node: ast.ClassDef) -> "FlagDomain":
        members: dict[str, int] = {}
        next_auto = 1

        def fold(e: ast.expr) -> int:
            nonlocal next_auto
            if isinstance(e, ast.Constant) and isinstance(e.value, int):
                return e.value
            if isinstance(e, ast.Call) and isinstance(e.func, ast.Name) and e.func.id == "auto":
                v = next_auto
                return v
            if isinstance(e, ast.Name) and e.id in members:
                return members[e.id]
            if isinstance(e, ast.BinOp) and isinstance(e.op, ast.BitOr):
                return fold(e.left) | fold(e.right)
            if isinstance(e, ast.BinOp) and isinstance(e.op, ast.BitAnd):
                return fold(e.left) & fold(e.right)
            raise Unsupported(f"flag member value {ast.unparse(e)}")

        for st in node.body:
            if isinstance(st, ast.Assign) and len(st.targets) == 1 and isinstance(st.targets[0], ast.Name):
                v = fold(st.value)
                members[st.targets[0].id] = v
                # auto() continues from the highest single bit seen so far
                hb = 1
                while hb <= max(members.values(), default=0):
                    hb <<= 1
                next_auto = hb
        return cls(node.name, members)

    def all_values(self) -> list[FlagV]:
        bits = [b for b in range(self.mask + 1) if b & ~self.mask == 0]
        return [FlagV(b) for b in bits]


class FlagEval(MiniEval):
    def __init__(self, dom: FlagDomain):
        self.dom = dom

    def attr(self, value: Any, name: str, node: ast.Attribute, env: dict) -> Any:
        base = ast.unparse(node.value)
        if base.split(".")[-1] == self.dom.name and name in self.dom.members:
            return FlagV(self.dom.members[name])
        return Opaque(ast.unparse(node))

    def truth(self, v: Any) -> bool:
        if isinstance(v, FlagV):
            return v.bits != 0
        return super().truth(v)

    def compare(self, op: ast.cmpop, a: Any, b: Any) -> bool:
        if isinstance(a, FlagV) and isinstance(b, FlagV):
            if isinstance(op, ast.In):
                return a.bits & b.bits == a.bits
            if isinstance(op, ast.NotIn):
                return a.bits & b.bits != a.bits
            if isinstance(op, (ast.Eq, ast.Is)):
                return a.bits == b.bits
            if isinstance(op, (ast.NotEq, ast.IsNot)):
                return a.bits != b.bits
        if isinstance(a, bool) and isinstance(b, bool) and isinstance(op, (ast.Eq, ast.Is, ast.NotEq, ast.IsNot)):
            return (a == b) if isinstance(op, (ast.Eq, ast.Is)) else (a != b)
        raise Unsupported(f"comparison {type(op).__name__} of {a!r}, {b!r}")

    def binop(self, op: ast.operator, a: Any, b: Any) -> Any:
        if isinstance(a, FlagV) and isinstance(b, FlagV):
            if isinstance(op, ast.BitAnd):
                return FlagV(a.bits & b.bits)
            if isinstance(op, ast.BitOr):
                return FlagV(a.bits | b.bits)
            if isinstance(op, ast.BitXor):
                return FlagV(a.bits ^ b.bits)
        raise Unsupported(f"binop {type(op).__name__} of {a!r}, {b!r}")

    def unary(self, op: ast.unaryop, a: Any) -> Any:
        if isinstance(op, ast.Invert) and isinstance(a, FlagV):
            return FlagV(~a.bits & self.dom.mask)
        raise Unsupported(f"unary {type(op).__name__} of {a!r}")

    def call(self, node: ast.Call, env: dict) -> Any:
        key = ast.unparse(node)
        if key in env:
            return env[key]
        fn = ast.unparse(node.func)
        if fn in env and callable(env[fn]):
            return env[fn](node, self, env)
        if fn == "bool" and len(node.args) == 1:
            return self.truth(self.ev(node.args[0], env))
        return Opaque(key[:40])
