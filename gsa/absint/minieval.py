"""A tiny abstract interpreter for straight-line/branching Python function bodies.

Subclasses provide the value domain through hooks.  Outcome of `run` is one of
  ("return", value) | ("raise", text) | ("fall", None)
Anything outside the fragment raises Unsupported (-> the rule reports UNDECIDED).
"""

from __future__ import annotations

import ast
from typing import Any


class Unsupported(Exception):
    pass


class FuelExhausted(Unsupported):
    """A `while` loop ran longer than `loop_fuel` iterations (callers that can bound the loop treat this as a finding)."""


class Opaque:
    """A value the domain knows nothing about; using it in a decision is Unsupported."""

    def __init__(self, what: str = "?"):
        self.what = what

    def __repr__(self) -> str:
        return f"<opaque {self.what}>"


class MiniEval:
    # Iterating over a set has no defined order, so by default it is not evaluated at all.  A caller that wants to decide
    # whether the result depends on that order sets `set_order` to "asc" and to "desc" in two runs and compares.
    set_order: str | None = None
    loop_fuel: int = 10000

    def ordered(self, it: Any) -> Any:
        # a symbolic token that models an iterable object carries its elements in `__iter__`
        if isinstance(getattr(it, "attrs", None), dict) and isinstance(it.attrs.get("__iter__"), list):
            return list(it.attrs["__iter__"])
        if isinstance(it, (set, frozenset)) and self.set_order in ("asc", "desc"):
            return sorted(it, key=repr, reverse=self.set_order == "desc")
        return it

    # ---- hooks ---------------------------------------------------------
    def name(self, ident: str, env: dict) -> Any:
        if ident in env:
            return env[ident]
        return Opaque(ident)

    def attr(self, value: Any, name: str, node: ast.Attribute, env: dict) -> Any:
        return Opaque(ast.unparse(node))

    def call(self, node: ast.Call, env: dict) -> Any:
        return Opaque(ast.unparse(node)[:40])

    def compare(self, op: ast.cmpop, a: Any, b: Any) -> bool:
        raise Unsupported(f"comparison {type(op).__name__} of {a!r}, {b!r}")

    def binop(self, op: ast.operator, a: Any, b: Any) -> Any:
        raise Unsupported(f"binop {type(op).__name__}")

    def unary(self, op: ast.unaryop, a: Any) -> Any:
        raise Unsupported(f"unary {type(op).__name__}")

    def truth(self, v: Any) -> bool:
        if isinstance(v, bool):
            return v
        if v is None:
            return False
        raise Unsupported(f"truthiness of {v!r}")

    def side_effect_stmt(self, st: ast.stmt, env: dict) -> None:
        """Expression statements: calls are evaluated for their hooks (and assumed to return normally)."""
        v = getattr(st, "value", None)
        if isinstance(v, ast.Call):
            try:
                self.call(v, env)
            except Unsupported:
                pass

    # ---- interpreter -----------------------------------------------------
    def run(self, body: list[ast.stmt], env: dict) -> tuple[str, Any]:
        for st in body:
            if isinstance(st, ast.Expr):
                if isinstance(st.value, ast.Constant):
                    continue
                self.side_effect_stmt(st, env)
                continue
            if isinstance(st, ast.Return):
                return ("return", self.ev(st.value, env) if st.value is not None else None)
            if isinstance(st, ast.Raise):
                return ("raise", ast.unparse(st)[:120])
            if isinstance(st, ast.If):
                try:
                    c = self.truth(self.ev(st.test, env))
                except Unsupported:
                    # test on values outside the domain: both branches must agree on the outcome kind
                    r1 = self.run(st.body, dict(env))
                    r2 = self.run(st.orelse, dict(env))
                    if r1[0] != r2[0] or (r1[0] == "return" and r1[1] != r2[1]):
                        raise
                    if r1[0] == "fall":
                        continue
                    return r1
                r = self.run(st.body if c else st.orelse, env)
                if r[0] != "fall":
                    return r
                continue
            if isinstance(st, ast.Assign):
                # `a = b = value`: the value is evaluated once and bound to the targets from left to right
                val_ = self.ev(st.value, env)
                for t_ in st.targets:
                    self.assign(t_, val_, env)
                continue
            if isinstance(st, ast.AnnAssign):
                if st.value is not None:
                    self.assign(st.target, self.ev(st.value, env), env)
                continue
            if isinstance(st, ast.AugAssign) and isinstance(st.target, (ast.Name, ast.Attribute, ast.Subscript)):
                cur = self.name(st.target.id, env) if isinstance(st.target, ast.Name) else self.ev(st.target, env)
                val = self.ev(st.value, env)
                # augmented assignment on Python's mutable containers works IN PLACE (aliases see the change)
                if isinstance(cur, dict) and isinstance(val, dict) and isinstance(st.op, ast.BitOr):
                    cur.update(val)
                    continue
                if isinstance(cur, set) and isinstance(val, (set, frozenset)) and isinstance(st.op, (ast.BitOr, ast.BitAnd, ast.Sub, ast.BitXor)):
                    if isinstance(st.op, ast.BitOr):
                        cur.update(val)
                    elif isinstance(st.op, ast.BitAnd):
                        cur.intersection_update(val)
                    elif isinstance(st.op, ast.Sub):
                        cur.difference_update(val)
                    else:
                        cur.symmetric_difference_update(val)
                    continue
                if isinstance(cur, list) and isinstance(val, (list, tuple)) and isinstance(st.op, ast.Add):
                    cur.extend(val)
                    continue
                self.assign(st.target, self.binop(st.op, cur, val), env)
                continue
            if isinstance(st, ast.Assert):
                if getattr(self, "check_asserts", False):
                    # opt-in: the assertion is part of the behaviour being decided (a wrong bound makes valid values crash)
                    if not self.truth(self.ev(st.test, env)):
                        return ("raise", "AssertionError")
                continue
            if isinstance(st, (ast.Pass, ast.Import, ast.ImportFrom, ast.Global, ast.Nonlocal)):
                continue
            if isinstance(st, ast.For) and not st.orelse:
                it = self.ev(st.iter, env)
                if isinstance(it, dict):
                    it = list(it)  # keys in insertion order, as in Python
                it = self.ordered(it)
                if not isinstance(it, (list, tuple)):
                    raise Unsupported(f"iteration over {it!r}")
                broke = False
                for item in it:
                    self.assign(st.target, item, env)
                    r = self.run(st.body, env)
                    if r[0] == "break":
                        broke = True
                        break
                    if r[0] == "continue" or r[0] == "fall":
                        continue
                    return r
                continue
            if isinstance(st, ast.While) and not st.orelse:
                fuel = self.loop_fuel
                while self.truth(self.ev(st.test, env)):
                    fuel -= 1
                    if fuel < 0:
                        raise FuelExhausted("while loop does not terminate within the fuel bound")
                    r = self.run(st.body, env)
                    if r[0] == "break":
                        break
                    if r[0] in ("continue", "fall"):
                        continue
                    return r
                continue
            if isinstance(st, ast.Break):
                return ("break", None)
            if isinstance(st, ast.Continue):
                return ("continue", None)
            raise Unsupported(f"statement {type(st).__name__}: {ast.unparse(st)[:60]}")
        return ("fall", None)

    def assign(self, target: ast.expr, value: Any, env: dict) -> None:
        if isinstance(target, ast.Name):
            env[target.id] = value
        elif isinstance(target, ast.Tuple) and isinstance(value, tuple) and len(value) == len(target.elts):
            for t, v in zip(target.elts, value):
                self.assign(t, v, env)
        elif isinstance(target, (ast.Attribute, ast.Subscript)):
            env[ast.unparse(target)] = value
        else:
            raise Unsupported(f"assignment target {ast.unparse(target)}")

    def ev(self, e: ast.expr, env: dict) -> Any:
        if isinstance(e, ast.Constant):
            return e.value
        if isinstance(e, ast.Name):
            return self.name(e.id, env)
        if isinstance(e, ast.Attribute):
            key = ast.unparse(e)
            if key in env:
                return env[key]
            return self.attr(self.ev(e.value, env), e.attr, e, env)
        if isinstance(e, ast.BoolOp):
            if isinstance(e.op, ast.And):
                r: Any = True
                for x in e.values:
                    r = self.ev(x, env)
                    if not self.truth(r):
                        return r
                return r
            r = False
            for x in e.values:
                r = self.ev(x, env)
                if self.truth(r):
                    return r
            return r
        if isinstance(e, ast.UnaryOp):
            if isinstance(e.op, ast.Not):
                return not self.truth(self.ev(e.operand, env))
            return self.unary(e.op, self.ev(e.operand, env))
        if isinstance(e, ast.BinOp):
            return self.binop(e.op, self.ev(e.left, env), self.ev(e.right, env))
        if isinstance(e, ast.IfExp):
            return self.ev(e.body if self.truth(self.ev(e.test, env)) else e.orelse, env)
        if isinstance(e, ast.Compare):
            left = self.ev(e.left, env)
            for op, rhs in zip(e.ops, e.comparators):
                right = self.ev(rhs, env)
                if not self.compare(op, left, right):
                    return False
                left = right
            return True
        if isinstance(e, ast.Call):
            return self.call(e, env)
        if isinstance(e, ast.Tuple):
            return tuple(self.ev(x, env) for x in e.elts)
        if isinstance(e, ast.NamedExpr) and isinstance(e.target, ast.Name):
            v = self.ev(e.value, env)
            env[e.target.id] = v
            return v
        raise Unsupported(f"expression {type(e).__name__}: {ast.unparse(e)[:60]}")
