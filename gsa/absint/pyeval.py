"""Interpreter for a pure fragment of Python over *concrete* ints/bools/strs/floats/tuples/
lists plus symbolic tokens, used to evaluate small decision functions of the repository
(range checks, coercion tables) on chosen inputs WITHOUT importing or running repo code:
only the parsed syntax tree is walked, by this module.

Calls to other repository functions are followed (depth-limited) when they resolve to a
module-level function; class constants (`NumericType.INT_WIDTH`) are read from the class
body.  Hooks (`env["name"] = callable(node, ev, env)`) model everything else.
Outside the fragment: Unsupported (-> UNDECIDED).
"""

from __future__ import annotations

import ast
import re
from typing import Any

from ..index import FuncInfo, SourceIndex, dotted
from .minieval import MiniEval, Opaque, Unsupported


class Raised(Exception):
    def __init__(self, text: str, cls: str = ""):
        super().__init__(text)
        self.cls = cls


class Tok:
    """Symbolic token (a type such as nat/int/float, a node, ...) with identity equality."""

    def __init__(self, _tokname: str, /, **attrs: Any):
        self.name = _tokname
        self.attrs = attrs

    def __repr__(self) -> str:
        return f"<{self.name}>"

    def __eq__(self, other: object) -> bool:
        if not isinstance(other, Tok) or other.name != self.name:
            return False
        if "__ident__" in self.attrs or "__ident__" in other.attrs:
            return True  # identified by name alone (variables: their attrs may refer back to themselves)
        return other.attrs == self.attrs

    def classes(self) -> set[str]:
        return {self.attrs.get("__class__", "")} | set(self.attrs.get("__bases__", ()))

    def __hash__(self) -> int:
        return hash(self.name)


def with_kwargs(fn):
    """Marks a `__methods__` handler as taking (receiver, positional values, keyword values)."""
    fn.__gsa_kwargs__ = True
    return fn


class Deque(list):
    """collections.deque: a list with `popleft` / `appendleft` (hooks of `collections.deque` return it)."""

    def popleft(self):
        return self.pop(0)

    def appendleft(self, x):
        self.insert(0, x)


class KeysView(tuple):
    """dict.keys(): iterates in insertion order like the dict, compares and combines like a set."""

    def __eq__(self, other):
        if isinstance(other, (set, frozenset, KeysView)):
            return set(self) == set(other)
        return NotImplemented

    def __ne__(self, other):
        r = self.__eq__(other)
        return r if r is NotImplemented else not r

    __hash__ = tuple.__hash__


class CmpKey:
    """The value of `functools.cmp_to_key(f)`: remembers the comparison function's expression and where it was written."""

    def __init__(self, fn_node: ast.expr, env: dict):
        self.fn_node, self.env = fn_node, env


class PyIter:
    """An iterator object created by iter(<list>) inside interpreted code."""

    def __init__(self, items: list):
        self.items = items


def _walk_own(fn: ast.AST):
    """Nodes of a function, not descending into nested functions / lambdas / classes."""
    stack = list(ast.iter_child_nodes(fn))
    while stack:
        n = stack.pop()
        yield n
        if not isinstance(n, (ast.FunctionDef, ast.AsyncFunctionDef, ast.Lambda, ast.ClassDef)):
            stack.extend(ast.iter_child_nodes(n))


def _mark_breaks(body: list[ast.stmt], marker: str) -> list[ast.stmt]:
    """Copy of a loop body in which every `break` that belongs to THIS loop first sets env[marker] = True."""
    import copy

    class T(ast.NodeTransformer):
        def visit_For(self, n):  # inner loops own their breaks
            return n

        visit_While = visit_AsyncFor = visit_FunctionDef = visit_Lambda = visit_For

        def visit_Break(self, n):
            set_ = ast.Assign(targets=[ast.Name(id=marker, ctx=ast.Store())], value=ast.Constant(value=True))
            return [ast.copy_location(set_, n), n]

    out = []
    for st in copy.deepcopy(body):
        r = T().visit(st)
        out.extend(r if isinstance(r, list) else [r])
    for st in out:
        ast.fix_missing_locations(st)
    return out


BUILTIN_TYPES = {"bool": bool, "int": int, "float": float, "str": str, "tuple": tuple, "list": list}


class PyEval(MiniEval):
    def __init__(self, idx: SourceIndex, module: str, max_depth: int = 6):
        self.idx = idx
        self.module = idx.module(module)
        self.max_depth = max_depth
        self.depth = 0
        self.trace: list[str] = []

    BUILTIN_EXCEPTIONS = frozenset({
        "BaseException", "Exception", "ValueError", "TypeError", "KeyError", "IndexError", "AttributeError", "AssertionError", "RuntimeError",
        "NotImplementedError", "StopIteration", "LookupError", "ArithmeticError", "ZeroDivisionError", "OverflowError", "NameError", "OSError",
        "ImportError", "RecursionError", "UnicodeDecodeError", "SyntaxError"})

    def exception_class(self, func: ast.expr) -> str | None:
        """The class name if `func` names an exception class (a builtin one, or a repository class derived from one)."""
        d = dotted(func)
        if not d:
            return None
        last = d.split(".")[-1]
        if d in self.BUILTIN_EXCEPTIONS:
            return d
        c = self.idx.resolve_class_name(self.module, d)
        seen = 0
        while c is not None and seen < 12:
            seen += 1
            if any(b.split(".")[-1] in self.BUILTIN_EXCEPTIONS for b in c.base_names):
                return last
            c = c.bases[0] if c.bases else None
        return None

    # ---- names / attributes
    def name(self, ident: str, env: dict) -> Any:
        if ident in env:
            return env[ident]
        # model of the module's global names given by the rule (tables, singletons): seen from every followed function too
        g_ = env.get("__globals__")
        if isinstance(g_, dict) and ident in g_:
            return g_[ident]
        if ident in BUILTIN_TYPES:
            return BUILTIN_TYPES[ident]
        if ident in ("True", "False", "None"):
            return {"True": True, "False": False, "None": None}[ident]
        # module-level literal of the interpreted function's module (`_TABLE = {...}`): one shared object per evaluator
        mc = self.__dict__.setdefault("_modconst", {})
        if ident in mc:
            return mc[ident]
        for st in getattr(self.module, "tree", ast.Module(body=[], type_ignores=[])).body:
            tgt = st.targets[0] if isinstance(st, ast.Assign) and len(st.targets) == 1 else (st.target if isinstance(st, ast.AnnAssign) else None)
            val = getattr(st, "value", None)
            if isinstance(tgt, ast.Name) and tgt.id == ident and val is not None and (
                    isinstance(val, (ast.Dict, ast.List, ast.Set, ast.Tuple, ast.Constant))
                    or (isinstance(val, ast.Call) and ast.unparse(val.func) in ("functools.cmp_to_key", "cmp_to_key") and len(val.args) == 1 and not val.keywords)
                    or (isinstance(val, ast.Call) and ast.unparse(val.func) == "re.compile" and len(val.args) == 1 and isinstance(val.args[0], ast.Constant) and not val.keywords)
                    or not any(isinstance(x, (ast.Call, ast.Lambda, ast.Await, ast.Yield, ast.YieldFrom)) for x in ast.walk(val))):
                # a literal display, or a call-free expression over constants (`_BITS = 1 << NumericType.INT_WIDTH`)
                try:
                    got = self.ev(val, {})
                except Unsupported:
                    break
                def _class_refs(v_: ast.AST) -> bool:
                    # `ast.Assign | ast.AnnAssign`, `(A, B)`: a union / tuple of class references, as used in isinstance tests
                    if isinstance(v_, ast.BinOp) and isinstance(v_.op, ast.BitOr):
                        return _class_refs(v_.left) and _class_refs(v_.right)
                    if isinstance(v_, ast.Tuple):
                        return bool(v_.elts) and all(_class_refs(x) for x in v_.elts)
                    return isinstance(v_, (ast.Name, ast.Attribute)) and bool(dotted(v_))
                if isinstance(got, Opaque) or (isinstance(got, (list, tuple, set, dict)) and any(isinstance(x, Opaque) for x in got) and not _class_refs(val)):
                    break
                mc[ident] = got
                return mc[ident]
        return Opaque(ident)

    def attr(self, value: Any, name: str, node: ast.Attribute, env: dict) -> Any:
        if isinstance(value, Tok) and name in value.attrs:
            return value.attrs[name]
        if name in BUILTIN_TYPES and isinstance(node.value, ast.Name) and node.value.id == "builtins" and "builtins" not in env:
            return BUILTIN_TYPES[name]  # `builtins.int` as a class (isinstance tests); calls of it are hooked by their dotted name
        if isinstance(value, Tok) and "__classes__" in value.attrs:
            # property / cached_property defined in one of the token's classes (MRO order)
            for c in value.attrs["__classes__"]:
                m = c.methods.get(name)
                if m is not None and any(d in ("property", "cached_property", "functools.cached_property") for d in m.decorator_names()):
                    if self.depth >= self.max_depth:
                        raise Unsupported("property depth")
                    self.depth += 1
                    try:
                        pname = m.node.args.args[0].arg
                        hooks = {k: v for k, v in env.items() if callable(v) or k == "__globals__"}
                        out = self.run(m.node.body, {**hooks, pname: value})
                    finally:
                        self.depth -= 1
                    if out[0] == "raise":
                        raise Raised(f"{name}: {out[1]}", str(out[1]))
                    res_ = out[1] if out[0] == "return" else None
                    if any(d in ("cached_property", "functools.cached_property") for d in m.decorator_names()):
                        value.attrs[name] = res_  # computed once per object, then an ordinary attribute (what cached_property does)
                    return res_
            # class-level constant of one of the token's classes (`_setting = True` in a subclass), MRO order; only
            # literal values: anything else (field(...), descriptors) stays opaque
            for c in value.attrs["__classes__"]:
                for st in c.node.body:
                    tgt = st.target if isinstance(st, ast.AnnAssign) else (st.targets[0] if isinstance(st, ast.Assign) and len(st.targets) == 1 else None)
                    if isinstance(tgt, ast.Name) and tgt.id == name and isinstance(getattr(st, "value", None), ast.Constant):
                        return st.value.value
        if isinstance(value, str) and name in ("lower", "upper"):
            return ("bound", getattr(value, name))
        # class constant:  NumericType.INT_WIDTH
        base = dotted(node.value)
        if base:
            c = self.idx.resolve_class_name(self.module, base)
            if c is not None:
                for st in c.node.body:
                    tgt = st.target if isinstance(st, ast.AnnAssign) else (st.targets[0] if isinstance(st, ast.Assign) and len(st.targets) == 1 else None)
                    if isinstance(tgt, ast.Name) and tgt.id == name and getattr(st, "value", None) is not None:
                        return self.ev(st.value, {})
        return Opaque(ast.unparse(node))

    # ---- operators
    def truth(self, v: Any) -> bool:
        if isinstance(v, (bool, int, float, str, tuple, list, dict, set, frozenset)) or v is None:
            return bool(v)
        if isinstance(v, re.Match):
            return True
        if isinstance(v, Tok):
            # `__truth__`: the outcome of bool(v) for objects whose class defines __bool__/__len__ (False, or "raise:<Class>")
            t = v.attrs.get("__truth__", True)
            if isinstance(t, str) and t.startswith("raise:"):
                raise Raised(f"bool({v.name})", t[6:])
            return bool(t)
        raise Unsupported(f"truthiness of {v!r}")

    def compare(self, op: ast.cmpop, a: Any, b: Any) -> bool:
        if (isinstance(a, KeysView) or isinstance(b, KeysView)) and isinstance(op, (ast.Eq, ast.NotEq, ast.Lt, ast.LtE, ast.Gt, ast.GtE)) \
                and isinstance(a, (KeysView, set, frozenset)) and isinstance(b, (KeysView, set, frozenset)):
            a, b = set(a), set(b)
            if isinstance(op, (ast.Lt, ast.LtE, ast.Gt, ast.GtE)):
                return {ast.Lt: a < b, ast.LtE: a <= b, ast.Gt: a > b, ast.GtE: a >= b}[type(op)]
        if isinstance(a, Opaque) or isinstance(b, Opaque):
            raise Unsupported(f"comparison with {a!r} / {b!r}")
        if isinstance(op, ast.Is):
            # (strings stand for enum members -- `UseKind.BORROW` -- whose identity is their name)
            return a is b or (isinstance(a, Tok) and a == b) or (isinstance(a, type) and a == b) or (isinstance(a, str) and isinstance(b, str) and a == b)
        if isinstance(op, ast.IsNot):
            return not self.compare(ast.Is(), a, b)
        if isinstance(op, ast.Eq):
            return a == b
        if isinstance(op, ast.NotEq):
            return a != b
        if isinstance(op, (ast.In, ast.NotIn)) and isinstance(b, Tok):
            # membership in a token: its `__contains__` handler, or the `__contains__` method of its repository class
            if callable(b.attrs.get("__contains__")):
                r = b.attrs["__contains__"](a)
            else:
                fm = next((m for m in (c.find_method("__contains__") for c in b.attrs.get("__classes__", ())) if m is not None), None)
                if fm is None:
                    raise Unsupported(f"membership in token {b!r}")
                r = self.call_dunder(fm, b, [a], {})
            if not isinstance(r, bool):
                raise Unsupported(f"__contains__ of {b!r} gives {r!r}")
            return r if isinstance(op, ast.In) else not r
        if isinstance(op, ast.In):
            return a in b
        if isinstance(op, ast.NotIn):
            return a not in b
        if isinstance(a, Tok) or isinstance(b, Tok):
            return self.tok_compare(op, a, b)
        def orderable(x: Any, y: Any) -> bool:
            # numbers (bools included, as in Python), strings, and tuples / lists of those compared lexicographically
            if isinstance(x, (int, float)) and isinstance(y, (int, float)):
                return True
            if isinstance(x, str) and isinstance(y, str):
                return True
            if (isinstance(x, tuple) and isinstance(y, tuple)) or (isinstance(x, list) and isinstance(y, list)):
                return all(orderable(p, q) for p, q in zip(x, y))
            return False
        def concrete(x: Any) -> bool:
            return x is None or isinstance(x, (int, float, str)) or (isinstance(x, (tuple, list)) and all(concrete(y) for y in x))
        if not orderable(a, b):
            if concrete(a) and concrete(b):
                # concrete Python values: Python's own comparison, its TypeError included (`None < 1`, `"a" < 1`)
                try:
                    return {ast.Lt: a < b, ast.LtE: a <= b, ast.Gt: a > b, ast.GtE: a >= b}[type(op)]
                except TypeError as ex:
                    raise Raised(str(ex), "TypeError") from None
            raise Unsupported(f"ordering of {a!r}, {b!r}")
        return {ast.Lt: a < b, ast.LtE: a <= b, ast.Gt: a > b, ast.GtE: a >= b}[type(op)]

    def tok_compare(self, op: ast.cmpop, a: Any, b: Any) -> bool:
        raise Unsupported(f"ordering of tokens {a!r}, {b!r}")

    def binop(self, op: ast.operator, a: Any, b: Any) -> Any:
        if (isinstance(a, KeysView) or isinstance(b, KeysView)) and isinstance(op, (ast.BitOr, ast.BitAnd, ast.Sub, ast.BitXor)) \
                and isinstance(a, (KeysView, set, frozenset)) and isinstance(b, (KeysView, set, frozenset)):
            a, b = set(a), set(b)  # set algebra on key views gives sets
        if isinstance(op, ast.BitOr) and isinstance(b, Opaque) and (isinstance(a, Opaque) or (isinstance(a, tuple) and a and all(isinstance(x, Opaque) for x in a))):
            # `ClassA | ClassB` of repository classes (a union used in isinstance): a tuple of the class names
            return (a, b) if isinstance(a, Opaque) else (*a, b)
        if isinstance(a, type) and isinstance(b, type) and isinstance(op, ast.BitOr):
            return (a, b) if not isinstance(a, tuple) else (*a, b)
        if isinstance(a, tuple) and a and isinstance(a[0], type) and isinstance(b, type) and isinstance(op, ast.BitOr):
            return (*a, b)
        if isinstance(a, bool) and isinstance(b, bool) and isinstance(op, (ast.BitAnd, ast.BitOr, ast.BitXor)):
            # `flag &= test` / `a | b` on truth values (both operands are always evaluated)
            return (a and b) if isinstance(op, ast.BitAnd) else ((a or b) if isinstance(op, ast.BitOr) else (a != b))
        if isinstance(a, (int, float)) and isinstance(b, (int, float)) and not isinstance(a, bool):
            try:
                if isinstance(op, ast.Add):
                    return a + b
                if isinstance(op, ast.Sub):
                    return a - b
                if isinstance(op, ast.Mult):
                    return a * b
                if isinstance(op, ast.FloorDiv):
                    return a // b
                if isinstance(op, ast.Mod):
                    return a % b
                if isinstance(op, ast.Pow) and abs(b) < 4096:
                    return a ** b
                if isinstance(op, ast.LShift) and isinstance(a, int) and isinstance(b, int) and 0 <= b < 4096:
                    return a << b
                if isinstance(op, ast.RShift) and isinstance(a, int) and isinstance(b, int) and b >= 0:
                    return a >> b
                if isinstance(op, ast.BitAnd) and isinstance(a, int) and isinstance(b, int):
                    return a & b
                if isinstance(op, ast.BitOr) and isinstance(a, int) and isinstance(b, int):
                    return a | b
            except (ZeroDivisionError, OverflowError) as e:
                raise Raised(str(e), type(e).__name__) from None
        if isinstance(a, str) and isinstance(b, str) and isinstance(op, ast.Add):
            return a + b
        if isinstance(op, ast.Mult) and ((isinstance(a, str) and isinstance(b, int) and not isinstance(b, bool) and b < 10000)
                                         or (isinstance(b, str) and isinstance(a, int) and not isinstance(a, bool) and a < 10000)):
            return a * b
        if isinstance(a, tuple) and isinstance(b, tuple) and isinstance(op, ast.Add):
            return a + b
        if isinstance(a, list) and isinstance(b, (list, int)) and isinstance(op, (ast.Add, ast.Mult)):
            return a + b if isinstance(op, ast.Add) else a * b
        if isinstance(a, int) and not isinstance(a, bool) and isinstance(b, list) and isinstance(op, ast.Mult) and a < 10000:
            return a * b
        if isinstance(a, dict) and isinstance(b, dict) and isinstance(op, ast.BitOr):
            return {**a, **b}
        if isinstance(a, (set, frozenset)) and isinstance(b, (set, frozenset)):
            if isinstance(op, ast.BitOr):
                return set(a) | set(b)
            if isinstance(op, ast.BitAnd):
                return set(a) & set(b)
            if isinstance(op, ast.Sub):
                return set(a) - set(b)
            if isinstance(op, ast.BitXor):
                return set(a) ^ set(b)
        raise Unsupported(f"binop {type(op).__name__} of {a!r}, {b!r}")

    def unary(self, op: ast.unaryop, a: Any) -> Any:
        if isinstance(a, (int, float)) and not isinstance(a, bool):
            if isinstance(op, ast.USub):
                return -a
            if isinstance(op, ast.UAdd):
                return +a
            if isinstance(op, ast.Invert) and isinstance(a, int):
                return ~a
        raise Unsupported(f"unary {type(op).__name__} of {a!r}")

    # ---- expressions beyond MiniEval
    def ev(self, e: ast.expr, env: dict) -> Any:
        if isinstance(e, ast.JoinedStr):
            out = ""
            for v in e.values:
                if isinstance(v, ast.Constant):
                    out += str(v.value)
                elif isinstance(v, ast.FormattedValue):
                    x = self.ev(v.value, env)
                    if isinstance(x, Tok):
                        # the printed form of a modelled object: `__str__` if the model gives one, else its name (as str() does)
                        x = x.attrs["__str__"] if isinstance(x.attrs.get("__str__"), str) else x.name
                    if not isinstance(x, (str, int)):
                        raise Unsupported(f"f-string part {x!r}")
                    out += str(x)
            return out
        if isinstance(e, ast.List) or (isinstance(e, ast.Tuple) and any(isinstance(x, ast.Starred) for x in e.elts)):
            out_l: list = []
            for x in e.elts:
                if isinstance(x, ast.Starred):
                    v = self.ev(x.value, env)
                    if not isinstance(v, (list, tuple)):
                        raise Unsupported(f"splat of {v!r}")
                    out_l.extend(v)
                else:
                    out_l.append(self.ev(x, env))
            return out_l if isinstance(e, ast.List) else tuple(out_l)
        if isinstance(e, ast.Dict):
            out_d: dict = {}
            for k, v in zip(e.keys, e.values):
                if k is None:
                    sub = self.ev(v, env)
                    if not isinstance(sub, dict):
                        raise Unsupported("** of a non-dict")
                    out_d.update(sub)
                else:
                    out_d[self.ev(k, env)] = self.ev(v, env)
            return out_d
        if isinstance(e, ast.Subscript):
            if ast.unparse(e) in env:
                return env[ast.unparse(e)]
            v = self.ev(e.value, env)
            if isinstance(v, Tok) and "__getitem__" in v.attrs:
                return v.attrs["__getitem__"](self.ev(e.slice, env))
            if isinstance(v, Tok):
                for c in v.attrs.get("__classes__", ()):
                    fm = c.find_method("__getitem__")
                    if fm is not None:
                        return self.call_dunder(fm, v, [self.ev(e.slice, env)], env)
            if isinstance(v, re.Match):
                try:
                    return v[self.ev(e.slice, env)]
                except (IndexError, TypeError) as ex:
                    raise Raised(str(ex), type(ex).__name__) from None
            if isinstance(v, dict):
                k = self.ev(e.slice, env)
                if k not in v:
                    raise Raised(f"KeyError {k!r}", "KeyError")
                return v[k]
            if isinstance(v, (list, tuple, str)):
                if isinstance(e.slice, ast.Slice):
                    lo = self.ev(e.slice.lower, env) if e.slice.lower else None
                    hi = self.ev(e.slice.upper, env) if e.slice.upper else None
                    st = self.ev(e.slice.step, env) if e.slice.step else None
                    if not all(x is None or (isinstance(x, int) and not isinstance(x, bool)) for x in (lo, hi, st)) or st == 0:
                        raise Unsupported(f"slice bounds {lo!r}:{hi!r}:{st!r}")
                    return v[lo:hi:st]
                i = self.ev(e.slice, env)
                if isinstance(i, int):
                    try:
                        return v[i]
                    except IndexError:
                        raise Raised("index out of range", "IndexError") from None
            raise Unsupported(f"subscript of {v!r}")
        if isinstance(e, ast.Set):
            out_s = set()
            for x in e.elts:
                if isinstance(x, ast.Starred):
                    raise Unsupported("splat in set display")
                out_s.add(self.ev(x, env))
            return out_s
        if isinstance(e, ast.Lambda):
            a = e.args
            if a.vararg or a.kwarg or a.kwonlyargs or a.defaults:
                raise Unsupported("lambda with defaults / varargs")
            params = [p.arg for p in a.posonlyargs + a.args]
            closure = dict(env)

            def _lam(*vals, _params=params, _body=e.body, _closure=closure):
                if len(vals) != len(_params):
                    raise Raised("lambda arity", "TypeError")
                return self.ev(_body, {**_closure, **dict(zip(_params, vals))})
            _lam.__gsa_lambda__ = True  # type: ignore[attr-defined]
            return _lam
        if isinstance(e, (ast.ListComp, ast.GeneratorExp, ast.DictComp, ast.SetComp)) and len(e.generators) > 1 and not any(g.is_async for g in e.generators):
            rows: list[dict] = [dict(env)]
            for g in e.generators:
                nxt = []
                for env1 in rows:
                    it = self.ev(g.iter, env1)
                    if isinstance(it, dict):
                        it = list(it)
                    it = self.ordered(it)
                    if not isinstance(it, (list, tuple)):
                        raise Unsupported(f"comprehension over {it!r}")
                    for item in it:
                        env2 = dict(env1)
                        self.assign(g.target, item, env2)
                        if all(self.truth(self.ev(c, env2)) for c in g.ifs):
                            nxt.append(env2)
                rows = nxt
            if isinstance(e, ast.DictComp):
                return {self.ev(e.key, r): self.ev(e.value, r) for r in rows}
            vals = [self.ev(e.elt, r) for r in rows]
            return set(vals) if isinstance(e, ast.SetComp) else vals
        if isinstance(e, (ast.ListComp, ast.GeneratorExp, ast.DictComp, ast.SetComp)) and len(e.generators) == 1:
            g = e.generators[0]
            it = self.ev(g.iter, env)
            if isinstance(it, dict):
                it = list(it)  # insertion order, as in Python
            it = self.ordered(it)
            if not isinstance(it, (list, tuple)):
                raise Unsupported(f"comprehension over {it!r}")
            out = []
            for item in it:
                env2 = dict(env)
                self.assign(g.target, item, env2)
                if all(self.truth(self.ev(c, env2)) for c in g.ifs):
                    out.append((self.ev(e.key, env2), self.ev(e.value, env2)) if isinstance(e, ast.DictComp) else self.ev(e.elt, env2))
            if isinstance(e, ast.DictComp):
                return dict(out)
            return set(out) if isinstance(e, ast.SetComp) else out
        return super().ev(e, env)

    def assign(self, target: ast.expr, value: Any, env: dict) -> None:
        if isinstance(target, ast.Name) and target.id in env.get("__global_names__", ()):
            # `global X` was declared in this function: the write goes to the module namespace, where every other
            # interpreted function of the module (and later calls) read it
            self.__dict__.setdefault("_modconst", {})[target.id] = value
            return
        if isinstance(target, ast.Attribute):
            try:
                base = self.ev(target.value, env)
            except Unsupported:
                base = None
            if isinstance(base, Tok):
                base.attrs[target.attr] = value
                return
        if isinstance(target, ast.Subscript):
            try:
                base = self.ev(target.value, env)
            except Unsupported:
                base = None
            if isinstance(base, dict):
                base[self.ev(target.slice, env)] = value
                return
            if isinstance(base, Tok):
                h = base.attrs.get("__methods__", {}).get("__setitem__")
                if h is not None:
                    h(base, [self.ev(target.slice, env), value])
                    return
                for c in base.attrs.get("__classes__", ()):
                    fm = c.find_method("__setitem__")
                    if fm is not None:
                        self.call_dunder(fm, base, [self.ev(target.slice, env), value], env)
                        return
                if "__getitem__" in base.attrs:
                    # a modelled mapping that answers reads itself: remembering the store under the TEXT of the target
                    # (`dfg[var]`) would shadow later reads made with another binding of `var`
                    raise Unsupported(f"store into {base!r}[…] (the token models reads only)")
            if isinstance(base, list) and not isinstance(target.slice, ast.Slice):
                i = self.ev(target.slice, env)
                if isinstance(i, int) and -len(base) <= i < len(base):
                    base[i] = value
                    return
        if isinstance(target, (ast.Tuple, ast.List)) and any(isinstance(t, ast.Starred) for t in target.elts):
            if not isinstance(value, (list, tuple)):
                raise Unsupported("starred unpacking of non-sequence")
            i = next(i for i, t in enumerate(target.elts) if isinstance(t, ast.Starred))
            after = len(target.elts) - i - 1
            if len(value) < len(target.elts) - 1:
                raise Raised("not enough values to unpack", "ValueError")
            for t, v in zip(target.elts[:i], value[:i]):
                self.assign(t, v, env)
            self.assign(target.elts[i].value, list(value[i:len(value) - after]), env)
            for t, v in zip(target.elts[i + 1:], value[len(value) - after:]):
                self.assign(t, v, env)
            return
        if isinstance(target, (ast.Tuple, ast.List)) and isinstance(value, (tuple, list)):
            if len(value) != len(target.elts):
                raise Raised("unpack length mismatch", "ValueError")
            for t, v in zip(target.elts, value):
                self.assign(t, v, env)
            return
        if isinstance(target, (ast.Tuple, ast.List)) and isinstance(value, Opaque):
            for t in target.elts:
                self.assign(t, Opaque(value.what), env)
            return
        super().assign(target, value, env)

    # ---- statements beyond MiniEval: match, raise with class, try
    def run(self, body: list[ast.stmt], env: dict) -> tuple[str, Any]:
        for i, st in enumerate(body):
            if isinstance(st, ast.Global):
                env["__global_names__"] = set(env.get("__global_names__", ())) | set(st.names)
                for gname in st.names:
                    env.pop(gname, None)  # reads go to the module namespace from here on
                continue
            if isinstance(st, ast.Match):
                subj = self.ev(st.subject, env)
                for case in st.cases:
                    env2 = env
                    if self.match(case.pattern, subj, env2):
                        if case.guard is not None and not self.truth(self.ev(case.guard, env2)):
                            continue
                        r = self.run(case.body, env2)
                        if r[0] != "fall":
                            return r
                        break
                continue
            if isinstance(st, ast.FunctionDef) and all(
                    (isinstance(d_, ast.Call) and ast.unparse(d_.func) in ("functools.wraps", "wraps"))
                    or getattr(env.get(ast.unparse(d_)), "__gsa_decorator__", False) for d_ in st.decorator_list):
                # decorators: `functools.wraps(f)` (metadata only) and decorators the rule models (marked __gsa_decorator__)
                a = st.args
                if a.vararg or a.kwarg or a.kwonlyargs:
                    raise Unsupported("nested function with varargs / keyword-only parameters")
                params = [p.arg for p in a.posonlyargs + a.args]
                dvals = [self.ev(d, env) for d in a.defaults]  # defaults are evaluated once, when the function is defined

                def _fn(*vals, _params=params, _body=st.body, _env=env, _dvals=dvals):
                    if len(vals) < len(_params):
                        missing = len(_params) - len(vals)
                        if missing > len(_dvals):
                            raise Raised("arity", "TypeError")
                        vals = (*vals, *_dvals[len(_dvals) - missing:])
                    if len(vals) != len(_params):
                        raise Raised("arity", "TypeError")
                    r = self.run(_body, {**_env, **dict(zip(_params, vals))})
                    if r[0] == "raise":
                        raise Raised(str(r[1]), str(r[1]))
                    return r[1] if r[0] == "return" else None
                _fn.__gsa_lambda__ = True  # type: ignore[attr-defined]
                for d_ in reversed(st.decorator_list):
                    if not isinstance(d_, ast.Call):
                        _fn = env[ast.unparse(d_)](_fn)
                        _fn.__gsa_lambda__ = True  # type: ignore[attr-defined]
                env[st.name] = _fn
                continue
            if isinstance(st, ast.Try):
                raised: str | None = None
                try:
                    r = self.run(st.body, env)
                    if r[0] == "raise":
                        raised = str(r[1])
                        r = ("fall", None)
                except Raised as ex:
                    raised = ex.cls or "Exception"
                    r = ("fall", None)
                handled = False
                if raised is not None:
                    for h in st.handlers:
                        names = [] if h.type is None else [dotted(x).split(".")[-1] for x in (h.type.elts if isinstance(h.type, ast.Tuple) else [h.type])]
                        if h.type is None or raised in names or "Exception" in names or "BaseException" in names:
                            if h.name:
                                env[h.name] = Tok(f"exc:{raised}", __class__=raised)
                            r = self.run(h.body, env)
                            handled = True
                            break
                    if not handled:
                        r = ("raise", raised)
                elif st.orelse:
                    r = self.run(st.orelse, env)
                if st.finalbody:
                    rf = self.run(st.finalbody, env)
                    if rf[0] != "fall":
                        r = rf
                if r[0] != "fall":
                    return r
                continue
            if isinstance(st, ast.With):
                suppressed: list[str] = []
                for it in st.items:
                    ce = it.context_expr
                    if isinstance(ce, ast.Call) and dotted(ce.func).split(".")[-1] == "suppress":
                        suppressed += [dotted(x).split(".")[-1] for x in ce.args]
                    else:
                        v = self.ev(ce, env)
                        if it.optional_vars is not None:
                            self.assign(it.optional_vars, v, env)
                try:
                    r = self.run(st.body, env)
                except Raised as ex:
                    if (ex.cls or "Exception") in suppressed or "Exception" in suppressed or "BaseException" in suppressed:
                        r = ("fall", None)
                    else:
                        raise
                if r[0] == "raise" and (str(r[1]) in suppressed or "Exception" in suppressed or "BaseException" in suppressed):
                    r = ("fall", None)
                if r[0] != "fall":
                    return r
                continue
            if isinstance(st, (ast.For, ast.While)) and st.orelse:
                # loop with else: run the loop without its else clause, remember whether it was left by `break`
                marker = f"__broke_{id(st)}"
                env[marker] = False
                body2 = _mark_breaks(st.body, marker)
                loop2 = ast.For(target=st.target, iter=st.iter, body=body2, orelse=[]) if isinstance(st, ast.For) else ast.While(test=st.test, body=body2, orelse=[])
                ast.copy_location(loop2, st)
                ast.fix_missing_locations(loop2)
                r = super().run([loop2], env)
                if r[0] != "fall":
                    return r
                if not env.pop(marker):
                    r = self.run(st.orelse, env)
                    if r[0] != "fall":
                        return r
                continue
            if isinstance(st, ast.Expr) and isinstance(st.value, ast.Yield):
                # generator functions: the yielded values are collected in env["__yields__"], in order
                env.setdefault("__yields__", []).append(self.ev(st.value.value, env) if st.value.value is not None else None)
                if callable(env.get("__on_yield__")):
                    # a context manager written as a generator: the caller's model of the `with` body runs at the yield
                    # (it may raise Raised: the exception is thrown into the generator at this point)
                    env["__on_yield__"](self, env)
                continue
            if isinstance(st, ast.Delete) and all(isinstance(t, ast.Subscript) for t in st.targets):
                for t in st.targets:
                    base = self.ev(t.value, env)
                    k = self.ev(t.slice, env)
                    if not isinstance(base, dict):
                        raise Unsupported(f"del on {base!r}")
                    if k not in base:
                        raise Raised(f"KeyError {k!r}", "KeyError")
                    del base[k]
                continue
            if isinstance(st, ast.Raise):
                cls = ""
                if isinstance(st.exc, ast.Call):
                    cls = dotted(st.exc.func).split(".")[-1]
                    # the arguments of the exception are evaluated too (`raise GuppyError(UnsupportedError(param, ...))`: the
                    # rule's recorder for the diagnostic sees which node is blamed); what cannot be evaluated is skipped
                    for a_ in list(st.exc.args) + [k_.value for k_ in st.exc.keywords]:
                        try:
                            self.ev(a_, env)
                        except Unsupported:
                            pass
                    # `raise self._build_error(...)`: a repository helper that builds the exception -- its return annotation
                    # names the class that is raised
                    helper = None
                    try:
                        if isinstance(st.exc.func, ast.Attribute):
                            recv = self.ev(st.exc.func.value, env)
                            if isinstance(recv, Tok):
                                for c_ in recv.attrs.get("__classes__", ()):
                                    helper = helper or c_.find_method(st.exc.func.attr)
                        elif isinstance(st.exc.func, ast.Name):
                            fq = self.idx.funcs.get(self.idx.resolve_name(self.module, st.exc.func.id))
                            helper = fq if fq is not None and fq.cls is None else None
                    except Unsupported:
                        helper = None
                    if helper is not None and helper.node.returns is not None:
                        cls = ast.unparse(helper.node.returns).strip("'\"").split(".")[-1].split("[")[0]
                elif isinstance(st.exc, ast.Name) and isinstance(env.get(st.exc.id), Tok) and env[st.exc.id].attrs.get("__class__"):
                    cls = env[st.exc.id].attrs["__class__"]
                elif isinstance(st.exc, ast.Name) and isinstance(env.get(st.exc.id), Opaque) and re.match(r"^<?[A-Za-z_][\w.]*\(", env[st.exc.id].what or ""):
                    # bound to a call that could not be evaluated (`err = self._error(...)` in lenient mode): the callee's name
                    cls = re.match(r"^<?([A-Za-z_][\w.]*)\(", env[st.exc.id].what).group(1).split(".")[-1]
                return ("raise", cls or ast.unparse(st)[:80])
            if getattr(self, "lenient", False) and isinstance(st, (ast.Assign, ast.AnnAssign, ast.AugAssign, ast.Expr)) \
                    and not (isinstance(st, ast.Expr) and isinstance(st.value, ast.Call) and self.is_followed_call(st.value, env)):
                # lenient mode (opt-in): a straight-line statement that cannot be evaluated (it builds a diagnostic, say)
                # binds its targets to opaque values instead of abandoning the whole run; tests on such values still abort
                try:
                    r = super().run([st], env)
                except Unsupported:
                    tg = st.targets if isinstance(st, ast.Assign) else ([st.target] if isinstance(st, (ast.AnnAssign, ast.AugAssign)) else [])
                    for t in tg:
                        for nm in ast.walk(t):
                            if isinstance(nm, ast.Name):
                                env[nm.id] = Opaque(f"<{nm.id}>")
                    r = ("fall", None)
            else:
                r = super().run([st], env)
            if r[0] != "fall":
                return r
        return ("fall", None)

    def match(self, p: ast.pattern, v: Any, env: dict) -> bool:
        if isinstance(v, Opaque):
            raise Unsupported(f"match on {v!r}")
        if isinstance(p, ast.MatchAs):
            if p.pattern is not None and not self.match(p.pattern, v, env):
                return False
            if p.name:
                env[p.name] = v
            return True
        if isinstance(p, ast.MatchValue):
            return self.ev(p.value, env) == v
        if isinstance(p, ast.MatchSingleton):
            return v is p.value
        if isinstance(p, ast.MatchOr):
            return any(self.match(q, v, env) for q in p.patterns)
        if isinstance(p, ast.MatchClass):
            cn = dotted(p.cls)
            if cn in BUILTIN_TYPES and not p.kwd_attrs:
                if isinstance(v, Tok) or not isinstance(v, BUILTIN_TYPES[cn]):
                    return False
                if len(p.patterns) == 1:
                    return self.match(p.patterns[0], v, env)
                return not p.patterns
            if cn:
                # repository class: tokens carry their class and base-class names
                if not isinstance(v, Tok):
                    return False
                if cn.split(".")[-1] not in v.classes():
                    return False
                if p.patterns:
                    # positional sub-patterns follow __match_args__: given by the token, else the dataclass fields of the
                    # repository class (base classes first), as @dataclass generates them
                    names = v.attrs.get("__match_args__")
                    if names is None:
                        c = self.idx.resolve_class_name(self.module, cn)
                        if c is None or not c.is_dataclass():
                            raise Unsupported(f"positional class pattern {ast.unparse(p.cls)} (no __match_args__ known)")
                        names = [n for k in reversed(c.mro()) for n, _ in k.own_fields()]
                    if len(p.patterns) > len(names):
                        raise Raised(f"{cn}() accepts {len(names)} positional sub-patterns", "TypeError")
                    for k, sub in zip(names, p.patterns):
                        if k not in v.attrs:
                            raise Unsupported(f"token {v!r} has no attribute {k}")
                        if not self.match(sub, v.attrs[k], env):
                            return False
                for k, sub in zip(p.kwd_attrs, p.kwd_patterns):
                    if k not in v.attrs:
                        raise Unsupported(f"token {v!r} has no attribute {k}")
                    if not self.match(sub, v.attrs[k], env):
                        return False
                return True
            raise Unsupported(f"class pattern {ast.unparse(p.cls)}")
        if isinstance(p, ast.MatchSequence):
            if not isinstance(v, (list, tuple)):
                return False
            star = [i for i, q in enumerate(p.patterns) if isinstance(q, ast.MatchStar)]
            if not star:
                return len(v) == len(p.patterns) and all(self.match(q, x, env) for q, x in zip(p.patterns, v))
            raise Unsupported("starred sequence pattern")
        raise Unsupported(f"pattern {type(p).__name__}")

    # ---- calls
    def lazy_items(self, g: ast.GeneratorExp, env: dict):
        """Element values of a generator expression, produced one at a time (Python generator): nothing after the element the
        consumer stops at is evaluated."""
        def rec(i: int, env1: dict):
            if i == len(g.generators):
                yield self.ev(g.elt, env1)
                return
            comp = g.generators[i]
            it = self.ev(comp.iter, env1)
            if isinstance(it, dict):
                it = list(it)
            it = self.ordered(it)
            if isinstance(it, PyIter):
                it = it.items
            if not isinstance(it, (list, tuple)):
                raise Unsupported(f"comprehension over {it!r}")
            for item in list(it):
                env2 = dict(env1)
                self.assign(comp.target, item, env2)
                if all(self.truth(self.ev(c, env2)) for c in comp.ifs):
                    yield from rec(i + 1, env2)
        if any(c.is_async for c in g.generators):
            raise Unsupported("async comprehension")
        yield from rec(0, dict(env))

    def is_followed_call(self, v: ast.Call, env: dict) -> bool:
        """Does this call go into code the interpreter evaluates (hook, local function, repository function, method of a
        token's class, mutation of a concrete container)?"""
        fn = ast.unparse(v.func)
        if fn in env and callable(env[fn]):
            return True
        if isinstance(v.func, ast.Name):
            f = self.idx.funcs.get(self.idx.resolve_name(self.module, v.func.id))
            return f is not None and f.cls is None
        if isinstance(v.func, ast.Attribute):
            try:
                recv = self.ev(v.func.value, env)
            except Unsupported:
                return False
            if isinstance(recv, Tok):
                return v.func.attr in recv.attrs.get("__methods__", {}) or any(c.find_method(v.func.attr) is not None for c in recv.attrs.get("__classes__", ()))
            return isinstance(recv, (dict, list, set))
        return False

    def side_effect_stmt(self, st: ast.stmt, env: dict) -> None:
        """An expression statement `f(...)`.  If `f` is code the interpreter follows -- a hook, a local function, a repository
        function, a method of a token's class -- then "cannot evaluate" is NOT "returns normally": the callee may be the very
        check whose verdict is being decided (`_int_bounds_check(n, ...)`), so Unsupported propagates (-> UNDECIDED).
        Only calls into code outside the repository (logging, builder objects modelled as opaque) are skipped."""
        v = getattr(st, "value", None)
        if not isinstance(v, ast.Call):
            return
        followed = self.is_followed_call(v, env)
        if followed:
            self.call(v, env)
            return
        try:
            self.call(v, env)
        except Unsupported:
            pass

    def call(self, node: ast.Call, env: dict) -> Any:
        fn = ast.unparse(node.func)
        if fn in env and getattr(env[fn], "__gsa_lambda__", False):
            # a lambda / local function of the interpreted code (not a hook): ordinary call with evaluated arguments
            if node.keywords or any(isinstance(a, ast.Starred) for a in node.args):
                raise Unsupported("call of a local function with keywords / splats")
            return env[fn](*[self.ev(a, env) for a in node.args])
        if fn in env and callable(env[fn]):
            return env[fn](node, self, env)
        if fn in ("functools.cmp_to_key", "cmp_to_key") and len(node.args) == 1 and not node.keywords:
            return CmpKey(node.args[0], env)
        args = None

        def A() -> list:
            nonlocal args
            if args is None:
                args = []
                for a in node.args:
                    if isinstance(a, ast.Starred):
                        sv = self.ev(a.value, env)
                        if not isinstance(sv, (list, tuple)):
                            raise Unsupported(f"splat of {sv!r}")
                        args.extend(sv)
                    else:
                        args.append(self.ev(a, env))
            return args

        if fn in ("itertools.chain", "chain") and not node.keywords and not (fn in env and callable(env[fn])):
            out_c: list = []
            for part in A():
                part = self.ordered(part)
                if isinstance(part, PyIter):
                    part = part.items
                if isinstance(part, dict):
                    part = list(part)
                if not isinstance(part, (list, tuple)):
                    raise Unsupported(f"itertools.chain over {part!r}")
                out_c.extend(part)
            return out_c
        if isinstance(node.func, ast.Attribute):
            recv = self.ev(node.func.value, env)
            m = node.func.attr
            if isinstance(recv, str) and m in ("lower", "upper", "startswith", "endswith"):
                return getattr(recv, m)(*A())
            if isinstance(recv, Tok):
                h = recv.attrs.get("__methods__", {}).get(m)
                if h is not None:
                    if getattr(h, "__gsa_kwargs__", False):  # handler declared with @with_kwargs: also gets the keyword arguments
                        return h(recv, A(), {k.arg: self.ev(k.value, env) for k in node.keywords if k.arg})
                    return h(recv, A())
                for c in recv.attrs.get("__classes__", ()):
                    fm = c.find_method(m)
                    if fm is not None:
                        return self.call_method(fm, recv, node, env)
                return Opaque(f"{recv!r}.{m}()")
            if isinstance(recv, list) and m == "append":
                recv.append(A()[0])
                return None
            if isinstance(recv, list) and m == "extend" and isinstance(A()[0], (list, tuple, set, frozenset)):
                recv.extend(sorted(A()[0], key=repr) if isinstance(A()[0], (set, frozenset)) else A()[0])
                return None
            if isinstance(recv, list) and m == "pop":
                if not recv:
                    raise Raised("pop from empty list", "IndexError")
                return recv.pop(*A())
            if isinstance(recv, set) and m == "pop" and not node.args and getattr(self, "set_order", None) in ("asc", "desc"):
                # an arbitrary element: the caller explores both iteration orders (set_order), the verdict must not depend on it
                if not recv:
                    raise Raised("pop from an empty set", "KeyError")
                x_ = self.ordered(recv)[0]
                recv.discard(x_)
                return x_
            if isinstance(recv, dict) and m == "pop" and 1 <= len(node.args) <= 2:
                if A()[0] not in recv and len(A()) == 1:
                    raise Raised(f"KeyError {A()[0]!r}", "KeyError")
                return recv.pop(*A())
            if isinstance(recv, dict) and m == "copy" and not node.args:
                return dict(recv)
            if isinstance(recv, dict) and m == "get" and 1 <= len(node.args) <= 2 and not node.keywords:
                return recv.get(*A())
            if isinstance(recv, dict) and m == "update" and len(node.args) == 1 and isinstance(A()[0], dict) and not node.keywords:
                recv.update(A()[0])
                return None
            if isinstance(recv, (set, frozenset)) and m in ("union", "intersection", "difference", "issubset", "issuperset", "isdisjoint", "copy") \
                    and all(isinstance(x, (set, frozenset, list, tuple, dict, KeysView)) for x in A()):
                return getattr(set(recv), m)(*[set(x) for x in A()])  # (of a dict: its keys)
            if isinstance(recv, set) and m == "update" and all(isinstance(x, (set, frozenset, list, tuple)) for x in A()):
                recv.update(*A())
                return None
            if fn in ("set.intersection", "set.union", "set.issubset", "set.issuperset", "set.isdisjoint", "set.difference") and A() \
                    and all(isinstance(x, (set, frozenset, KeysView, dict)) for x in A()):
                return getattr(set, fn[4:])(*[set(x) for x in A()])
            if isinstance(recv, set) and m in ("add", "discard"):
                getattr(recv, m)(A()[0])
                return None
            if isinstance(recv, dict) and m in ("keys", "values", "items") and not node.args:
                return {"keys": KeysView(recv), "values": list(recv.values()), "items": list(recv.items())}[m]
            if isinstance(recv, dict) and m == "setdefault" and 1 <= len(node.args) <= 2 and not node.keywords:
                return recv.setdefault(*A())
            if isinstance(recv, dict) and m == "popitem" and not node.args:
                if not recv:
                    raise Raised("popitem(): dictionary is empty", "KeyError")
                return recv.popitem()  # LIFO, as in Python
            if isinstance(recv, dict) and m == "clear" and not node.args:
                recv.clear()
                return None
            if fn in ("re.split", "re.findall", "re.sub", "re.fullmatch", "re.match", "re.search") and not node.keywords and all(isinstance(x, (str, int)) for x in A()) \
                    and (fn in ("re.split", "re.findall", "re.sub") or True):
                # pure functions of the standard library on concrete strings (match objects: only their truth is modelled)
                return getattr(re, fn[3:])(*A())  # (a match object or None for search / match / fullmatch)
            if fn == "re.compile" and not node.keywords and len(node.args) == 1 and isinstance(A()[0], str):
                return re.compile(A()[0])
            if isinstance(recv, re.Pattern) and m in ("split", "findall", "sub", "fullmatch", "match", "search") and not node.keywords and all(isinstance(x, (str, int)) for x in A()):
                return getattr(recv, m)(*A())
            if isinstance(recv, re.Match) and m in ("start", "end", "group", "groups", "span") and not node.keywords and all(isinstance(x, (int, str)) for x in A()):
                try:
                    return getattr(recv, m)(*A())
                except (IndexError, ValueError) as ex:
                    raise Raised(str(ex), type(ex).__name__) from None
            if fn == "dict.fromkeys" and 1 <= len(node.args) <= 2 and isinstance(A()[0], (list, tuple, dict)):
                return dict.fromkeys(list(A()[0]), *(A()[1:]))
            if isinstance(recv, (list, tuple)) and m in ("index", "count") and len(node.args) == 1 and not node.keywords:
                try:
                    return getattr(recv, m)(A()[0])
                except ValueError:
                    raise Raised("value not in list", "ValueError") from None
            if isinstance(recv, Deque) and m in ("popleft", "appendleft") and not node.keywords:
                if m == "popleft" and not recv:
                    raise Raised("pop from an empty deque", "IndexError")
                return getattr(recv, m)(*A())
            if isinstance(recv, list) and m in ("insert", "remove", "clear", "reverse", "copy") and not node.keywords:
                try:
                    return getattr(recv, m)(*A())
                except ValueError:
                    raise Raised("list.remove(x): x not in list", "ValueError") from None
            if isinstance(recv, str) and m in ("join", "split", "strip", "lstrip", "rstrip", "capitalize", "title", "replace", "format", "removeprefix", "removesuffix",
                                               "isdigit", "isidentifier", "find", "count", "splitlines", "rjust", "ljust", "center", "isspace",
                                               "expandtabs", "zfill", "partition", "rpartition", "rsplit", "index", "rfind") and not node.keywords \
                    and all(isinstance(x, (str, int, list, tuple)) for x in A()):
                if m == "join" and not all(isinstance(x, str) for x in A()[0]):
                    raise Unsupported("str.join of non-strings")
                try:
                    return getattr(recv, m)(*A())
                except (ValueError, TypeError, IndexError, KeyError) as ex:
                    raise Raised(f"str.{m}: {ex}", type(ex).__name__) from None
            if isinstance(recv, (dict, list, tuple, set, frozenset, str, int, float)):
                # a method of a concrete Python value that is not modelled: never guess (a silently ignored mutation
                # would make every later conclusion wrong)
                raise Unsupported(f"method {type(recv).__name__}.{m}")
            return Opaque(ast.unparse(node)[:50])
        if fn == "bool" and len(node.args) == 1 and not node.keywords:
            return self.truth(A()[0])
        if fn in ("str", "repr") and len(node.args) == 1 and not node.keywords:
            v = A()[0]
            if isinstance(v, Tok):
                # the printed form of a modelled object: `__str__` if the model gives one (two objects may print alike), else its name
                return v.attrs["__str__"] if isinstance(v.attrs.get("__str__"), str) else v.name
            if isinstance(v, (str, int, float, bool)) or v is None:
                return str(v) if fn == "str" else repr(v)
            raise Unsupported(f"{fn} of {v!r}")
        if fn == "isinstance" and len(node.args) == 2 and isinstance(node.args[1], ast.BinOp):
            # isinstance(x, A | B | C) with class NAMES (some of which the rule may also hook as constructors): by source name
            def _alts(e_: ast.expr) -> list[str] | None:
                if isinstance(e_, ast.BinOp) and isinstance(e_.op, ast.BitOr):
                    l_, r_ = _alts(e_.left), _alts(e_.right)
                    return None if l_ is None or r_ is None else l_ + r_
                d_ = dotted(e_)
                return [d_] if d_ else None
            names_ = _alts(node.args[1])
            v0_ = self.ev(node.args[0], env)
            if names_ is not None and isinstance(v0_, Tok) and not any(n_ in BUILTIN_TYPES or n_ == "NoneType" for n_ in names_):
                return bool(v0_.classes() & {n_.split(".")[-1] for n_ in names_})
        if fn == "isinstance" and len(node.args) == 2:
            v, t = A()
            if isinstance(v, Opaque):
                raise Unsupported("isinstance of opaque value")
            ts = t if isinstance(t, tuple) else (t,)
            if any(callable(x) and not isinstance(x, type) for x in ts):
                # a class name that the caller also hooks as a constructor: identify it by its source name
                srcs = node.args[1].elts if isinstance(node.args[1], ast.Tuple) else ([node.args[1]] if not isinstance(node.args[1], ast.BinOp) else None)
                if srcs is not None and len(srcs) == len(ts):
                    def _as_class(s_: ast.expr, x_: Any) -> Any:
                        if not (callable(x_) and not isinstance(x_, type)):
                            return x_
                        u_ = ast.unparse(s_)
                        if u_.startswith("builtins.") and u_[9:] in BUILTIN_TYPES:
                            return BUILTIN_TYPES[u_[9:]]  # `builtins.int`, hooked as a call, is still the class int in a type test
                        return Opaque(u_)
                    ts = tuple(_as_class(s, x) for s, x in zip(srcs, ts))
            if all(isinstance(x, type) for x in ts):
                return (not isinstance(v, Tok)) and isinstance(v, ts)
            if isinstance(v, Tok) and all(isinstance(x, Opaque) for x in ts):
                kinds = {x.what.split(".")[-1] for x in ts}
                return bool(v.classes() & kinds)
            if not isinstance(v, Tok) and all(isinstance(x, Opaque) for x in ts):
                return False  # a plain Python value is not an instance of a repository class
            raise Unsupported(f"isinstance against {t!r}")
        if fn in ("getattr", "hasattr") and len(node.args) in (2, 3) and not node.keywords and isinstance(A()[0], Tok) and isinstance(A()[1], str):
            # getattr(tok, "name"[, default]) / hasattr(tok, "name"): the token's own attributes, then properties / class constants
            obj_, nm_ = A()[0], A()[1]
            if nm_ in obj_.attrs:
                found_ = obj_.attrs[nm_]
            else:
                probe_ = ast.Attribute(value=ast.Name(id="__getattr_obj__", ctx=ast.Load()), attr=nm_, ctx=ast.Load())
                ast.copy_location(probe_, node)
                ast.fix_missing_locations(probe_)
                found_ = self.attr(obj_, nm_, probe_, {**env, "__getattr_obj__": obj_})
            missing_ = isinstance(found_, Opaque)
            if fn == "hasattr":
                return not missing_
            if not missing_:
                return found_
            if len(node.args) == 3:
                return A()[2]
            raise Raised(f"no attribute {nm_}", "AttributeError")
        if fn == "type" and len(node.args) == 1:
            v = A()[0]
            if isinstance(v, (Opaque, Tok)):
                raise Unsupported("type() of symbolic value")
            return type(v)
        if fn == "iter" and len(node.args) == 1 and not node.keywords:
            v = self.ordered(A()[0])
            if isinstance(v, dict):
                v = list(v)
            if isinstance(v, (list, tuple)):
                return PyIter(list(v))
            if isinstance(v, PyIter):
                return v
            raise Unsupported(f"iter of {v!r}")
        if fn == "next" and len(node.args) in (1, 2) and not node.keywords and isinstance(A()[0], PyIter):
            it_ = A()[0]
            if it_.items:
                return it_.items.pop(0)
            if len(node.args) == 2:
                return A()[1]
            raise Raised("StopIteration", "StopIteration")
        if fn == "int" and len(node.args) == 1 and not node.keywords and isinstance(A()[0], (str, int, bool)) and not isinstance(A()[0], float):
            try:
                return int(A()[0])
            except ValueError as ex:
                raise Raised(str(ex), "ValueError") from None
        if fn == "len" and len(node.args) == 1:
            v = A()[0]
            if isinstance(v, (list, tuple, str, dict, set, frozenset)):
                return len(v)
            if isinstance(v, Tok):
                for c in v.attrs.get("__classes__", ()):
                    fm = c.find_method("__len__")
                    if fm is not None:
                        return self.call_dunder(fm, v, [], env)
            raise Unsupported(f"len of {v!r}")
        if fn in ("any", "all") and len(node.args) == 1 and isinstance(node.args[0], ast.GeneratorExp) and not node.keywords:
            # a generator argument is consumed LAZILY: any()/all() stop at the first deciding element, so the element
            # expressions after it (and their side effects, e.g. `self.visit(arg)`) are never evaluated
            for val in self.lazy_items(node.args[0], env):
                t = self.truth(val)
                if t and fn == "any":
                    return True
                if not t and fn == "all":
                    return False
            return fn == "all"
        if fn == "next" and len(node.args) in (1, 2) and isinstance(node.args[0], ast.GeneratorExp) and not node.keywords and not (fn in env and callable(env[fn])):
            for val in self.lazy_items(node.args[0], env):
                return val
            if len(node.args) == 2:
                return self.ev(node.args[1], env)
            raise Raised("StopIteration", "StopIteration")
        if fn in ("any", "all") and len(node.args) == 1:
            v = A()[0]
            if isinstance(v, list) and all(isinstance(x, bool) for x in v):
                return any(v) if fn == "any" else all(v)
            raise Unsupported(f"{fn} of {v!r}")
        if fn == "zip":
            seqs = A()
            if all(isinstance(s, (list, tuple)) for s in seqs):
                strict = any(k.arg == "strict" and isinstance(k.value, ast.Constant) and k.value.value is True for k in node.keywords)
                if strict and len({len(s) for s in seqs}) > 1:
                    raise Raised("zip() argument lengths differ", "ValueError")
                return [tuple(t) for t in zip(*seqs)]
            raise Unsupported("zip of non-sequences")
        if fn == "enumerate" and 1 <= len(node.args) <= 2 and isinstance(A()[0], dict):
            args = [list(A()[0]), *A()[1:]]  # a dict enumerates its keys, in insertion order
        if fn == "enumerate" and 1 <= len(node.args) <= 2 and isinstance(A()[0], (list, tuple)):
            start = A()[1] if len(node.args) == 2 else 0
            for k in node.keywords:
                if k.arg == "start":
                    start = self.ev(k.value, env)
                else:
                    raise Unsupported(f"enumerate keyword {k.arg}")
            if not isinstance(start, int):
                raise Unsupported("enumerate start")
            return [(i, x) for i, x in enumerate(A()[0], start)]
        if fn in ("reduce", "functools.reduce") and 2 <= len(node.args) <= 3 and isinstance(A()[1], (list, tuple)):
            op = A()[0]
            opname = op.what if isinstance(op, Opaque) else None
            if opname in ("operator.ior", "operator.or_", "ior", "or_"):
                seq = list(A()[1])
                if len(A()) == 3:
                    seq.insert(0, A()[2])
                if not seq:
                    raise Raised("reduce() of empty iterable with no initial value", "TypeError")
                acc = seq[0]
                for x in seq[1:]:
                    if opname.endswith("ior") and isinstance(acc, dict) and isinstance(x, dict):
                        acc.update(x)  # in place, as `acc |= x` on the very object that was passed in
                    elif opname.endswith("ior") and isinstance(acc, set) and isinstance(x, (set, frozenset)):
                        acc.update(x)
                    else:
                        acc = self.binop(ast.BitOr(), acc, x)
                return acc
            raise Unsupported(f"reduce with {op!r}")
        if fn == "sorted" and len(node.args) == 1 and isinstance(A()[0], (list, tuple)) and len(node.keywords) == 1 and node.keywords[0].arg == "key":
            keyv = None
            try:
                keyv = self.ev(node.keywords[0].value, env)
            except Unsupported:
                keyv = None
            if isinstance(keyv, CmpKey):
                # sorted(xs, key=cmp_to_key(f)) -- also through a module constant `_ORDER = cmp_to_key(f)`: the comparison function
                # (a lambda or a followed function) is interpreted per pair
                import functools as _ft
                cenv = {**{k: v for k, v in env.items() if callable(v) or k == "__globals__"}, **keyv.env}
                probe = ast.Call(func=keyv.fn_node, args=[ast.Name(id="__cmp_a__", ctx=ast.Load()), ast.Name(id="__cmp_b__", ctx=ast.Load())], keywords=[])
                ast.copy_location(probe, node)
                ast.fix_missing_locations(probe)
                if not (isinstance(keyv.fn_node, ast.Lambda) or self.is_followed_call(probe, cenv)):
                    raise Unsupported(f"cmp_to_key of {ast.unparse(keyv.fn_node)}")

                def _cmp(a_, b_):
                    r_ = self.ev(probe, {**cenv, "__cmp_a__": a_, "__cmp_b__": b_})
                    if not isinstance(r_, int) or isinstance(r_, bool):
                        raise Unsupported(f"comparison function gives {r_!r}")
                    return r_
                return sorted(list(A()[0]), key=_ft.cmp_to_key(_cmp))
        if fn == "sorted" and len(node.args) == 1 and isinstance(A()[0], (list, tuple, set, frozenset, dict)):
            xs = list(A()[0])
            kws = {k.arg: self.ev(k.value, env) for k in node.keywords if k.arg}
            keyf = kws.get("key")
            if all(isinstance(x, (str, int, float)) and not isinstance(x, bool) for x in xs) and len({type(x) is str for x in xs}) <= 1 \
                    and (keyf is None or keyf in (str, int, float)) and set(kws) <= {"key", "reverse"} and isinstance(kws.get("reverse", False), bool):
                return sorted(xs, key=keyf, reverse=kws.get("reverse", False))
            if getattr(keyf, "__gsa_lambda__", False) and set(kws) <= {"key", "reverse"} and isinstance(kws.get("reverse", False), bool):
                keys = [keyf(x) for x in xs]
                ok_k = lambda k: isinstance(k, (str, int, float)) and not isinstance(k, bool)  # noqa: E731
                if all(ok_k(k) or (isinstance(k, tuple) and all(ok_k(y) for y in k)) for k in keys) and len({repr(type(k)) for k in keys}) <= 1:
                    order = sorted(range(len(xs)), key=lambda i: keys[i], reverse=kws.get("reverse", False))
                    return [xs[i] for i in order]
            raise Unsupported(f"sorted of {xs!r}")
        if fn in ("min", "max") and len(node.args) == 1 and isinstance(A()[0], (list, tuple, set, frozenset)) and A()[0]:
            kws = {k.arg: self.ev(k.value, env) for k in node.keywords if k.arg}
            keyf = kws.get("key")
            xs = list(A()[0]) if not isinstance(A()[0], (set, frozenset)) else sorted(A()[0], key=repr)
            if set(kws) <= {"key"} and getattr(keyf, "__gsa_lambda__", False):
                keys = [keyf(x) for x in xs]
                if all(isinstance(k, (int, float, str)) and not isinstance(k, bool) for k in keys) and len({type(k) is str for k in keys}) <= 1:
                    pick = (min if fn == "min" else max)(range(len(xs)), key=lambda i: keys[i])
                    return xs[pick]
            if not kws and all(isinstance(x, (int, float)) and not isinstance(x, bool) for x in xs):
                return (min if fn == "min" else max)(xs)
            raise Unsupported(f"{fn} of {xs!r}")
        if fn == "reversed" and len(node.args) == 1 and isinstance(A()[0], (list, tuple)):
            return list(reversed(A()[0]))
        if fn in ("cast",) and len(node.args) == 2:
            return self.ev(node.args[1], env)  # the type argument is not evaluated
        if fn in ("list", "tuple") and len(node.args) == 1 and isinstance(A()[0], (list, tuple, dict)):
            return list(A()[0]) if fn == "list" else tuple(A()[0])  # of a dict: its keys, in insertion order
        if fn in ("list", "tuple") and len(node.args) == 1 and isinstance(A()[0], (set, frozenset)):
            xs = sorted(A()[0], key=repr)  # any order: callers of set->list conversions must not depend on it
            return xs if fn == "list" else tuple(xs)
        if fn in ("set", "frozenset") and not node.keywords:
            if not node.args:
                return set()
            if isinstance(A()[0], (list, tuple, set, frozenset, dict)):
                return set(A()[0])  # of a dict: its keys
        if fn in ("min", "max") and node.args and all(isinstance(x, (int, float)) for x in A()):
            return (min if fn == "min" else max)(A())
        if fn == "sum" and len(node.args) == 1 and isinstance(A()[0], list) and all(isinstance(x, (int, float)) for x in A()[0]):
            return sum(A()[0])
        if fn == "range" and node.args and all(isinstance(x, int) for x in A()) and abs(A()[-1]) < 10000:
            return list(range(*A()))
        # an exception object: `err = GuppyError(diag)` ... `raise err`
        exc_cls = self.exception_class(node.func)
        if exc_cls is not None:
            vals_: list = []
            for a_ in node.args:
                try:
                    vals_.append(self.ev(a_, env))
                except Unsupported:
                    vals_.append(Opaque(ast.unparse(a_)[:40]))
            return Tok(f"exc:{exc_cls}", __class__=exc_cls, __exception__=True, args=vals_)
        # a callable VALUE: a token that models a callable object (`__call__` handler), or a function object of the interpreted
        # code that was obtained from an expression (`table[k](x)`, `obj.__getattr__(name)(x)`)
        if isinstance(node.func, (ast.Call, ast.Subscript)) or (isinstance(node.func, ast.Name) and isinstance(env.get(node.func.id), Tok)):
            target = self.ev(node.func, env)
            h_ = target.attrs.get("__call__") if isinstance(target, Tok) else (target if getattr(target, "__gsa_lambda__", False) else None)
            if callable(h_):
                if node.keywords:
                    raise Unsupported("call of a callable value with keywords")
                return h_(*A())
        # repository function?
        if isinstance(node.func, ast.Name):
            q = self.idx.resolve_name(self.module, node.func.id)
            f = self.idx.funcs.get(q)
            if f is not None and f.cls is None:
                return self.call_repo(f, node, env)
        return Opaque(ast.unparse(node)[:50])

    def call_repo(self, f: FuncInfo, node: ast.Call, env: dict) -> Any:
        if self.depth >= self.max_depth:
            raise Unsupported("call depth")
        params = [a.arg for a in f.node.args.posonlyargs + f.node.args.args]
        defaults = f.node.args.defaults
        new: dict = {k: v for k, v in env.items() if callable(v) or k.startswith("__hook") or k == "__globals__"}
        vals = self._positional(node, env)
        for p, v in zip(params, vals):
            new[p] = v
        self._bind_rest(f, params, vals, node, env, new)
        for p, d in zip(params[len(params) - len(defaults):], defaults):
            if p not in new:
                new[p] = self.ev(d, {})
        self.depth += 1
        try:
            out = self.run(f.node.body, new)
        finally:
            self.depth -= 1
        if out[0] == "raise":
            raise Raised(f"{f.name}: {out[1]}", str(out[1]))
        if "__yields__" in new or any(isinstance(x, (ast.Yield, ast.YieldFrom)) for x in _walk_own(f.node)):
            # a generator function: evaluated eagerly, its result is the list of yielded values (callers iterate it)
            return list(new.get("__yields__", []))
        return out[1] if out[0] == "return" else None

    def _positional(self, node: ast.Call, env: dict) -> list:
        vals: list = []
        for a in node.args:
            if isinstance(a, ast.Starred):
                sv = self.ordered(self.ev(a.value, env))
                if not isinstance(sv, (list, tuple)):
                    raise Unsupported(f"splat of {sv!r}")
                vals.extend(sv)
            else:
                vals.append(self.ev(a, env))
        return vals

    def _bind_rest(self, f: FuncInfo, names: list, vals: list, node: ast.Call, env: dict, new: dict) -> None:
        """Keyword arguments, keyword-only parameters with defaults, `*args` and `**kwargs` of a followed call."""
        a = f.node.args
        named = set(names) | {k.arg for k in a.kwonlyargs}
        extra_kw: dict = {}
        for kw in node.keywords:
            if kw.arg is None:
                d = self.ev(kw.value, env)
                if not isinstance(d, dict):
                    raise Unsupported(f"**{d!r} in a call")
                items = d.items()
            else:
                items = [(kw.arg, self.ev(kw.value, env))]
            for k, v in items:
                if k in named or a.kwarg is None:
                    new[k] = v
                else:
                    extra_kw[k] = v
        if a.kwarg is not None:
            new[a.kwarg.arg] = extra_kw
        if a.vararg is not None:
            new[a.vararg.arg] = tuple(vals[len(names):])
        for k, d in zip(a.kwonlyargs, a.kw_defaults):
            if k.arg not in new and d is not None:
                new[k.arg] = self.ev(d, {})

    def call_method(self, f: FuncInfo, recv: Any, node: ast.Call, env: dict) -> Any:
        """Interpret a repository method with `self` bound to a token."""
        if self.depth >= self.max_depth:
            raise Unsupported("call depth")
        params = [a.arg for a in f.node.args.posonlyargs + f.node.args.args]
        static = "staticmethod" in f.decorator_names()
        new: dict = {k: v for k, v in env.items() if callable(v) or k == "__globals__"}
        vals = self._positional(node, env)
        names = params if static else params[1:]
        if not static and params:
            new[params[0]] = recv
        for p, v in zip(names, vals):
            new[p] = v
        self._bind_rest(f, names, vals, node, env, new)
        defaults = f.node.args.defaults
        for p, d in zip(params[len(params) - len(defaults):], defaults):
            if p not in new:
                new[p] = self.ev(d, {})
        self.depth += 1
        try:
            out = self.run(f.node.body, new)
        finally:
            self.depth -= 1
        if out[0] == "raise":
            raise Raised(f"{f.name}: {out[1]}", str(out[1]))
        if "__yields__" in new or any(isinstance(x, (ast.Yield, ast.YieldFrom)) for x in _walk_own(f.node)):
            # a generator function: evaluated eagerly, its result is the list of yielded values (callers iterate it)
            return list(new.get("__yields__", []))
        return out[1] if out[0] == "return" else None

    def call_dunder(self, f: FuncInfo, recv: Any, vals: list, env: dict) -> Any:
        """Interpret `recv[...]` / `recv[...] = v` through the repository class's dunder method."""
        if self.depth >= self.max_depth:
            raise Unsupported("call depth")
        params = [a.arg for a in f.node.args.args]
        new: dict = {k: v for k, v in env.items() if callable(v) or k == "__globals__"}
        new[params[0]] = recv
        for p_, v in zip(params[1:], vals):
            new[p_] = v
        self.depth += 1
        try:
            out = self.run(f.node.body, new)
        finally:
            self.depth -= 1
        if out[0] == "raise":
            raise Raised(f"{f.name}: {out[1]}", str(out[1]))
        if "__yields__" in new or any(isinstance(x, (ast.Yield, ast.YieldFrom)) for x in _walk_own(f.node)):
            # a generator function: evaluated eagerly, its result is the list of yielded values (callers iterate it)
            return list(new.get("__yields__", []))
        return out[1] if out[0] == "return" else None

    def run_function(self, f: FuncInfo, env: dict) -> tuple[str, Any]:
        """('return', v) | ('raise', class name) | ('fall', None)"""
        # the receiver of a method knows its class: calls of sibling helper methods (`self._helper(x)`) are then interpreted
        # too instead of being treated as opaque no-ops (a helper extracted from the method must not change the verdict)
        if f.cls is not None and "staticmethod" not in f.decorator_names():
            ps0 = f.node.args.posonlyargs + f.node.args.args
            recv0 = env.get(ps0[0].arg) if ps0 else None
            if isinstance(recv0, Tok) and "__classes__" not in recv0.attrs:
                recv0.attrs["__classes__"] = f.cls.mro()
        try:
            return self.run(f.node.body, env)
        except Raised as r:
            return ("raise", r.cls or str(r))
