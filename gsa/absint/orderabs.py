"""Evaluator for comparison-only methods over symbolic, totally pre-ordered points.

A `LocV` is a symbolic source location: a file id plus a rank.  Within one file the
lexicographic `Loc` order is total, so a weak ordering of the points (equal ranks =
equal locations) is an exact abstraction of every concrete choice of line/column.
Across files `Loc` compares by file first.

The interpreter accepts a small fragment (if/return, comparisons incl. chains, and/or/
not, isinstance, max/min, constructor calls of the anchored classes, properties of the
same class).  Anything else raises `Unsupported` -> the obligation is UNDECIDED.
"""

from __future__ import annotations

import ast
import itertools
from dataclasses import dataclass


class Unsupported(Exception):
    pass


class RaisedInternal(Exception):
    """The evaluated code executed a `raise`."""


@dataclass(frozen=True)
class LocV:
    """Symbolic location: file id, line rank, column rank (dataclass order = this tuple)."""

    file: int
    line: int
    col: int = 0

    def key(self) -> tuple[int, int, int]:
        return (self.file, self.line, self.col)


@dataclass(frozen=True)
class IntV:
    """A line or column number known only up to its rank among the other lines/columns."""

    kind: str  # "line" | "col"
    rank: int


@dataclass(frozen=True)
class SpanV:
    start: LocV
    end: LocV


def weak_orderings(n: int):
    """All weak orderings of n points as rank tuples (ordered set partitions)."""
    seen = set()
    for ranks in itertools.product(range(n), repeat=n):
        used = sorted(set(ranks))
        norm = tuple(used.index(r) for r in ranks)
        if norm not in seen:
            seen.add(norm)
            yield norm


class Evaluator:
    def __init__(self, cls_node: ast.ClassDef, class_names: dict[str, str]):
        """class_names: simple class name -> 'Span' | 'Loc' (which symbolic kind)."""
        self.cls = cls_node
        self.kinds = class_names
        self.props = {}
        self.methods = {st.name: st for st in cls_node.body if isinstance(st, ast.FunctionDef)}
        self.depth = 0
        #: fields left out of the dataclass-generated comparisons (`field(compare=False)`), set by the rule from the class bodies
        self.loc_excluded: set[str] = set()
        self.span_excluded: set[str] = set()
        for st in cls_node.body:
            if isinstance(st, ast.FunctionDef) and any(
                isinstance(d, ast.Name) and d.id in ("property", "cached_property") for d in st.decorator_list
            ):
                self.props[st.name] = st

    def ckey(self, v: LocV) -> tuple:
        """The tuple the generated ==/< of Loc really compares."""
        return tuple(x for n, x in (("file", v.file), ("line", v.line), ("column", v.col)) if n not in self.loc_excluded)

    # ---- statements
    def run(self, fn: ast.FunctionDef, args: dict[str, object]):
        env = dict(args)
        r = self._block(fn.body, env)
        if r is _FALL:
            return None
        return r[1]

    def _block(self, stmts, env):
        for st in stmts:
            if isinstance(st, ast.Expr) and isinstance(st.value, ast.Constant):
                continue  # docstring
            if isinstance(st, ast.Return):
                return ("ret", self.ev(st.value, env) if st.value is not None else None)
            if isinstance(st, ast.If):
                c = self.truth(self.ev(st.test, env))
                r = self._block(st.body if c else st.orelse, env)
                if r is not _FALL:
                    return r
                continue
            if isinstance(st, ast.Assign) and len(st.targets) == 1 and isinstance(st.targets[0], ast.Name):
                env[st.targets[0].id] = self.ev(st.value, env)
                continue
            if isinstance(st, ast.Assign) and len(st.targets) == 1 and isinstance(st.targets[0], ast.Tuple) \
                    and all(isinstance(t, ast.Name) for t in st.targets[0].elts):
                v = self.ev(st.value, env)
                if not isinstance(v, tuple) or len(v) != len(st.targets[0].elts) or (v and v[0] == "file"):
                    raise Unsupported("tuple unpacking of a non-tuple")
                for t, x in zip(st.targets[0].elts, v):
                    env[t.id] = x
                continue
            if isinstance(st, ast.AnnAssign) and isinstance(st.target, ast.Name) and st.value is not None:
                env[st.target.id] = self.ev(st.value, env)
                continue
            if isinstance(st, ast.Raise):
                raise RaisedInternal(ast.unparse(st))
            if isinstance(st, ast.Assert):
                if not self.truth(self.ev(st.test, env)):
                    raise RaisedInternal(ast.unparse(st))
                continue
            if isinstance(st, ast.Pass):
                continue
            raise Unsupported(f"statement {type(st).__name__}: {ast.unparse(st)[:60]}")
        return _FALL

    # ---- expressions
    def truth(self, v) -> bool:
        if isinstance(v, bool):
            return v
        if v is None:
            return False
        if isinstance(v, (SpanV, LocV)):
            return True
        raise Unsupported(f"truthiness of {v!r}")

    def ev(self, e: ast.expr, env):
        if isinstance(e, ast.Constant):
            if e.value is None or isinstance(e.value, bool):
                return e.value
            raise Unsupported(f"constant {e.value!r}")
        if isinstance(e, ast.Name):
            if e.id in env:
                return env[e.id]
            raise Unsupported(f"name {e.id}")
        if isinstance(e, ast.Attribute):
            v = self.ev(e.value, env)
            return self.attr(v, e.attr)
        if isinstance(e, ast.BoolOp):
            if isinstance(e.op, ast.And):
                r = True
                for x in e.values:
                    r = self.ev(x, env)
                    if not self.truth(r):
                        return r
                return r
            r = False
            for x in e.values:
                r = self.ev(x, env)
                if self.truth(r):
                    return r
            return r
        if isinstance(e, ast.UnaryOp) and isinstance(e.op, ast.Not):
            return not self.truth(self.ev(e.operand, env))
        if isinstance(e, ast.IfExp):
            return self.ev(e.body if self.truth(self.ev(e.test, env)) else e.orelse, env)
        if isinstance(e, ast.Compare):
            left = self.ev(e.left, env)
            for op, rhs in zip(e.ops, e.comparators):
                right = self.ev(rhs, env)
                if not self.cmp(op, left, right):
                    return False
                left = right
            return True
        if isinstance(e, ast.Call):
            return self.call(e, env)
        if isinstance(e, ast.Tuple):
            return tuple(self.ev(x, env) for x in e.elts)
        raise Unsupported(f"expression {type(e).__name__}: {ast.unparse(e)[:60]}")

    def attr(self, v, name: str):
        if isinstance(v, SpanV):
            if name in ("start", "end"):
                return getattr(v, name)
            if name in self.props:
                fn = self.props[name]
                r = self._block(fn.body, {"self": v})
                if r is _FALL:
                    return None
                return r[1]
            raise Unsupported(f"Span attribute {name}")
        if isinstance(v, LocV):
            if name == "file":
                return ("file", v.file)
            if name == "line":
                return IntV("line", v.line)
            if name == "column":
                return IntV("col", v.col)
            raise Unsupported(f"Loc attribute {name}")
        raise Unsupported(f"attribute {name} of {v!r}")

    def cmp(self, op: ast.cmpop, a, b) -> bool:
        if isinstance(op, (ast.In, ast.NotIn)):
            if not isinstance(b, SpanV) or "__contains__" not in self.methods:
                raise Unsupported(f"`in` on {b!r}")
            self.depth += 1
            if self.depth > 6:
                raise Unsupported("recursion too deep")
            try:
                fn = self.methods["__contains__"]
                names = [x.arg for x in fn.args.args]
                r = self.truth(self.run(fn, {names[0]: b, names[1]: a}))
            finally:
                self.depth -= 1
            return r if isinstance(op, ast.In) else not r
        if isinstance(a, LocV) and isinstance(b, LocV):
            ka, kb = self.ckey(a), self.ckey(b)
        elif isinstance(a, IntV) and isinstance(b, IntV):
            if a.kind != b.kind:
                raise Unsupported("comparison of a line with a column")
            ka, kb = a.rank, b.rank
        elif isinstance(a, tuple) and isinstance(b, tuple) and a[0] == "file" and b[0] == "file":
            if isinstance(op, (ast.Is, ast.IsNot)):
                # file names of two spans are equal strings, not the same object (paths are built, not interned): identity does
                # not hold even for equal names -- code that relies on `is` to recognise "same file" gets False here
                return isinstance(op, ast.IsNot)
            if not isinstance(op, (ast.Eq, ast.NotEq)):
                raise Unsupported("ordering comparison of files")
            ka, kb = a[1], b[1]
        elif isinstance(op, (ast.Is, ast.IsNot)) and (a is None or b is None):
            return (a is b) if isinstance(op, ast.Is) else (a is not b)
        elif isinstance(op, (ast.Eq, ast.NotEq)) and isinstance(a, SpanV) and isinstance(b, SpanV):
            eq = ("start" in self.span_excluded or self.ckey(a.start) == self.ckey(b.start)) and (
                "end" in self.span_excluded or self.ckey(a.end) == self.ckey(b.end))
            return eq if isinstance(op, ast.Eq) else not eq
        else:
            raise Unsupported(f"comparison between {a!r} and {b!r}")
        if isinstance(op, ast.LtE):
            return ka <= kb
        if isinstance(op, ast.Lt):
            return ka < kb
        if isinstance(op, ast.GtE):
            return ka >= kb
        if isinstance(op, ast.Gt):
            return ka > kb
        if isinstance(op, ast.Eq):
            return ka == kb
        if isinstance(op, ast.NotEq):
            return ka != kb
        raise Unsupported(f"operator {type(op).__name__}")

    def call(self, e: ast.Call, env):
        if e.keywords and not all(k.arg for k in e.keywords):
            raise Unsupported("**kwargs")
        f = e.func
        name = f.id if isinstance(f, ast.Name) else None
        if name == "isinstance" and len(e.args) == 2:
            v = self.ev(e.args[0], env)
            tys = e.args[1].elts if isinstance(e.args[1], ast.Tuple) else [e.args[1]]
            for t in tys:
                tn = t.id if isinstance(t, ast.Name) else (t.attr if isinstance(t, ast.Attribute) else None)
                k = self.kinds.get(tn or "")
                if k is None:
                    raise Unsupported(f"isinstance against {ast.unparse(t)}")
                if (k == "Span" and isinstance(v, SpanV)) or (k == "Loc" and isinstance(v, LocV)):
                    return True
            return False
        if name in ("max", "min") and len(e.args) >= 2 and not e.keywords:
            vals = [self.ev(a, env) for a in e.args]
            if not all(isinstance(v, LocV) for v in vals):
                raise Unsupported("max/min of non-locations")
            # Python's max returns the first maximal element; equal keys are equal Locs
            return (max if name == "max" else min)(vals, key=self.ckey)
        if name is not None and self.kinds.get(name) == "Span":
            vals = [self.ev(a, env) for a in e.args]
            kw = {k.arg: self.ev(k.value, env) for k in e.keywords}
            start = vals[0] if len(vals) > 0 else kw.get("start")
            end = vals[1] if len(vals) > 1 else kw.get("end")
            if not isinstance(start, LocV) or not isinstance(end, LocV):
                raise Unsupported("Span(...) with non-location arguments")
            if start.file != end.file or start.key() > end.key():
                raise RaisedInternal("Span invariant violated by constructed result")
            return SpanV(start, end)
        # a helper method of the span class called on a span value: `self._in_same_file(x)` -- interpreted like the dunder methods
        if isinstance(f, ast.Attribute) and f.attr in self.methods and not e.keywords:
            recv = self.ev(f.value, env)
            if isinstance(recv, SpanV):
                fn = self.methods[f.attr]
                names = [x.arg for x in fn.args.posonlyargs + fn.args.args]
                vals = [self.ev(a, env) for a in e.args]
                if len(vals) != len(names) - 1:
                    raise Unsupported(f"arity of helper {f.attr}")
                self.depth += 1
                if self.depth > 6:
                    raise Unsupported("recursion too deep")
                try:
                    return self.run(fn, dict(zip(names, [recv, *vals])))
                finally:
                    self.depth -= 1
        raise Unsupported(f"call {ast.unparse(e)[:60]}")


_FALL = object()
