"""Generates /verif/MANIFEST.json from the table below (python -m gsa.manifest)."""

from __future__ import annotations

import json
import os

VERIF = os.path.dirname(os.path.dirname(os.path.abspath(__file__)))

PY = "/venv/bin/python"

# property -> (level category, level text, level note, technique, design ref)
CLAIMED: dict[str, tuple[str, str, str, str, str]] = {
    "C30": (
        "proof",
        "Exhaustive symbolic evaluation of Span.__contains__/__and__ over every weak ordering of the endpoints "
        "(same-file and different-file cases) against interval semantics; exact for a comparison-only function, so "
        "a proof of the statement for the code as parsed.",
        "Trusted: CPython's ast parser, the ~250-line order-abstraction evaluator, dataclass(order=True) semantics "
        "(preconditions on Loc/Span.__post_init__ are themselves checked).",
        "abstract interpretation over a finite order domain (ast expression-tree evaluation, exhaustive)",
        "DESIGN §5 C30",
    ),
    "C21": (
        "other",
        "Decides the operator-dispatch clause only: every comptime dunder forwards to the same-named Guppy method with "
        "unchanged operands, operator tables/std dunders/mixin agree, reflected fallback uses the right table and "
        "swaps operands. Results of tracing are not decided.",
        "Trusted: ast parser; std dunder implementations are recognised by decorator (extend_type/custom_type/struct).",
        "table/forwarding agreement lint over the syntax tree (sibling cross-check) + abstract interpretation of the reflected-operator wrapper and of the three builtin mocks on tokens of every traced class and on plain values",
        "DESIGN §5 C21",
    ),
    "C22": (
        "other",
        "Decides that every enforcement point of comptime ownership exists on every path and tests the right flags: "
        "frozenlist overrides all list mutators with must-raise bodies; frozen struct objects cannot be stored into; the "
        "frozen flag is threaded through unpacking and equals 'not borrowed'; _use_wire raises iff used and not copyable and "
        "records uses; undroppable objects are registered and a leak check dominates set_outputs; only allow-listed "
        "functions read _wire / reset _used.",
        "Trusted: ast parser, the list-mutator table (Python language fact), lexical guard extraction (if/elif/else + early "
        "exits) as a necessary condition for reaching a statement. Not decided: what tracing produces.",
        "exhaustiveness table + must-raise/dominance on a per-function CFG + guard truth tables + who-may-access lint",
        "DESIGN §5 C22",
    ),
    "C23": (
        "other",
        "Decides that mock_builtins restores the user's namespace exactly: the generator is split at its yield and its pieces are "
        "interpreted on all 2^3 user namespaces over {float,int,len} (plus an unrelated binding) for the normal and the "
        "exceptional exit -- every mocked name is shadowed at the yield, afterwards keys and values equal the initial ones; the "
        "restore is in a finally around the yield; no other tracing-time function writes user namespaces; the traced function "
        "runs inside mock_builtins of the same function object.",
        "Trusted: ast parser; namespace writes are recognised syntactically through __globals__/f_globals/f_locals/__dict__ "
        "attributes (subscript stores, del, update/pop/setdefault/clear).",
        "abstract interpretation of the save/install/restore pieces on all small namespaces + finally-pairing on the CFG + who-may-write lint over all functions",
        "DESIGN §5 C23",
    ),
    "C24": (
        "other",
        "Decides: the unitary pass looks at statements and branch predicates of every block and at every call argument; "
        "_check_call's acceptance test equals 'some qubit argument and context flags not a subset of callee flags' on all "
        "8x8x2 cases; the argument classifier is exact on all lists up to length 3; nested with-blocks combine the enclosing "
        "flags; dagger guards hold for all 8 flag sets; flags flow decorator->CFG->pass->HUGR metadata; the qubit finder "
        "never prunes. Not decided: the set of paths of the built CFG.",
        "Trusted: ast parser, enum.Flag semantics as modelled in gsa/absint/flagabs.py (a in b <=> a&b==a), the mini "
        "interpreter's fragment (outside it the obligation is UNDECIDED, not a verdict).",
        "finite-domain abstract evaluation over flag sets (call acceptance, dagger guards, derived function types) + abstract interpretation of the whole unitary visitor on token trees with probes at positions outside the syntax tree + must-call rules on the CFG",
        "DESIGN §5 C24",
    ),
    "C33": (
        "other",
        "Decides: each gate function reads the live flag and must-raise GuppyError exactly when disabled; every construction "
        "site of a gated construct (ModifiedBlock, DesugaredListComp, TensorCall, list displays/types, capturing closures) is "
        "dominated by its gate; enable/disable save before overwriting and restore unconditionally without swallowing "
        "exceptions; nobody else writes or copies the flag.",
        "Trusted: ast parser, per-function CFG (explicit raise edges only). The diagnostic class of a gate is not mandated "
        "(golden file pins UnsupportedError for closures).",
        "who-must-call with dominance on the per-function CFG + sibling rule + save/restore ordering",
        "DESIGN §5 C33",
    ),
    "C32": (
        "other",
        "Decides a finite table: for every stdlib ast class the front end handles (statements via CFGBuilder->StmtChecker, "
        "expressions via ExprBuilder/BranchBuilder->ExprSynthesizer/ExprChecker) and every semantic field of it, the field "
        "is read on every accepting path of the handler chain or the node is rejected; nodes replaced by new nodes must have "
        "had every field read; helper classes (arguments, arg, withitem, comprehension, keyword) likewise. Plus must-raise of "
        "the generic fallbacks, the explicit rejections (parameter kinds, keywords before dispatch, multi-target, `as`, async), "
        "and 'a built statement is dropped only if it is a compiler temporary'.",
        "Trusted: ast parser; Python 3.12's ast._fields as the definition of 'every clause'; reads used only for an error "
        "location count as reads; helper summaries are flow-insensitive may-reads; unresolved callees read nothing but what is "
        "passed explicitly.",
        "field-consumption dataflow over handler CFGs with interprocedural summaries (exhaustiveness table ast class x field)",
        "DESIGN §5 C32",
    ),
    "C28": (
        "other",
        "Decides the immutability clause: in every method of EmulatorInstance/_Options/EmulatorBuilder, each attribute/"
        "subscript store, mutating container call or setattr hits an object created in that method (constructor, copy, "
        "replace; shallow-copy depth tracked), never one reachable from self or a parameter; classes are frozen dataclasses; "
        "every with_*/..._sim returns a replace-derived configuration with a freshly constructed simulator; run passes the "
        "configuration's own seed. Reproducibility of the backends is not decided.",
        "Trusted: ast parser; dataclasses.replace/copy.copy are shallow, deepcopy and zero-argument constructors are deep-fresh; "
        "results of unknown calls count as shared (mutating them is reported).",
        "intraprocedural ownership/alias (freshness-depth) analysis + who-may-mutate lint + derivation shape rules",
        "DESIGN §5 C28",
    ),
    "C16": (
        "other",
        "Decides the direction clause: try_coerce_to, interpreted from its syntax tree on the full 4x4 table of "
        "actual/expected kinds (nat, int, float, non-numeric) with the enum order folded from the class body, coerces "
        "exactly in the widening direction and asks the actual type for the conversion named after the expected kind; it is "
        "called only from the type-mismatch fallback after unification failed; the three widening methods exist. Converted "
        "values are not decided.",
        "Trusted: ast parser, gsa/absint/pyeval.py (own interpreter for a pure Python fragment; outside it UNDECIDED).",
        "finite-domain abstract evaluation of the decision function (exhaustive table) + who-may-call with guard",
        "DESIGN §5 C16",
    ),
    "C17": (
        "other",
        "Decides the accept/reject clause: _int_bounds_check and python_value_to_guppy_type, interpreted from their syntax "
        "trees on all boundary integers (bounds, neighbours, 0, +-1, 200-bit values, every constant that folds in the code) "
        "for both signednesses, as scalars and at every position of tuple/list constants (lengths 1-3, also under hints of "
        "another arity), accept exactly the in-range values at the right type; negative literals are folded first; lowering "
        "uses the matching signedness/width; every constant entry point reaches the check. Observed run-time values are not decided.",
        "Trusted: ast parser, gsa/absint/pyeval.py; exactness argument: the code is comparison-only against folded constants, "
        "all of which (and their neighbours) are probed.",
        "abstract evaluation of the range-check functions on a boundary-complete probe set + entry-point must-call + interpretation of the comprehension desugaring (every sub-expression reaches the folding builder)",
        "DESIGN §5 C17",
    ),
    "C09": (
        "other",
        "A checked proof sketch: the chaotic-iteration theorem (textbook) gives order-independence and equality with the "
        "path-based solution once its obligations hold; each obligation is decided on cfg/analysis.py and cfg/cfg.py: "
        "worklist completeness (edges read to recompute a block = inverse of edges re-queued on change, for both "
        "include_unreachable modes, extracted by abstractly interpreting one loop iteration), gen/kill truth tables of both "
        "transfer functions, meet/join/eq shapes, extremal start values, change detection and initial queueing.",
        "Trusted: the theorem itself; ast parser; gsa interpreter fragments (outside them UNDECIDED). No CFG is sampled.",
        "dataflow-framework obligations: abstract interpretation of one worklist iteration and of the join functions on all small inputs + set-algebra truth tables",
        "DESIGN §5 C09",
    ),
    "C10": (
        "other",
        "Decides: no place in the compiler packages consumes an unordered collection (set / set algebra on dict views / "
        "set-annotated names, attributes, return values) in an order-sensitive way (raise/return/break/yield in the loop, "
        "list or dict building, pop, next(iter), list/tuple/join/unpack); worklists whose order reaches output are dicts; no "
        "id/hash/random/time/environment input. This is the 'for every hash seed and heap layout' quantifier turned into an "
        "enumeration of consumer sites. Byte-identity of HUGR serialisation itself (hugr library) is not decided.",
        "Trusted: ast parser; set-kind inference is annotation driven (a set that is nowhere annotated and flows through an "
        "unannotated call is missed; floors on the number of discovered sites and APIs guard against silent loss); embedded "
        "positive/negative examples must classify correctly on every run.",
        "type-kind inference + consumer classification lint (dataflow of unordered collections into order-sensitive sinks)",
        "DESIGN §5 C10",
    ),
    "C14": (
        "other",
        "Claimed at 'other' level as a whole (the property has a known finding: phantom type parameters of structs, R-C14.7). "
        "One clause is decided exhaustively: 'the declared HUGR bound is Copyable iff the Guppy type is copyable' -- the expression "
        "trees of TypeBase.linear/affine/hugr_bound and TypeParam.to_hugr are evaluated on all boolean assignments (all four "
        "requirement combinations of a type parameter). The rest: the structural copy/drop rule "
        "interpreted on all argument/field lists up to length 2, copy/drop sibling alpha-equivalence, the builtin intrinsic "
        "table, and the drop-insertion obligations (affine type list, recursion of requires_drop, per-port decision, must-call).",
        "Trusted: ast parser, gsa/absint/pyeval.py; classes that override hugr_bound with a constant are checked separately "
        "(NoneType/NumericType/FunctionType). Whether hugr's own TypeBound.join and the emitted drop ops are right is not decided.",
        "finite-domain truth tables (exhaustive) + abstract evaluation of the structural rule + sibling/table agreement",
        "DESIGN §5 C14",
    ),
    "C15": (
        "other",
        "Decides: both resolution loops iterate self.func_ids in order, attempt every variant with the caller's arguments, "
        "suppress only GuppyError, return the variant's own result and raise the no-match error only after the loop; the "
        "decorator stores variants in argument order; no checker/definition function mutates an argument list in place or "
        "returns it; and whether successive attempts share mutable argument nodes (they do: recorded known finding).",
        "Trusted: ast parser. The rule for shared nodes is a may-analysis: it reports sharing because the checker rewrites "
        "nodes in place (confirmed on concrete inputs, see known_findings.json).",
        "shape/ordering rules on the resolution loops + sibling agreement + who-may-mutate (argument sharing) lint",
        "DESIGN §5 C15",
    ),
    "C29": (
        "other",
        "Decides four structural clauses: the text wrapper's configuration ('wrapped only at whitespace'; violated on the "
        "pinned tree and recorded as a known finding because a golden file pins the behaviour), totality of wrap's "
        "destructuring, that every label/message of a diagnostic and its children is printed under no condition but its own "
        "presence, and that the source map re-reads files and slices exactly the span's lines. Column arithmetic of highlight "
        "markers, indentation trimming and termination are not decided.",
        "Trusted: ast parser; textwrap's documented defaults (break_long_words=True, break_on_hyphens=True).",
        "configuration lint + guard-minimality of output statements + must-write on the CFG",
        "DESIGN §5 C29",
    ),
    "C13": (
        "other",
        "Decides structural clauses of instantiation: every self-rebuilding method of the type/parameter classes passes every "
        "defaulted constructor parameter (no field silently reset by a copy); the Instantiator's de Bruijn arithmetic is right "
        "on all (index, #instantiated) pairs up to 4x3 for type and const variables and refuses to go under binders; "
        "compile_variable_idx is the dense index for all monomorphisation masks up to length 4; instantiate_partial, interpreted "
        "on all 156 argument lists of length <= 3 over {stays, type, tuple, None, const}, keeps the remaining parameters in order "
        "and densely re-indexed, refers to a kept parameter by its NEW index, instantiates bounds with the prefix, preserves "
        "tuples/None, transforms inputs/output/comptime args and keeps the flags. Run-time results and HUGR validity are not decided.",
        "Trusted: ast parser, gsa/absint/pyeval.py. Two structural copies that drop a field without a demonstrated "
        "consequence are listed as exemptions with their reason (printed as notes on every run).",
        "field-preservation table check + finite abstract evaluation of index arithmetic",
        "DESIGN §5 C13",
    ),
    "C12": (
        "other",
        "Decides unification on a finite universe of shapes: unify/_unify_var/_unify_args are interpreted from their syntax "
        "trees on all ordered pairs of 35 type shapes and 3 const shapes (every constructor, nominal discriminator, arity, "
        "type-vs-const argument, ownership flags on linear/non-linear inputs, fresh/repeated/solved inference variables, depth "
        "<= 2) x 3 starting substitutions = 3702 pairs, and compared with a reference unifier: same success/failure, returned "
        "substitution unifies and extends the start, no crash/non-termination; plus constructor exhaustiveness of the match; plus "
        "a def-use rule for the callers: in every loop that checks parts one by one and merges their solutions, the expected "
        "type of the next part reads the accumulated substitution. Most-generality and unbounded nesting are not decided.",
        "Trusted: ast parser, gsa/absint/pyeval.py, the 40-line reference unifier in rules/C12.py. Bounded: shapes up to depth 2.",
        "bounded-exhaustive abstract evaluation of the unifier against a reference + exhaustiveness table + abstract interpretation of the callers (argument checking, generic function values, type transformation) on triangular solutions",
        "DESIGN §5 C12",
    ),
    "C11": (
        "other",
        "Decides the 'no hidden session writes' clause: every syntactic write to state that outlives one check/compile call "
        "(user namespace dictionaries, global rebinding, the DEF_STORE/ENGINE singletons, module- and class-level mutable "
        "objects, memo decorators) in both packages is enumerated and must be in a reviewed table keyed by the writing "
        "function (decoration-time registration, name counters, the C23/C33 save-restore pairs, ...); every compile re-checks "
        "from a reset engine with a fresh context; compile-phase mutations of checked objects are guarded; ambient state set by "
        "context managers is restored in finally (two reviewed exceptions); no registration into DEF_STORE is conditional on what "
        "the store or an engine cache already holds. Equality of the HUGRs of two runs is not decided.",
        "Trusted: ast parser; writes are recognised syntactically (attribute/subscript stores, mutating container methods, "
        "next() on counters, register_* calls); aliasing of a persistent object through a local variable is not tracked.",
        "MOD-style who-may-write enumeration against a reviewed table + must-call ordering and finally-pairing on the CFG + abstract evaluation of the variable order on counter-suffixed names",
        "DESIGN §5 C11",
    ),
    "C08": (
        "other",
        "Decides the obligations the accept/reject boundary rests on: the C09 dataflow obligations (re-run here), analyze "
        "called before its results are used in all three callers, the set of locals built from all blocks, truth tables of the "
        "two 'not defined' predicates of check_bb (entry block and along edges) over the membership atoms, every successor edge "
        "incl. dummy ones examined, and two CFG-construction rules (dead code hangs off the jumping block; symmetric pruning). "
        "Path-dependent types: check_rows_match, interpreted on all pairs of rows over <= 3 names x 2 types in every order, raises "
        "iff some variable's type differs, and check_cfg calls it for revisited blocks. That the CFG has exactly Python's paths is "
        "not decided.",
        "Trusted: ast parser; lexical guard extraction (if/elif/else, early continue/raise) as the condition for reaching a raise; "
        "diagnostic-flavour guards are treated existentially.",
        "abstract interpretation of check_bb, check_cfg (work list on model CFGs with dead blocks), the CFG builder and the expression builder on token trees + guard truth tables + dataflow-framework obligations (shared with C09)",
        "DESIGN §5 C08",
    ),
    "C06": (
        "other",
        "Decides the decision points and traversals of the linearity checker: truth tables of every raise condition "
        "(NotOwned, AlreadyUsed within a block, discarded expression value, used-and-still-live and unused-and-not-live across "
        "blocks) over copyable/droppable/used/live flags with unknown guards quantified universally; `used_later` = live before "
        "every successor on all small cases; every call-node kind visits its arguments and hands borrows back on every path; "
        "statements and branch predicates of every block are traversed; check_cfg always runs the linearity check and returns "
        "its result; the borrow-shadow check covers every place in an assignment target. Soundness/completeness of the "
        "place-based liveness argument as a whole is not decided.",
        "Trusted: ast parser; lexical guard extraction (if/elif/else, early exits, walrus) as the exact condition for reaching a raise.",
        "abstract interpretation of the per-block visitors (places, calls, nested definitions, comprehensions, assignment targets) and of check_cfg_linearity on model CFGs with the real Scope methods + guard truth tables + must-call pairing on the CFG",
        "DESIGN §5 C06",
    ),
    "C07": (
        "other",
        "Decides the write-back pairing clause: every call compiler adds the call operation and then reaches "
        "_update_inout_ports with the same arguments on every normal path; _update_inout_ports, interpreted on all argument "
        "lists up to length 3 over {not borrowed, borrowed place, borrowed subscripted place, borrowed non-place}, binds the "
        "k-th borrowed input to the k-th extra port, compiles the __setitem__ write-back for subscripted places and leaves no "
        "port over; the HUGR signature appends exactly the borrowed inputs to the outputs; subscript indices are compiled "
        "once; comptime tracing writes borrowed values back. The value the caller observes at run time is not decided.",
        "Trusted: ast parser, gsa/absint/pyeval.py; DFContainer's own bookkeeping (dfg[subscript] follows dfg[place]) is assumed.",
        "must-call pairing on the CFG + abstract evaluation of the port assignment on all small cases",
        "DESIGN §5 C07",
    ),
    "C05": (
        "other",
        "Decides structural clauses: (1) 'each operand at most once, in order, short-circuit operands behind their test' for "
        "chained comparisons (3-4 operands), and/or (2-4), conditional expressions and `not`, by abstractly interpreting the "
        "builder's desugaring code on symbolic operands and comparing the recorded build events with Python's evaluation order; "
        "the AugAssign rewrite that duplicates its target (known finding); (2) the ordering mechanism is in place (side-effect "
        "op list, calls count, every body compiled under the tracker, tracker chains nodes in insertion order and restores the "
        "patch); (3) short-circuit forms cannot reach the eager expression checker/compiler; (4) compilers visit node parts in "
        "field order. The order edges of the emitted HUGR and behaviour after a panic are not decided.",
        "Trusted: ast parser, gsa/absint/pyeval.py with recording hooks for the block/branch primitives (new_bb, link, build, "
        "_tmp_assign); ExprBuilder.build is modelled as building every operand inside the expression once, in place.",
        "abstract interpretation of desugaring code over symbolic operands, then simulation of the recorded block graph for every truth assignment of the branch predicates against Python's evaluation order + membership/must-call rules",
        "DESIGN §5 C05",
    ),
    "C01": (
        "other",
        "Does NOT decide HUGR validity of compiler output. Decides necessary structural clauses: (1) every node class a stage "
        "can construct has a handler in the next stage (visitor that is not a bare internal-error stub, `_assign` overload, or a "
        "reviewed carrier node) -- otherwise an accepted program dies with an internal compiler error; (2) pipeline must-calls "
        "(analysis before block checking, linearity and unitary checks, drops inserted after all bodies are compiled); (3) the "
        "output partition of a branching block (branch-sum vs regular outputs) is complete, disjoint and agrees with the "
        "variable sort order, by a 4-row truth table over (copyable, droppable); (4) return variables are prepended to the exit "
        "row and every predecessor row alike; (5) DFContainer pack/unpack of struct/tuple places, interpreted on 28 symbolic "
        "place shapes (nesting <= 2, every linear/non-linear leaf mix): only leaves bound after a store, pack mirrors unpack in "
        "order and types, no linear leaf stays bound after packing, re-assignment drops the cached aggregate wire; (6) the tail of "
        "compile_bb that computes the block outputs, interpreted on 288 symbolic signatures (1-2 successors, rows over variables of "
        "every copy/drop class in two source orders): what the block passes to successor i is exactly sort_vars(output_rows[i]), "
        "the order in which that successor declares its inputs.",
        "Trusted: ast parser, gsa/absint/pyeval.py; the HUGR builder is modelled as a recorder of (op, inputs, outputs).",
        "stage-to-stage set inclusion (emitted node classes vs handlers) + abstract interpretation of compile_bb / sort_vars (outputs vs successor inputs, total variable order) and of place wiring",
        "DESIGN §5 C01",
    ),
}

NOT_APPLICABLE: dict[str, str] = {
    "C02": "'no non-Guppy exception escapes for any program' needs feasibility of value-dependent assert/index/lookup failures across dynamically dispatched visitors; no sound exception-flow argument is in reach statically. The decidable part (fallbacks reject) is claimed under C32.",
    "C03": "equality of emulator output with CPython output over all programs/inputs is a relation between run-time value streams; no clause is visible in code shape without freezing source fragments of the CFG builder.",
    "C04": "numeric results of HUGR int/float ops for all operand values are semantics of an external op set; an op-name table check would be a proxy, not a necessary condition that can be stated exactly.",
    "C18": "the yielded sequence of range() is arithmetic over run-time 64-bit values (incl. wrap-around near +-2^63).",
    "C19": "bounds/alias panics are behaviour of HUGR borrow-array ops on run-time indices.",
    "C20": "gate matrices/statevectors are numerical results of an external simulator.",
    "C25": "which modifier ops are emitted, in which order and arity, is the output of compilation; cannot be settled without running compile, which this sandbox cannot do for /repo's sources.",
    "C26": "circuit equivalence with pytket is a numerical/unitary relation.",
    "C27": "LIFO / heap order over operation histories is run-time data-structure behaviour; the capacity/emptiness guards are not necessary conditions (array bounds panics catch the same cases).",
    "C31": "print/parse round-trip equality is a relation between two functions' run-time values.",
}

PENDING_REASON = "static check designed (DESIGN.md §5) but not built yet in this tree; not claimed until it is."

ALL = [f"C{n:02d}" for n in range(1, 34)]


def _rule_lines(pid: str) -> str:
    """'R-Cxx.n first sentence; …' extracted from the docstrings of gsa/rules/<pid>.py and its helper modules."""
    import ast
    import re

    rules: dict[str, str] = {}
    rd = os.path.join(VERIF, "gsa", "rules")
    for fn in sorted(os.listdir(rd)):
        if not (fn == f"{pid}.py" or fn.lower().startswith(pid.lower() + "_")) or not fn.endswith(".py"):
            continue
        doc = ast.get_docstring(ast.parse(open(os.path.join(rd, fn)).read())) or ""
        for m in re.finditer(r"(R-(?:C\d\d\.\d+|SIB))\s+(.*?)(?=\n\s*R-(?:C\d\d\.\d+|SIB)\s|\n\n|\Z)", doc, re.S):
            rid, body = m.group(1), " ".join(m.group(2).split())
            first = re.split(r"(?<=[a-z\)\]`'])[.:;] ", body, maxsplit=1)[0]
            rules.setdefault(rid, first[:150])
    return "; ".join(f"{k} {v}" for k, v in sorted(rules.items()))


def build() -> dict:
    checks = []
    for pid in ALL:
        if pid not in CLAIMED:
            continue
        cat, text, note, tech, ref = CLAIMED[pid]
        # the complete list of rules (one line each) comes from the rule modules' docstrings, so that it cannot lag behind
        text = f"{text} Rules as built (details in {ref}): {_rule_lines(pid)}"
        checks.append({
            "property_id": pid,
            "quick_cmd": f"{PY} -m gsa.check {pid} --tier quick",
            "thorough_cmd": f"{PY} -m gsa.check {pid} --tier thorough",
            "evidence_file": f"/verif/evidence/{pid}.json",
            "replay_cmd_template": f"{PY} -m gsa.check {pid} --replay {{path}}",
            "engine": "gsa",
            "level_claimed": {"category": cat, "text": text, "design_ref": ref},
            "level_note": note,
            "technique": tech,
        })
    na = []
    for pid in ALL:
        if pid in CLAIMED:
            continue
        na.append({"property_id": pid, "reason": NOT_APPLICABLE.get(pid, PENDING_REASON)})
    return {
        "version": 1,
        "setup_cmd": "true",
        "hooks": {
            "guard": "CQCL_GUPPYLANG_VERIF",
            "enable": "no hooks: every check parses /repo's working tree with `ast`; nothing in /repo is built, imported or executed",
            "baseline_off_cmd": "cd /repo && /venv/bin/python -m pytest -ra -q -p no:cacheprovider --timeout=900 --continue-on-collection-errors",
            "source_commits": [],
            "add_only": True,
        },
        "engines": [{
            "name": "gsa",
            "path": "/verif/gsa",
            "serves_properties": [c["property_id"] for c in checks],
            "kind_free_text": "repository-specific static analyser: ast index + call resolution, per-function CFG with path queries, "
                              "finite-domain abstract evaluators, sibling/table agreement rules; stdlib only, run with /venv/bin/python",
        }],
        "checks": checks,
        "not_applicable": na,
        "notes": "All checks are static (ast). /repo's sources are not importable in this sandbox (site-packages holds guppylang 1.0.4); see DESIGN.md §1.",
    }


if __name__ == "__main__":
    m = build()
    with open(os.path.join(VERIF, "MANIFEST.json"), "w") as f:
        json.dump(m, f, indent=1)
        f.write("\n")
    print(f"MANIFEST.json: {len(m['checks'])} checks, {len(m['not_applicable'])} not applicable")
