"""Which expressions are *unordered collections* (sets / frozensets / set-like views), and
is their iteration order observable?  (engine of C10)

Kind inference is annotation-driven and local:
  displays/comprehensions/constructors, set operators (also on dict views: `d.keys() | e.keys()`
  is a set), names with a set annotation or a set-valued assignment in the same function,
  parameters, attributes whose class-level annotation is a set in every repo class that
  declares an attribute of that name, calls to repo functions/methods whose return
  annotation is a set (methods: receiver class from annotations, or the method name if every
  repo definition of it returns a set).
"""

from __future__ import annotations

import ast
from dataclasses import dataclass

from .index import ClassInfo, FuncInfo, SourceIndex, call_name, dotted, walk_no_nested

SET_HEADS = {"set", "frozenset", "Set", "FrozenSet", "AbstractSet", "MutableSet", "KeysView", "ItemsView"}
SET_METHODS_RET_SET = {"union", "intersection", "difference", "symmetric_difference", "copy"}
ORDER_FREE_CALLS = {"len", "bool", "any", "all", "sum", "min", "max", "sorted", "set", "frozenset", "isinstance", "id", "hash"}


def ann_is_set(a: ast.expr | None) -> bool:
    if a is None:
        return False
    if isinstance(a, ast.Constant) and isinstance(a.value, str):
        try:
            a = ast.parse(a.value, mode="eval").body
        except SyntaxError:
            return False
    if isinstance(a, ast.Subscript):
        return dotted(a.value).split(".")[-1] in SET_HEADS
    if isinstance(a, ast.BinOp) and isinstance(a.op, ast.BitOr):  # set[X] | None
        return ann_is_set(a.left) or ann_is_set(a.right)
    return dotted(a).split(".")[-1] in SET_HEADS


def ann_head_class(a: ast.expr | None) -> str:
    if a is None:
        return ""
    if isinstance(a, ast.Constant) and isinstance(a.value, str):
        try:
            a = ast.parse(a.value, mode="eval").body
        except SyntaxError:
            return ""
    if isinstance(a, ast.Subscript):
        a = a.value
    return dotted(a).split(".")[-1]


class Kinds:
    def __init__(self, idx: SourceIndex):
        self.idx = idx
        # type aliases that denote sets:  DefAssignmentDomain = set[VId]
        self.set_aliases: set[str] = set()
        for m in idx.modules.values():
            for st in m.tree.body:
                if isinstance(st, ast.Assign) and len(st.targets) == 1 and isinstance(st.targets[0], ast.Name) and ann_is_set(st.value) \
                        and isinstance(st.value, ast.Subscript):
                    self.set_aliases.add(st.targets[0].id)
                if isinstance(st, ast.AnnAssign) and isinstance(st.target, ast.Name) and dotted(st.annotation).endswith("TypeAlias") \
                        and st.value is not None and ann_is_set(st.value):
                    self.set_aliases.add(st.target.id)
        # attribute name -> is a set in every class that annotates it
        attr_votes: dict[str, list[bool]] = {}
        self.attr_class: dict[str, set[str]] = {}
        for c in idx.classes.values():
            for st in c.node.body:
                if isinstance(st, ast.AnnAssign) and isinstance(st.target, ast.Name):
                    attr_votes.setdefault(st.target.id, []).append(self.is_set_ann(st.annotation))
                    self.attr_class.setdefault(st.target.id, set()).add(ann_head_class(st.annotation))
        self.set_attrs = {a for a, v in attr_votes.items() if v and all(v)}
        # function / method name -> all definitions return a set
        ret_votes: dict[str, list[bool]] = {}
        for f in idx.funcs.values():
            if f.node.returns is not None:
                ret_votes.setdefault(f.node.name, []).append(self.is_set_ann(f.node.returns))
        # names that are also methods of builtin containers are never resolved by name alone
        builtin_methods = {"keys", "values", "items", "copy", "get", "pop", "union", "intersection", "difference", "update", "add"}
        self.set_returning = {n for n, v in ret_votes.items() if v and all(v)} - builtin_methods
        self.sometimes_set_returning = {n for n, v in ret_votes.items() if any(v) and not all(v)}

    def is_set_ann(self, a: ast.expr | None) -> bool:
        if ann_is_set(a):
            return True
        return a is not None and ann_head_class(a) in self.set_aliases

    def local_env(self, f: FuncInfo) -> dict[str, str]:
        """name -> 'set' | class name (for receivers)"""
        env: dict[str, str] = {}
        for a in f.node.args.posonlyargs + f.node.args.args + f.node.args.kwonlyargs:
            if self.is_set_ann(a.annotation):
                env[a.arg] = "set"
            elif a.annotation is not None:
                h = ann_head_class(a.annotation)
                if h:
                    env[a.arg] = "cls:" + h
        if f.cls is not None and f.node.args.args and f.node.args.args[0].arg == "self":
            env["self"] = "cls:" + f.cls.name
        for _ in range(3):
            for n in walk_no_nested(f.node):
                if isinstance(n, ast.AnnAssign) and isinstance(n.target, ast.Name):
                    if self.is_set_ann(n.annotation):
                        env[n.target.id] = "set"
                elif isinstance(n, ast.Assign) and len(n.targets) == 1 and isinstance(n.targets[0], ast.Name):
                    if self.kind(n.value, env, f) == "set":
                        env.setdefault(n.targets[0].id, "set")
                elif isinstance(n, ast.AugAssign) and isinstance(n.target, ast.Name) and isinstance(n.op, (ast.BitOr, ast.BitAnd, ast.Sub)):
                    if self.kind(n.value, env, f) == "set":
                        env.setdefault(n.target.id, "set")
                elif isinstance(n, ast.NamedExpr) and isinstance(n.target, ast.Name):
                    if self.kind(n.value, env, f) == "set":
                        env.setdefault(n.target.id, "set")
        return env

    def recv_class(self, e: ast.expr, env: dict[str, str]) -> str:
        if isinstance(e, ast.Name):
            v = env.get(e.id, "")
            return v[4:] if v.startswith("cls:") else ""
        if isinstance(e, ast.Attribute):
            cs = self.attr_class.get(e.attr, set()) - {""}
            return next(iter(cs)) if len(cs) == 1 else ""
        return ""

    def kind(self, e: ast.expr, env: dict[str, str], f: FuncInfo) -> str:
        if isinstance(e, (ast.Set, ast.SetComp)):
            return "set"
        if isinstance(e, ast.Name):
            return "set" if env.get(e.id) == "set" else ""
        if isinstance(e, ast.Attribute):
            return "set" if e.attr in self.set_attrs else ""
        if isinstance(e, ast.BinOp) and isinstance(e.op, (ast.BitOr, ast.BitAnd, ast.Sub, ast.BitXor)):
            for side in (e.left, e.right):
                if self.kind(side, env, f) == "set" or self.is_dict_view(side):
                    return "set"
            return ""
        if isinstance(e, ast.IfExp):
            return "set" if "set" in (self.kind(e.body, env, f), self.kind(e.orelse, env, f)) else ""
        if isinstance(e, ast.Call):
            n = dotted(e.func)
            last = n.split(".")[-1] if n else call_name(e)
            if n in ("set", "frozenset") or n.startswith(("set.", "frozenset.")) and last in SET_METHODS_RET_SET:
                return "set"
            if isinstance(e.func, ast.Attribute):
                if last in SET_METHODS_RET_SET and self.kind(e.func.value, env, f) == "set":
                    return "set"
                # method with a set return annotation
                rc = self.recv_class(e.func.value, env)
                if rc:
                    c = self.idx.opt_class(rc)
                    if c is not None:
                        m = c.find_method(last)
                        if m is not None and m.node.returns is not None:
                            return "set" if self.is_set_ann(m.node.returns) else ""
                if last in self.set_returning:
                    return "set"
                return ""
            if isinstance(e.func, ast.Name):
                q = self.idx.resolve_name(f.module, e.func.id)
                g = self.idx.funcs.get(q)
                if g is not None and g.node.returns is not None:
                    return "set" if self.is_set_ann(g.node.returns) else ""
                if e.func.id in self.set_returning:
                    return "set"
        return ""

    @staticmethod
    def is_dict_view(e: ast.expr) -> bool:
        return isinstance(e, ast.Call) and isinstance(e.func, ast.Attribute) and e.func.attr in ("keys", "items") and not e.args


@dataclass
class Consumer:
    func: FuncInfo
    expr: ast.expr  # the unordered expression
    how: str  # for-loop | comprehension | pop | next-iter | list() | join | unpack | arg:<callee> | ...
    site: ast.AST
    order_sensitive: bool
    why: str

    @property
    def key(self) -> str:
        return f"{self.func.qualname}#{self.how}({ast.unparse(self.expr)[:60]})"

    @property
    def where(self) -> str:
        return f"{self.func.module.rel}:{getattr(self.site, 'lineno', 0)}"


def body_order_effects(body: list[ast.stmt], loop_var_names: set[str]) -> list[str]:
    """Why the order in which `body` runs for the elements is observable (empty = order-free)."""
    why: list[str] = []
    for st in body:
        for n in walk_no_nested(st):
            if isinstance(n, ast.Raise):
                why.append(f"raise@{n.lineno} (which element fails first is reported)")
            elif isinstance(n, ast.Return):
                why.append(f"return@{n.lineno}")
            elif isinstance(n, ast.Break):
                why.append(f"break@{n.lineno}")
            elif isinstance(n, (ast.Yield, ast.YieldFrom)):
                why.append(f"yield@{n.lineno}")
            elif isinstance(n, ast.Call) and isinstance(n.func, ast.Attribute) and n.func.attr in ("append", "extend", "insert", "appendleft"):
                why.append(f"{ast.unparse(n.func)}@{n.lineno} (list order)")
            elif isinstance(n, ast.Assign) and any(isinstance(t, ast.Subscript) for t in n.targets):
                why.append(f"item store `{ast.unparse(n.targets[0])[:30]}`@{n.lineno} (dict insertion order)")
            elif isinstance(n, ast.Call) and isinstance(n.func, ast.Attribute) and n.func.attr in ("setdefault",):
                why.append(f"setdefault@{n.lineno} (dict insertion order)")
            elif isinstance(n, ast.Call) and call_name(n) in ("print", "write"):
                why.append(f"output@{n.lineno}")
    return why


def consumers(idx: SourceIndex, kinds: Kinds, prefixes: tuple[str, ...]) -> list[Consumer]:
    out: list[Consumer] = []
    for f in idx.iter_funcs(prefixes):
        env = kinds.local_env(f)
        parents: dict[int, ast.AST] = {}
        for n in walk_no_nested(f.node):
            for ch in ast.iter_child_nodes(n):
                parents[id(ch)] = n

        def is_set(e: ast.expr) -> bool:
            return kinds.kind(e, env, f) == "set"

        for n in walk_no_nested(f.node):
            if isinstance(n, (ast.For, ast.AsyncFor)) and is_set(n.iter):
                why = body_order_effects(n.body, set())
                out.append(Consumer(f, n.iter, "for-loop", n, bool(why), "; ".join(why[:3]) or "body only has order-independent effects"))
            if isinstance(n, (ast.ListComp, ast.GeneratorExp, ast.DictComp, ast.SetComp)):
                for g in n.generators:
                    if is_set(g.iter):
                        p = parents.get(id(n))
                        sens, why = True, f"{type(n).__name__} keeps iteration order"
                        if isinstance(n, ast.SetComp):
                            sens, why = False, "builds a set"
                        elif isinstance(p, ast.Call) and call_name(p) in ORDER_FREE_CALLS | {"union", "intersection", "update", "issubset", "issuperset", "difference"}:
                            sens, why = False, f"consumed by {call_name(p)}()"
                        elif isinstance(p, ast.Starred):
                            pp = parents.get(id(p))
                            if isinstance(pp, ast.Call) and (call_name(pp) in ORDER_FREE_CALLS | {"union", "intersection"} or dotted(pp.func).startswith("set.")):
                                sens, why = False, f"splatted into {ast.unparse(pp.func)}()"
                        out.append(Consumer(f, g.iter, "comprehension", n, sens, why))
            if isinstance(n, ast.Call):
                cn = call_name(n)
                if isinstance(n.func, ast.Attribute) and cn == "pop" and not n.args and is_set(n.func.value):
                    out.append(Consumer(f, n.func.value, "pop", n, True, "set.pop() removes an arbitrary element"))
                if cn == "next" and n.args and isinstance(n.args[0], ast.Call) and call_name(n.args[0]) == "iter" and n.args[0].args and is_set(n.args[0].args[0]):
                    out.append(Consumer(f, n.args[0].args[0], "next-iter", n, True, "first element in hash order"))
                if cn in ("list", "tuple", "enumerate", "zip", "reversed", "iter") and isinstance(n.func, ast.Name) and n.args and is_set(n.args[0]):
                    p = parents.get(id(n))
                    if not (cn == "iter" and isinstance(p, ast.Call) and call_name(p) == "next"):
                        out.append(Consumer(f, n.args[0], f"{cn}()", n, True, "materialises hash order"))
                if cn == "join" and n.args and is_set(n.args[0]):
                    out.append(Consumer(f, n.args[0], "join", n, True, "string built in hash order"))
                if isinstance(n.func, ast.Attribute) and n.func.attr in ("extend", "extendleft") and len(n.args) == 1 and is_set(n.args[0]):
                    out.append(Consumer(f, n.args[0], f"{n.func.attr}()", n, True, "sequence extended in hash order"))
                if cn in ORDER_FREE_CALLS and n.args and is_set(n.args[0]):
                    out.append(Consumer(f, n.args[0], f"{cn}()", n, False, "order-independent reduction"))
            if isinstance(n, ast.Starred) and is_set(n.value):
                p = parents.get(id(n))
                ok = isinstance(p, ast.Call) and (call_name(p) in ORDER_FREE_CALLS or dotted(p.func).startswith(("set.", "frozenset.")))
                out.append(Consumer(f, n.value, "splat", n, not ok, "unpacked in hash order" if not ok else "splatted into an order-free call"))
            if isinstance(n, ast.Assign) and isinstance(n.targets[0], (ast.Tuple, ast.List)) and is_set(n.value):
                out.append(Consumer(f, n.value, "unpack", n, True, "destructured in hash order"))
            # `seq += <set>`: sets have no `+`, so the target is a list/deque that is extended in hash order
            if isinstance(n, ast.AugAssign) and isinstance(n.op, ast.Add) and is_set(n.value):
                out.append(Consumer(f, n.value, "+=", n, True, "sequence extended in hash order"))
    return out
