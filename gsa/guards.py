"""Lexical guard extraction: under which branch conditions does a statement execute?

Covers the repo's idioms: nested `if`/`elif`/`else`, and early exits
(`if c: raise/return/continue/break` earlier in the same block puts `not c` on
everything after it).  The result is a *necessary* condition for reaching the target
(a conjunction of (test, polarity) pairs), evaluated with truth tables where unknown
leaves are opaque atoms.
"""

from __future__ import annotations

import ast
import itertools
from typing import Callable

from .flow import CFG

Guard = tuple[ast.expr, bool]


def falls_through(stmts: list[ast.stmt]) -> bool:
    """Can control reach the statement that FOLLOWS this list?  (`return` leaves the function: it does not fall through,
    although it reaches the CFG's normal exit -- hence the sentinel.)"""
    sentinel = ast.Pass()
    g = CFG(body=[*stmts, sentinel])
    reach = g.reachable(g.entry)
    return any(n.ast is sentinel and n.id in reach for n in g.nodes)


def _contains(node: ast.AST, target: ast.AST) -> bool:
    return any(x is target for x in ast.walk(node))


def lexical_guards(fn: ast.AST, target: ast.AST) -> list[Guard] | None:
    """Guards of `target` inside function (or statement list owner) `fn`.
    None if the target is not found."""

    def in_block(stmts: list[ast.stmt], acc: list[Guard]) -> list[Guard] | None:
        acc = list(acc)
        for st in stmts:
            if _contains(st, target):
                return in_stmt(st, acc)
            # early exits before the target
            if isinstance(st, ast.If):
                body_ft = falls_through(st.body)
                else_ft = falls_through(st.orelse) if st.orelse else True
                if not body_ft and else_ft:
                    acc.append((st.test, False))
                elif body_ft and not else_ft:
                    acc.append((st.test, True))
        return None

    def in_stmt(st: ast.stmt, acc: list[Guard]) -> list[Guard] | None:
        if isinstance(st, ast.If):
            if _contains(st.test, target):
                return acc
            for b, pol in ((st.body, True), (st.orelse, False)):
                if any(_contains(s, target) for s in b):
                    return in_block(b, [*acc, (st.test, pol)])
            return acc
        if isinstance(st, (ast.For, ast.AsyncFor, ast.While, ast.With, ast.AsyncWith)):
            for b in (st.body, getattr(st, "orelse", [])):
                if any(_contains(s, target) for s in b):
                    extra: list[Guard] = []
                    if isinstance(st, ast.While) and b is st.body:
                        # the loop test holds at the top of the body only if nothing in the
                        # body before the target changes it: keep it as an opaque guard only
                        # when the target is the first statement
                        pass
                    return in_block(b, acc + extra)
            return acc
        if isinstance(st, ast.Try):
            for b in (st.body, st.orelse, st.finalbody, *[h.body for h in st.handlers]):
                if any(_contains(s, target) for s in b):
                    return in_block(b, acc)
            return acc
        if isinstance(st, ast.Match):
            for case in st.cases:
                if any(_contains(s, target) for s in case.body):
                    g = ast.Constant(value=f"<match {ast.unparse(st.subject)} case {ast.unparse(case.pattern)}>")
                    gs = [*acc, (g, True)]
                    if case.guard is not None:
                        gs.append((case.guard, True))
                    return in_block(case.body, gs)
            return acc
        if isinstance(st, (ast.FunctionDef, ast.AsyncFunctionDef, ast.ClassDef)):
            return in_block(st.body, acc)
        return acc

    body = fn.body if hasattr(fn, "body") else []
    return in_block(body, [])


def generic_atomizer(known: Callable[[ast.expr], str | None]) -> Callable[[ast.expr], str | None]:
    """known atoms first; then any non-boolean-structure leaf becomes an opaque atom."""

    def f(x: ast.expr) -> str | None:
        # `(name := expr)` tests expr (and binds name: the copy propagation of raise_condition_table sees the binding)
        while isinstance(x, ast.NamedExpr):
            x = x.value
        k = known(x)
        if k is not None:
            return k
        if isinstance(x, ast.BoolOp) or (isinstance(x, ast.UnaryOp) and isinstance(x.op, ast.Not)) or isinstance(x, ast.IfExp):
            return None
        if isinstance(x, ast.Constant) and isinstance(x.value, bool):
            return None
        if isinstance(x, ast.Compare) and len(x.ops) == 1 and isinstance(x.comparators[0], ast.Constant) \
                and isinstance(x.comparators[0].value, (bool, type(None))) and known(x.left) is not None:
            return None
        return "?" + ast.unparse(x)

    return f


def guards_imply(guards: list[Guard], known: Callable[[ast.expr], str | None],
                 conclusion: Callable[[dict[str, bool]], bool]) -> tuple[bool, list[dict]]:
    """For all assignments: (all guards hold) -> conclusion(env). Unknown leaves are free atoms."""
    from .absint.booltab import atoms_of, evaluate

    atomize = generic_atomizer(known)
    names: list[str] = []
    for e, _ in guards:
        for a in atoms_of(e, atomize):
            if a not in names:
                names.append(a)
    if len(names) > 14:
        raise ValueError("too many atoms")
    bad = []
    for vals in itertools.product([False, True], repeat=len(names)):
        env = dict(zip(names, vals))
        if all(evaluate(e, env, atomize) == pol for e, pol in guards):
            if not conclusion(env):
                bad.append({k: v for k, v in env.items() if not k.startswith("?")})
    return (not bad, bad[:4])


def raise_condition_table(fn: ast.AST, raises: list[ast.AST], atoms: list[str],
                          known: Callable[[ast.expr], "str | None"]) -> dict[tuple[bool, ...], str]:
    """For every assignment of the named atoms: is one of `raises` (raise statements, or any
    other statements whose reachability is asked) reached 'always', 'never' or 'sometimes',
    where the quantification is over all valuations of the *unknown* guard atoms.

    `known(expr)` names an atom as '+name' / '-name' (negated).  Guards are the lexical guards
    of each statement (if/elif/else nesting plus early exits)."""
    from .absint.booltab import atoms_of, evaluate

    # copy propagation for names bound exactly once in `fn` (`used = scope.used(x)` ... `if used and ...`), so that
    # a test spelled through a local means the same atom as the test spelled inline
    binds: dict[str, list[ast.expr | None]] = {}
    for n in ast.walk(fn):
        if isinstance(n, ast.Assign) and len(n.targets) == 1 and isinstance(n.targets[0], ast.Name):
            binds.setdefault(n.targets[0].id, []).append(n.value)
        elif isinstance(n, ast.NamedExpr) and isinstance(n.target, ast.Name):
            binds.setdefault(n.target.id, []).append(n.value)
        elif isinstance(n, ast.Name) and isinstance(n.ctx, (ast.Store, ast.Del)):
            binds.setdefault(n.id, []).append(None)
    # an ast.Assign target is also seen as a Store name: a single binding shows up as [value, None]
    single = {k: v[0] if v[0] is not None else v[1] for k, v in binds.items() if len(v) == 2 and (v[0] is None) != (v[1] is None)}
    known0 = known

    def known(x: ast.expr, _depth: int = 0):  # noqa: F811
        k = known0(x)
        if k is None and isinstance(x, ast.Name) and x.id in single and _depth < 4:
            return known(single[x.id], _depth + 1)
        return k

    atomize = generic_atomizer(known)
    per_raise = []
    free: list[str] = []
    extra: list[str] = []
    for r in raises:
        gs = lexical_guards(fn, r) or []
        per_raise.append(gs)
        for e, _ in gs:
            for a in atoms_of(e, atomize):
                if a.startswith("?") and a not in free:
                    free.append(a)
                elif not a.startswith("?") and a[1:] not in atoms and a[1:] not in extra:
                    extra.append(a[1:])  # a recognised atom the caller did not ask about: quantified like an unknown one
    if len(free) + len(extra) > 10:
        raise ValueError("too many unknown guard atoms")
    out: dict[tuple[bool, ...], str] = {}
    for vals in itertools.product([False, True], repeat=len(atoms)):
        env0 = dict(zip(atoms, vals))
        reached = []
        for fv in itertools.product([False, True], repeat=len(free) + len(extra)):
            env = dict(zip(free, fv))
            for x, v in zip(extra, fv[len(free):]):
                env["+" + x], env["-" + x] = v, not v
            hit = False
            for gs in per_raise:
                ok = True
                for e, pol in gs:
                    names = atoms_of(e, atomize)
                    for n in names:
                        if not n.startswith("?") and n not in env:
                            env[n] = env0[n[1:]] if n[0] == "+" else (not env0[n[1:]])
                    if evaluate(e, env, atomize) != pol:
                        ok = False
                        break
                if ok:
                    hit = True
                    break
            reached.append(hit)
        out[vals] = "always" if all(reached) else ("never" if not any(reached) else "sometimes")
    return out
