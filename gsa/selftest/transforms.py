"""Mechanical behaviour-preserving transformations of a whole source tree (used by the self-test and by tools/*.py).

Each one rewrites every *.py file below a root IN PLACE with `ast.unparse`:

  rename    every local variable of every function gets a suffix (parameters, attributes, keywords, globals, imports keep their
            names; names re-bound as parameters / class attributes of nested scopes or declared global/nonlocal are left alone)
  invert    `if c: A else: B` -> `if not c: B else: A`, `x if c else y` -> `y if not c else x`, and a function ending in
            `if c: A` gets a guard clause (`if not c: return` + A); `not c` is simplified for ==, in, is and double negation
  temps     inside functions: `return E` -> `_ret_tmp1 = E; return _ret_tmp1`, `raise E` -> `_exc_tmp2 = E; raise _exc_tmp2`,
            `if C:` -> `_cond_tmp3 = C; if _cond_tmp3:` (never for `elif`; temporaries numbered per function)
  unmatch   `match` statements whose cases are simple (class patterns with keyword captures / constants, value patterns, `as`,
            capture-free alternatives, a final wildcard; no guards, sequences or positional sub-patterns) become isinstance / ==
            chains with explicit bindings
  walrus    `if (t := E):` -> `t = E; if t:`, also for the first operand of an `and` test
  else      an `if` whose body ends in return/raise/continue/break takes the following statements as its else branch; one that
            already has such an else releases it
  reorder   each run of consecutive undecorated methods of a class / undecorated top-level functions (not referenced by
            module-level code) is reversed

On /repo's HEAD each of them, and their composition, reproduces the same 458 of 484 golden error files as the unmodified sources
(tools/golden_replay.py) -- they do not change behaviour; a check that fires on one of them depends on how the code is spelled.
"""

from __future__ import annotations

import ast
import os

SCOPES = (ast.FunctionDef, ast.AsyncFunctionDef, ast.Lambda, ast.ClassDef)

def own_nodes(fn):
    """Nodes of the function's own scope (comprehensions included, nested defs/lambdas/classes not entered)."""
    todo = list(fn.body) if not isinstance(fn, ast.Lambda) else [fn.body]
    while todo:
        n = todo.pop()
        yield n
        if isinstance(n, SCOPES):
            # decorators, defaults and bases are evaluated in the enclosing scope
            if isinstance(n, ast.ClassDef):
                todo.extend(n.bases + [k.value for k in n.keywords] + n.decorator_list)
            else:
                a = n.args
                todo.extend(a.defaults + [d for d in a.kw_defaults if d is not None])
                if not isinstance(n, ast.Lambda):
                    todo.extend(n.decorator_list)
            continue
        todo.extend(ast.iter_child_nodes(n))


def params(fn) -> set[str]:
    a = fn.args
    out = {x.arg for x in a.posonlyargs + a.args + a.kwonlyargs}
    if a.vararg:
        out.add(a.vararg.arg)
    if a.kwarg:
        out.add(a.kwarg.arg)
    return out


def bound_here(fn) -> set[str]:
    out: set[str] = set()
    for n in own_nodes(fn):
        if isinstance(n, ast.Name) and isinstance(n.ctx, (ast.Store, ast.Del)):
            out.add(n.id)
        elif isinstance(n, ast.ExceptHandler) and n.name:
            out.add(n.name)
        elif isinstance(n, (ast.MatchAs, ast.MatchStar)) and n.name:
            out.add(n.name)
        elif isinstance(n, ast.MatchMapping) and n.rest:
            out.add(n.rest)
    return out


def excluded(fn) -> set[str]:
    """Names that must keep their spelling somewhere below: global/nonlocal declarations, parameters and class-level
    bindings of nested scopes, nested function/class names, imports."""
    out: set[str] = set()
    for n in ast.walk(fn):
        if isinstance(n, (ast.Global, ast.Nonlocal)):
            out.update(n.names)
        elif n is not fn and isinstance(n, (ast.FunctionDef, ast.AsyncFunctionDef, ast.Lambda)):
            out.update(params(n))
            if not isinstance(n, ast.Lambda):
                out.add(n.name)
        elif isinstance(n, ast.ClassDef):
            out.add(n.name)
            for m in ast.walk(n):
                if isinstance(m, ast.Name) and isinstance(m.ctx, ast.Store):
                    out.add(m.id)
        elif isinstance(n, (ast.Import, ast.ImportFrom)):
            out.update((a.asname or a.name).split(".")[0] for a in n.names)
        elif isinstance(n, ast.Call) and isinstance(n.func, ast.Name) and n.func.id in ("locals", "vars", "eval", "exec"):
            out.add("*")
    return out


class Renamer(ast.NodeTransformer):
    def __init__(self, names: set[str], suffix: str):
        self.names, self.suffix = names, suffix

    def _r(self, s):
        return s + self.suffix if s in self.names else s

    def visit_Name(self, n):
        n.id = self._r(n.id)
        return n

    def visit_ExceptHandler(self, n):
        if n.name:
            n.name = self._r(n.name)
        return self.generic_visit(n)

    def visit_MatchAs(self, n):
        if n.name:
            n.name = self._r(n.name)
        return self.generic_visit(n)

    def visit_MatchStar(self, n):
        if n.name:
            n.name = self._r(n.name)
        return n

    def visit_MatchMapping(self, n):
        if n.rest:
            n.rest = self._r(n.rest)
        return self.generic_visit(n)


def rename_module(tree: ast.Module, suffix: str) -> int:
    count = 0

    def outer_functions(node):
        for ch in ast.iter_child_nodes(node):
            if isinstance(ch, (ast.FunctionDef, ast.AsyncFunctionDef)):
                yield ch
            elif isinstance(ch, (ast.ClassDef, ast.If, ast.Try, ast.With)):
                yield from outer_functions(ch)

    for fn in outer_functions(tree):
        ex = excluded(fn)
        if "*" in ex:
            continue
        names = bound_here(fn) - params(fn) - ex
        # names bound by nested functions are renamed by the same pass when they are ALSO bound here; locals of nested
        # functions only are left alone (one level is enough for the measurement)
        names = {x for x in names if not x.startswith("__") and x != "_"}
        if not names:
            continue
        body_before = fn.body
        Renamer(names, suffix).visit(ast.Module(body=body_before, type_ignores=[]))
        # defaults/decorators of fn itself are outside its scope: untouched (only the body was visited)
        count += len(names)
    return count


FLIP = {ast.Eq: ast.NotEq, ast.NotEq: ast.Eq, ast.In: ast.NotIn, ast.NotIn: ast.In, ast.Is: ast.IsNot, ast.IsNot: ast.Is}


def negate(e: ast.expr) -> ast.expr:
    if isinstance(e, ast.UnaryOp) and isinstance(e.op, ast.Not):
        return e.operand
    if isinstance(e, ast.Compare) and len(e.ops) == 1 and type(e.ops[0]) in FLIP:
        return ast.Compare(left=e.left, ops=[FLIP[type(e.ops[0])]()], comparators=e.comparators)
    return ast.UnaryOp(op=ast.Not(), operand=e)


def has_walrus(e: ast.AST) -> bool:
    return any(isinstance(x, ast.NamedExpr) for x in ast.walk(e))


class Inverter(ast.NodeTransformer):
    def __init__(self):
        self.count = 0

    def visit_If(self, node: ast.If):
        self.generic_visit(node)
        if node.orelse and not (len(node.orelse) == 1 and isinstance(node.orelse[0], ast.If)):
            self.count += 1
            return ast.If(test=negate(node.test), body=node.orelse, orelse=node.body)
        return node

    def visit_IfExp(self, node: ast.IfExp):
        self.generic_visit(node)
        self.count += 1
        return ast.IfExp(test=negate(node.test), body=node.orelse, orelse=node.body)

    def _function(self, node):
        self.generic_visit(node)
        last = node.body[-1] if node.body else None
        is_gen = any(isinstance(x, (ast.Yield, ast.YieldFrom)) for x in ast.walk(node))
        if isinstance(last, ast.If) and not last.orelse and len(node.body) > 0 and not is_gen and not has_walrus(last.test):
            self.count += 1
            guard = ast.If(test=negate(last.test), body=[ast.Return(value=None)], orelse=[])
            node.body = node.body[:-1] + [guard] + last.body
        return node

    visit_FunctionDef = _function
    visit_AsyncFunctionDef = _function


def reorder(body: list[ast.stmt], movable) -> int:
    """Reverses every maximal run of consecutive movable definitions (nothing is moved across another statement: annotations
    and defaults are evaluated when a `def` runs and may name things defined in between)."""
    moved = 0
    i = 0
    while i < len(body):
        j = i
        while j < len(body) and movable(body[j]):
            j += 1
        if j - i >= 2:
            body[i:j] = list(reversed(body[i:j]))
            moved += j - i
        i = max(j, i + 1)
    return moved




def _reorder_module(tree: ast.Module) -> int:
    k = 0
    for c in [n for n in ast.walk(tree) if isinstance(n, ast.ClassDef)]:
        names = [st.name for st in c.body if isinstance(st, (ast.FunctionDef, ast.AsyncFunctionDef))]
        if len(names) != len(set(names)):
            continue
        k += reorder(c.body, lambda st: isinstance(st, ast.FunctionDef) and not st.decorator_list)
    # names used by module-level code (decorator arguments, defaults, constants built from functions) stay put
    used_at_top: set[str] = set()
    for st in tree.body:
        if isinstance(st, (ast.FunctionDef, ast.AsyncFunctionDef, ast.ClassDef)):
            outer = list(st.decorator_list)
            if isinstance(st, ast.ClassDef):
                outer += st.bases + [b for b in st.body if not isinstance(b, (ast.FunctionDef, ast.AsyncFunctionDef))]
                outer += [d for b in st.body if isinstance(b, (ast.FunctionDef, ast.AsyncFunctionDef)) for d in b.decorator_list + b.args.defaults + [x for x in b.args.kw_defaults if x]]
            else:
                outer += st.args.defaults + [x for x in st.args.kw_defaults if x]
            for o in outer:
                used_at_top |= {x.id for x in ast.walk(o) if isinstance(x, ast.Name)}
        else:
            used_at_top |= {x.id for x in ast.walk(st) if isinstance(x, ast.Name)}
    k += reorder(tree.body, lambda st: isinstance(st, ast.FunctionDef) and not st.decorator_list and st.name not in used_at_top)
    return k


def _invert_module(tree: ast.Module) -> tuple[ast.Module, int]:
    inv = Inverter()
    tree = inv.visit(tree)
    ast.fix_missing_locations(tree)
    return tree, inv.count


class TempIntroducer(ast.NodeTransformer):
    """Inside functions: `return E` -> `_ret_tmp = E; return _ret_tmp`, `raise E` -> `_exc_tmp = E; raise _exc_tmp` (cause kept),
    `if C:` -> `_cond_tmp = C; if _cond_tmp:` (not for `elif`, whose test must stay behind the earlier tests)."""

    def __init__(self):
        self.count = 0
        self.depth = 0
        self.k = 0

    def _function(self, node):
        self.depth += 1
        k, self.k = self.k, 0  # temporaries are numbered per function: every one is assigned once
        node.body = self._block(node.body)
        self.k = k
        self.depth -= 1
        return node

    def _tmp(self, stem: str) -> str:
        self.k += 1
        return f"_{stem}_tmp{self.k}"

    visit_FunctionDef = _function
    visit_AsyncFunctionDef = _function

    def visit_Lambda(self, node):
        return node

    def visit_ClassDef(self, node):
        d, self.depth = self.depth, 0
        node.body = self._block(node.body)
        self.depth = d
        return node

    def _block(self, stmts: list[ast.stmt], elif_position: bool = False) -> list[ast.stmt]:
        out: list[ast.stmt] = []
        for i, st in enumerate(stmts):
            if isinstance(st, (ast.FunctionDef, ast.AsyncFunctionDef, ast.ClassDef)):
                out.append(self.visit(st))
                continue
            for f in ("body", "orelse", "finalbody"):
                sub = getattr(st, f, None)
                if isinstance(sub, list) and sub and isinstance(sub[0], ast.stmt):
                    is_elif = f == "orelse" and isinstance(st, ast.If) and len(sub) == 1 and isinstance(sub[0], ast.If)
                    setattr(st, f, self._block(sub, elif_position=is_elif))
            for h in getattr(st, "handlers", []) or []:
                h.body = self._block(h.body)
            for c in getattr(st, "cases", []) or []:
                c.body = self._block(c.body)
            if self.depth == 0:
                out.append(st)
                continue
            simple = (ast.Name, ast.Constant)
            if isinstance(st, ast.Return) and st.value is not None and not isinstance(st.value, simple):
                self.count += 1
                nm = self._tmp("ret")
                out += [ast.Assign(targets=[ast.Name(id=nm, ctx=ast.Store())], value=st.value), ast.Return(value=ast.Name(id=nm, ctx=ast.Load()))]
            elif isinstance(st, ast.Raise) and st.exc is not None and not isinstance(st.exc, simple):
                self.count += 1
                nm = self._tmp("exc")
                out += [ast.Assign(targets=[ast.Name(id=nm, ctx=ast.Store())], value=st.exc), ast.Raise(exc=ast.Name(id=nm, ctx=ast.Load()), cause=st.cause)]
            elif isinstance(st, ast.If) and not (elif_position and i == 0) and not isinstance(st.test, simple):
                self.count += 1
                nm = self._tmp("cond")
                out += [ast.Assign(targets=[ast.Name(id=nm, ctx=ast.Store())], value=st.test), ast.If(test=ast.Name(id=nm, ctx=ast.Load()), body=st.body, orelse=st.orelse)]
            else:
                out.append(st)
        return out


def _temps_module(tree: ast.Module) -> int:
    t = TempIntroducer()
    tree.body = t._block(tree.body)
    ast.fix_missing_locations(tree)
    return t.count


TERMINATORS = (ast.Return, ast.Raise, ast.Continue, ast.Break)


class ElseSwapper:
    """`if c: ...; return` followed by REST  <->  `if c: ...; return` `else: REST`.  An `if` whose body ends in return / raise /
    continue / break and that has no else swallows the statements after it as its else branch; one that has an else (not an elif
    chain) after such a body releases it.  Every site is flipped once."""

    def __init__(self):
        self.count = 0

    def block(self, stmts: list[ast.stmt]) -> list[ast.stmt]:
        out: list[ast.stmt] = []
        i = 0
        while i < len(stmts):
            st = stmts[i]
            for f in ("body", "orelse", "finalbody"):
                sub = getattr(st, f, None)
                if isinstance(sub, list) and sub and isinstance(sub[0], ast.stmt) and not (isinstance(st, ast.If) and f == "orelse" and len(sub) == 1 and isinstance(sub[0], ast.If)):
                    setattr(st, f, self.block(sub))
                elif isinstance(sub, list) and sub and isinstance(sub[0], ast.If) and f == "orelse":
                    sub[0].body = self.block(sub[0].body)  # elif chains: only their bodies
            for h in getattr(st, "handlers", []) or []:
                h.body = self.block(h.body)
            for c in getattr(st, "cases", []) or []:
                c.body = self.block(c.body)
            if isinstance(st, ast.If) and st.body and isinstance(st.body[-1], TERMINATORS):
                rest = stmts[i + 1:]
                if not st.orelse and rest and not any(isinstance(r, (ast.FunctionDef, ast.AsyncFunctionDef, ast.ClassDef, ast.Global, ast.Nonlocal)) for r in rest):
                    self.count += 1
                    st.orelse = self.block(rest)
                    out.append(st)
                    return out
                if st.orelse and not (len(st.orelse) == 1 and isinstance(st.orelse[0], ast.If)):
                    self.count += 1
                    released, st.orelse = st.orelse, []
                    out.append(st)
                    out.extend(released)
                    i += 1
                    continue
            out.append(st)
            i += 1
        return out


def _else_module(tree: ast.Module) -> int:
    sw = ElseSwapper()
    for fn in [n for n in ast.walk(tree) if isinstance(n, (ast.FunctionDef, ast.AsyncFunctionDef))]:
        fn.body = sw.block(fn.body)
    ast.fix_missing_locations(tree)
    return sw.count


class WalrusRemover:
    """`if (t := E):` -> `t = E; if t:` and `if (t := E) and REST:` -> `t = E; if t and REST:` (never for `elif` / `while`)."""

    def __init__(self):
        self.count = 0

    def block(self, stmts: list[ast.stmt], elif_position: bool = False) -> list[ast.stmt]:
        out: list[ast.stmt] = []
        for i, st in enumerate(stmts):
            for f in ("body", "orelse", "finalbody"):
                sub = getattr(st, f, None)
                if isinstance(sub, list) and sub and isinstance(sub[0], ast.stmt):
                    is_elif = f == "orelse" and isinstance(st, ast.If) and len(sub) == 1 and isinstance(sub[0], ast.If)
                    setattr(st, f, self.block(sub, elif_position=is_elif))
            for h in getattr(st, "handlers", []) or []:
                h.body = self.block(h.body)
            for c in getattr(st, "cases", []) or []:
                c.body = self.block(c.body)
            if isinstance(st, ast.If) and not (elif_position and i == 0):
                t = st.test
                first = t.values[0] if isinstance(t, ast.BoolOp) and isinstance(t.op, ast.And) else t
                if isinstance(first, ast.NamedExpr) and isinstance(first.target, ast.Name):
                    self.count += 1
                    out.append(ast.Assign(targets=[ast.Name(id=first.target.id, ctx=ast.Store())], value=first.value))
                    load = ast.Name(id=first.target.id, ctx=ast.Load())
                    if first is t:
                        st.test = load
                    else:
                        t.values[0] = load
            out.append(st)
        return out


def _walrus_module(tree: ast.Module) -> int:
    w = WalrusRemover()
    for fn in [n for n in ast.walk(tree) if isinstance(n, (ast.FunctionDef, ast.AsyncFunctionDef))]:
        fn.body = w.block(fn.body)
    ast.fix_missing_locations(tree)
    return w.count


class Unmatcher:
    """`match S: case P1: B1 ... case _: Bn`  ->  `if <test of P1 on S>: <bindings>; B1  elif ...  else: Bn`  for matches whose cases
    are all simple: class patterns with keyword sub-patterns that are captures, wildcards, constants, dotted names, None/True/False
    or bare class patterns; value patterns; `P as name`; alternatives of capture-free simple patterns; a final `_` / capture.
    Matches with guards, sequence / mapping / star patterns, positional class sub-patterns or deeper nesting are left alone."""

    class Skip(Exception):
        pass

    def __init__(self):
        self.count = 0
        self.k = 0

    def test_and_binds(self, pat: ast.pattern, subj: ast.expr, top: bool = True) -> tuple[ast.expr | None, list[ast.stmt]]:
        """(test or None if the pattern always matches, bindings)."""
        load = lambda e: e  # noqa: E731
        if isinstance(pat, ast.MatchAs):
            if pat.pattern is None:
                return None, ([] if pat.name is None else [ast.Assign(targets=[ast.Name(id=pat.name, ctx=ast.Store())], value=load(subj))])
            t, b = self.test_and_binds(pat.pattern, subj, top)
            return t, b + [ast.Assign(targets=[ast.Name(id=pat.name, ctx=ast.Store())], value=load(subj))]
        if isinstance(pat, ast.MatchValue):
            return ast.Compare(left=load(subj), ops=[ast.Eq()], comparators=[pat.value]), []
        if isinstance(pat, ast.MatchSingleton):
            return ast.Compare(left=load(subj), ops=[ast.Is()], comparators=[ast.Constant(value=pat.value)]), []
        if isinstance(pat, ast.MatchOr):
            tests = []
            for alt in pat.patterns:
                t, b = self.test_and_binds(alt, subj, top)
                if b or t is None:
                    raise self.Skip
                tests.append(t)
            return ast.BoolOp(op=ast.Or(), values=tests), []
        if isinstance(pat, ast.MatchClass):
            if pat.patterns:
                raise self.Skip  # positional sub-patterns need __match_args__
            tests: list[ast.expr] = [ast.Call(func=ast.Name(id="isinstance", ctx=ast.Load()), args=[load(subj), pat.cls], keywords=[])]
            binds: list[ast.stmt] = []
            for attr, sub in zip(pat.kwd_attrs, pat.kwd_patterns):
                field = ast.Attribute(value=load(subj), attr=attr, ctx=ast.Load())
                t, b = self.test_and_binds(sub, field, top=False)
                if t is not None:
                    tests.append(t)
                binds += b
            return (tests[0] if len(tests) == 1 else ast.BoolOp(op=ast.And(), values=tests)), binds
        raise self.Skip

    def convert(self, m: ast.Match) -> list[ast.stmt] | None:
        if any(c.guard is not None for c in m.cases):
            return None
        pre: list[ast.stmt] = []
        subj: ast.expr = m.subject
        if isinstance(subj, ast.Tuple) and all(isinstance(c.pattern, ast.MatchSequence) and len(c.pattern.patterns) == len(subj.elts)
                                               and not any(isinstance(x, ast.MatchStar) for x in c.pattern.patterns)
                                               or (isinstance(c.pattern, ast.MatchAs) and c.pattern.pattern is None and c.pattern.name is None) for c in m.cases):
            # `match a, b:` with `case P, Q:` arms: element-wise
            elems: list[ast.expr] = []
            for e in subj.elts:
                if isinstance(e, ast.Name):
                    elems.append(e)
                else:
                    self.k += 1
                    nm = f"_match_subject{self.k}"
                    pre.append(ast.Assign(targets=[ast.Name(id=nm, ctx=ast.Store())], value=e))
                    elems.append(ast.Name(id=nm, ctx=ast.Load()))
            try:
                arms = []
                for c in m.cases:
                    if isinstance(c.pattern, ast.MatchAs):
                        arms.append(((None, []), c.body))
                        continue
                    tests, binds = [], []
                    for sub, e in zip(c.pattern.patterns, elems):
                        t, b = self.test_and_binds(sub, e)
                        if t is not None:
                            tests.append(t)
                        binds += b
                    arms.append((((tests[0] if len(tests) == 1 else ast.BoolOp(op=ast.And(), values=tests)) if tests else None, binds), c.body))
            except self.Skip:
                return None
            if any(t is None for (t, _), _ in arms[:-1]):
                return None
            node: list[ast.stmt] = []
            for (t, binds), body in reversed(arms):
                blk = binds + body
                node = blk if t is None else [ast.If(test=t, body=blk, orelse=node)]
            self.count += 1
            return pre + node
        if not isinstance(subj, ast.Name):
            self.k += 1
            nm = f"_match_subject{self.k}"
            pre = [ast.Assign(targets=[ast.Name(id=nm, ctx=ast.Store())], value=subj)]
            subj = ast.Name(id=nm, ctx=ast.Load())
        try:
            arms = [(self.test_and_binds(c.pattern, subj), c.body) for c in m.cases]
        except self.Skip:
            return None
        # an irrefutable pattern may only be the last case
        if any(t is None for (t, _), _ in arms[:-1]):
            return None
        node: list[ast.stmt] = []
        for (t, binds), body in reversed(arms):
            blk = binds + body
            if t is None:
                node = blk
            else:
                node = [ast.If(test=t, body=blk, orelse=node)]
        self.count += 1
        return pre + node

    def block(self, stmts: list[ast.stmt]) -> list[ast.stmt]:
        out: list[ast.stmt] = []
        for st in stmts:
            for f in ("body", "orelse", "finalbody"):
                sub = getattr(st, f, None)
                if isinstance(sub, list) and sub and isinstance(sub[0], ast.stmt):
                    setattr(st, f, self.block(sub))
            for h in getattr(st, "handlers", []) or []:
                h.body = self.block(h.body)
            for c in getattr(st, "cases", []) or []:
                c.body = self.block(c.body)
            if isinstance(st, ast.Match):
                new = self.convert(st)
                if new is not None:
                    out.extend(new)
                    continue
            out.append(st)
        return out


def _unmatch_module(tree: ast.Module) -> int:
    u = Unmatcher()
    for fn in [n for n in ast.walk(tree) if isinstance(n, (ast.FunctionDef, ast.AsyncFunctionDef))]:
        u.k = 0
        fn.body = u.block(fn.body)
    ast.fix_missing_locations(tree)
    return u.count


def apply(root: str, which: tuple[str, ...], suffix: str = "_r") -> int:
    """Applies the named transformations (in the order reorder, invert, rename) to every *.py below `root`, in place."""
    total = 0
    for dp, _dn, fns in os.walk(root):
        for fn in fns:
            if not fn.endswith(".py"):
                continue
            p = os.path.join(dp, fn)
            try:
                tree = ast.parse(open(p, encoding="utf-8").read())
            except SyntaxError:
                continue
            k = 0
            if "reorder" in which:
                k += _reorder_module(tree)
            if "invert" in which:
                tree, n = _invert_module(tree)
                k += n
            if "unmatch" in which:
                k += _unmatch_module(tree)
            if "walrus" in which:
                k += _walrus_module(tree)
            if "else" in which:
                k += _else_module(tree)
            if "temps" in which:
                k += _temps_module(tree)
            if "rename" in which:
                k += rename_module(tree, suffix)
            if k:
                text = ast.unparse(tree) + "\n"
                compile(text, p, "exec")
                open(p, "w", encoding="utf-8").write(text)
                total += k
    return total
