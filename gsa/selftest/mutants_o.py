"""Variants that undo the repairs of the hunting rounds, one site each (format: see mutants.py).  Every one re-introduces a
genuine defect that a rule did not report before the round; the rule written for it must report the variant."""

I = "guppylang-internals/src/guppylang_internals/"
_ec = I + "checker/expr_checker.py"
_lc = I + "checker/linearity_checker.py"
_cc = I + "checker/cfg_checker.py"
_bld = I + "cfg/builder.py"
_cfgc = I + "compiler/cfg_compiler.py"
_chk = I + "std/_internal/checker.py"
_mock = I + "tracing/builtins_mock.py"
_state = I + "tracing/state.py"

M = {
    "C24": [
        ("a function tensor has no flags", I + "tys/ty.py",
         "    return FunctionType(inputs, row_to_type(outputs), unitary_flags=unitary_flags)", "    return FunctionType(inputs, row_to_type(outputs))", "R-C24.2"),
        ("a function tensor has the flags ANY component has", I + "tys/ty.py",
         "        unitary_flags &= fun_ty.unitary_flags", "        unitary_flags |= fun_ty.unitary_flags", "R-C24.2"),
        ("a bound-method value has no flags", _ec,
         "                unitary_flags=func.ty.unitary_flags,\n            )\n            return with_loc(node, PartialApply", "            )\n            return with_loc(node, PartialApply", "R-C24.2"),
        ("barrier does not look at its arguments", I + "checker/unitary_checker.py",
         "        # Barrier is always allowed, but its arguments still have to be checked\n        for arg in node.args:\n            self.visit(arg)", "        pass", "R-C24.8"),
    ],
    "C12": [
        ("transforming a function type drops its comptime arguments", I + "tys/ty.py",
         "            comptime_args=[\n                cast(ConstArg, arg.transform(transformer)) for arg in self.comptime_args\n            ],\n            unitary_flags=self.unitary_flags,\n        )\n\n    def instantiate_partial",
         "            unitary_flags=self.unitary_flags,\n        )\n\n    def instantiate_partial", "R-C12.7"),
        ("type_check_args merges the solutions of the arguments with |= again", _ec,
         "        a, s = ExprChecker(ctx).check(inp, func_inp.ty.substitute(subst), \"argument\")\n        subst = resolve_subst(subst | s)",
         "        a, s = ExprChecker(ctx).check(inp, func_inp.ty.substitute(subst), \"argument\")\n        subst |= s", "R-C12.8"),
        ("check_type_against hands back the unresolved solution", _ec,
         "            raise GuppyTypeError(TypeMismatchError(node, exp, act, kind))\n        subst = resolve_subst(subst)\n", "            raise GuppyTypeError(TypeMismatchError(node, exp, act, kind))\n", "R-C12.8"),
        ("benign: resolve_subst written with a while loop", _ec,
         "    for _ in subst:\n        if all(t.unsolved_vars.isdisjoint(subst) for t in subst.values()):\n            break\n        subst = {v: t.substitute(subst) for v, t in subst.items()}\n    return subst",
         "    rounds = 0\n    while rounds < len(subst) and not all(t.unsolved_vars.isdisjoint(subst) for t in subst.values()):\n        subst = {v: t.substitute(subst) for v, t in subst.items()}\n        rounds += 1\n    return subst", None),
    ],
    "C06": [
        ("a comprehension may consume a value it borrowed before", _lc,
         "                        if later_use is not None and not leaf.ty.copyable:", "                        if False and later_use is not None and not leaf.ty.copyable:", "R-C06.2"),
        ("nested def binds its name without the checks of an assignment", _lc,
         "        self._check_assign_targets([with_loc(node, PlaceNode(place=func_var))])", "        self.scope.assign(func_var)", "R-C06.2"),
        ("leak loop looks at shadowed places again", _lc,
         "                if x in scope.vars and scope.vars[x] is not leaf:\n                    continue\n", "", "R-C06.2"),
    ],
    "C08": [
        ("check_cfg forgets the dummy successors of blocks checked later", _cc,
         "                for i, succ in reverse_enumerate(bb.successors + bb.dummy_successors)\n            ]", "                for i, succ in reverse_enumerate(bb.successors)\n            ]", "R-C08.5"),
        ("check_cfg forgets the dummy successors of the entry block", _cc,
         "            cfg.entry_bb.successors + cfg.entry_bb.dummy_successors\n", "            cfg.entry_bb.successors\n", "R-C08.5"),
    ],
    "C17": [
        ("comprehension guards are copied verbatim", _bld,
         "            ifs=[builder.visit(cond) for cond in g.ifs],", "            ifs=g.ifs,", "R-C17.3"),
        ("comprehension element is not desugared", _bld,
         "    elt = builder.visit(elt)\n    return gens, elt", "    return gens, elt", "R-C17.3"),
    ],
    "C05": [
        ("the qsystem release operations are not side-effecting", I + "compiler/core.py",
         "        for op_name in (\"Measure\", \"QFree\", \"LazyMeasureLeaked\")", "        for op_name in ()", "R-C05.2"),
        ("callable(e) drops e again", _chk,
         "        if isinstance(arg, PlaceNode | GlobalName):\n            return const, bool_type()", "        if True:\n            return const, bool_type()", "R-C05.1"),
    ],
    "C21": [
        ("the int mock only recognises GuppyObject", _mock,
         "        if isinstance(x, GuppyObject | GuppyStructObject):\n            return x.__int__(*args, **kwargs)", "        if isinstance(x, GuppyObject):\n            return x.__int__(*args, **kwargs)", "R-C21.2"),
    ],
    "C11": [
        ("set_tracing_state restores only on normal exit", _state,
         "    try:\n        yield\n    finally:\n        _STATE.reset(token)", "    yield\n    _STATE.reset(token)", "R-C11.4"),
        ("temporaries are ordered by the spelling of their counter", _cfgc,
         "    return [int(part) if part.isdigit() else part for part in parts]", "    return [part for part in parts]", "R-C11.6"),
        ("benign: _name_key with a compiled pattern", _cfgc,
         "    parts = re.split(r\"(\\d+)\", str(place))", "    parts = re.split(\"([0-9]+)\", str(place))", None),
    ],
    "C01": [
        ("names that differ in leading zeros tie again", _cfgc,
         "    key1 = (p1.ty.linear, _name_key(p1), str(p1))\n    key2 = (p2.ty.linear, _name_key(p2), str(p2))", "    key1 = (p1.ty.linear, _name_key(p1))\n    key2 = (p2.ty.linear, _name_key(p2))", "R-C01.6"),
        ("regular outputs keep every non-droppable place again", _cfgc,
         "            outputs = [v for v in first if v.ty.linear]", "            outputs = [v for v in first if not v.ty.droppable]", "R-C01.6"),
        ("the guard of the branch sum refuses copyable non-droppable places", _cfgc,
         "    assert all(not v.ty.linear for var_row in output_vars for v in var_row)", "    assert all(v.ty.droppable for var_row in output_vars for v in var_row)", "R-C01.3"),
    ],
}
