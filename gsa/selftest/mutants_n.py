"""Variants for the rules re-based on interpretation after the local-renaming experiment (format: see mutants.py)."""

I = "guppylang-internals/src/guppylang_internals/"
_core = I + "compiler/core.py"

M = {
    "C05": [
        ("tracker: patched add_node not restored", _core,
         "    finally:\n        Hugr.add_node = hugr_add_node  # type: ignore[method-assign]", "    finally:\n        pass", "R-C05.2"),
        ("tracker: restore only on the normal path", _core,
         "            hugr.add_order_link(last, outp)\n    finally:\n        Hugr.add_node = hugr_add_node  # type: ignore[method-assign]",
         "            hugr.add_order_link(last, outp)\n        Hugr.add_node = hugr_add_node\n    finally:\n        pass", "R-C05.2"),
        ("tracker: every node is ordered (gate dropped)", _core,
         "        if may_have_side_effect(op):\n            handle_side_effect(new_node, self)", "        if True:\n            handle_side_effect(new_node, self)", "R-C05.2"),
        ("tracker: containers are not marked in their parent", _core,
         "            if not isinstance(hugr[parent].op, ops.FuncDefn):\n                handle_side_effect(parent, hugr)",
         "            if not isinstance(hugr[parent].op, ops.FuncDefn) and False:\n                handle_side_effect(parent, hugr)", "R-C05.2"),
        ("tracker: last side effect not linked to Output", _core,
         "            assert last != outp\n            hugr.add_order_link(last, outp)", "            assert last != outp", "R-C05.2"),
        ("tracker: links to the Input node every time", _core,
         "        if prev := prev_node_with_side_effect.get(parent):\n            prev_node = prev[0]\n        else:",
         "        if (prev := prev_node_with_side_effect.get(parent)) and False:\n            prev_node = prev[0]\n        else:", "R-C05.2"),
        ("tracker: link direction reversed", _core,
         "            hugr.add_order_link(prev_node, node)", "            hugr.add_order_link(node, prev_node)", "R-C05.2"),
        ("benign: tracker with renamed locals and a helper for the final links", _core,
         "        for parent, (last, hugr) in prev_node_with_side_effect.items():\n            # Connect the last side-effecting node to Output\n            outp = hugr.children(parent)[1]\n            assert isinstance(hugr[outp].op, ops.Output)\n            assert last != outp\n            hugr.add_order_link(last, outp)",
         "        for dfg_parent, (final_node, h) in prev_node_with_side_effect.items():\n            # Connect the last side-effecting node to Output\n            output_node = h.children(dfg_parent)[1]\n            assert isinstance(h[output_node].op, ops.Output)\n            assert final_node != output_node\n            h.add_order_link(final_node, output_node)", None),
    ],
}
