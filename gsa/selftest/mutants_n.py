"""Variants for the rules re-based on interpretation after the local-renaming experiment (format: see mutants.py)."""

I = "guppylang-internals/src/guppylang_internals/"
_core = I + "compiler/core.py"

_xc = I + "compiler/expr_compiler.py"
_sc = I + "compiler/stmt_compiler.py"
_lc = I + "checker/linearity_checker.py"

_bld = I + "cfg/builder.py"
_cfg = I + "cfg/cfg.py"

_dec = "guppylang/src/guppylang/decorator.py"

_obj = I + "tracing/object.py"

_uc = I + "checker/unitary_checker.py"

M = {
    "C24": [
        ("_check_assign: the assigned value is not visited", _uc,
         "        if node.value is not None:\n            self.visit(node.value)\n\n    def visit_AnnAssign", "        pass\n\n    def visit_AnnAssign", "R-C24.4"),
        ("_check_assign: rejects outside dagger as well", _uc,
         "        if UnitaryFlags.Dagger in self.flags:\n            raise GuppyError(InvalidUnderDagger(node, \"Assignment\"))",
         "        if self.flags:\n            raise GuppyError(InvalidUnderDagger(node, \"Assignment\"))", "R-C24.4"),
        ("benign: _check_assign with a guard clause", _uc,
         "        if node.value is not None:\n            self.visit(node.value)\n\n    def visit_AnnAssign", "        if node.value is None:\n            return\n        self.visit(node.value)\n\n    def visit_AnnAssign", None),
    ],
    "C21": [
        ("reflected fallback called on self", _obj,
         "            return other.__getattr__(reverse_method)(self)", "            return self.__getattr__(reverse_method)(other)", "R-C21.3"),
        ("reflected fallback keeps the operand order", _obj,
         "            return other.__getattr__(reverse_method)(self)", "            return other.__getattr__(reverse_method)(other)", "R-C21.3"),
        ("reflected fallback uses the same method name", _obj,
         "            return other.__getattr__(reverse_method)(self)", "            return other.__getattr__(f.__name__)(self)", "R-C21.3"),
        ("reflected fallback tried first", _obj,
         "        # First try the method on `self`\n        with suppress(Exception):\n            return f(self, other)\n", "", "R-C21.3"),
        ("direct method called with swapped operands", _obj,
         "        with suppress(Exception):\n            return f(self, other)", "        with suppress(Exception):\n            return f(other, self)", "R-C21.3"),
        ("benign: table lookup with the reverse table tested first", _obj,
         "        if f.__name__ in binary_table:\n            reverse_method, display_name = binary_table[f.__name__]\n            left_ty, right_ty = self._ty, other._ty\n        else:\n            reverse_method, display_name = reverse_binary_table[f.__name__]\n            left_ty, right_ty = other._ty, self._ty",
         "        if f.__name__ in reverse_binary_table:\n            reverse_method, display_name = reverse_binary_table[f.__name__]\n            left_ty, right_ty = other._ty, self._ty\n        else:\n            reverse_method, display_name = binary_table[f.__name__]\n            left_ty, right_ty = self._ty, other._ty", None),
    ],
    "C22": [
        ("_use_wire: copyable values rejected on second use", _obj,
         "        if self._used and not self._ty.copyable:\n            use = self._used", "        if self._used:\n            use = self._used", "R-C22.3"),
        ("_use_wire: the check looks at droppable instead of copyable", _obj,
         "        if self._used and not self._ty.copyable:\n            use = self._used", "        if self._used and not self._ty.droppable:\n            use = self._used", "R-C22.3"),
        ("_use_wire: registry entry kept", _obj,
         "                state.unused_undroppable_objs.pop(self._id)", "                state.unused_undroppable_objs.get(self._id)", "R-C22.3"),
        ("_use_wire: registry popped for droppable values", _obj,
         "            if not self._ty.droppable:\n                state = get_tracing_state()\n                state.unused_undroppable_objs.pop(self._id)",
         "            if self._ty.droppable:\n                state = get_tracing_state()\n                state.unused_undroppable_objs.pop(self._id)", "R-C22.3"),
        ("benign: _use_wire with the accepting branch first", _obj,
         "        if self._used and not self._ty.copyable:\n            use = self._used",
         "        reusable = self._ty.copyable or not self._used\n        if not reusable:\n            use = self._used", None),
    ],
    "C15": [
        ("overload: variants registered in reverse", _dec,
         "        func_ids = []\n        for func in funcs:", "        func_ids = []\n        for func in reversed(funcs):", "R-C15.1"),
        ("overload: variants sorted by id", _dec,
         "            func_ids.append(func.id)\n", "            func_ids.append(func.id)\n        func_ids.sort(key=str)\n", "R-C15.1"),
        ("overload: duplicates dropped through a set", _dec,
         "        funcs = list(funcs)\n        if len(funcs) < 2:", "        funcs = list(dict.fromkeys(funcs))\n        if len(funcs) < 1:", "R-C15.1"),
        ("overload: new variants inserted at the front", _dec,
         "            func_ids.append(func.id)", "            func_ids.insert(0, func.id)", "R-C15.1"),
        ("benign: overload collects the ids with a comprehension after validating", _dec,
         "            func_ids.append(func.id)\n", "        func_ids = [variant.id for variant in funcs]\n", None),
    ],
    "C08": [
        ("dead code dummy-linked from the block before the jumping one", _bld,
         "                prev_bb, bb_opt = bb_opt, self.visit(node, bb_opt, jumps)", "                bb_opt = self.visit(node, bb_opt, jumps)", "R-C08.4"),
        ("dead code continues in the jumping block", _bld,
         "                bb_opt = self.cfg.new_bb()\n                self.cfg.dummy_link(prev_bb, bb_opt)", "                bb_opt = prev_bb", "R-C08.4"),
        ("pruning forgets the predecessor list", _bld,
         "                        bb.successors.remove(succ)\n                        succ.predecessors.remove(bb)", "                        bb.successors.remove(succ)", "R-C08.4"),
        ("pruning iterates the list it mutates", _bld,
         "                for succ in list(bb.successors):", "                for succ in bb.successors:", "R-C08.4"),
        ("dummy edges into live blocks kept on the source side", _bld,
         "                for pred in bb.dummy_predecessors:\n                    pred.dummy_successors.remove(bb)\n                bb.dummy_predecessors = []", "                bb.dummy_predecessors = []", "R-C08.4"),
        ("fall-through end linked before reachability is computed but exit never marked", _bld,
         "            if final_bb.reachable:\n                self.cfg.exit_bb.reachable = True", "            if final_bb.reachable:\n                pass", "R-C08.4"),
        ("update_reachable stops at the first level", _cfg,
         "                for succ in bb.successors:\n                    queue.add(succ)", "                for succ in bb.successors:\n                    succ.reachable = True", "R-C08.4"),
        ("benign: visit_stmts with renamed locals and the fresh block made by a helper expression", _bld,
         "            if bb_opt is None:\n                bb_opt = self.cfg.new_bb()\n                self.cfg.dummy_link(prev_bb, bb_opt)",
         "            if bb_opt is None:\n                dead_bb = self.cfg.new_bb()\n                self.cfg.dummy_link(prev_bb, dead_bb)\n                bb_opt = dead_bb", None),
    ],
    "C07": [
        ("read of xs[i]: index recompiled although bound", _xc,
         "            if subscript.item not in self.dfg:\n                self.dfg[subscript.item] = self.visit(subscript.item_expr)",
         "            self.dfg[subscript.item] = self.visit(subscript.item_expr)", "R-C07.4"),
        ("store to xs[i]: guard inverted", _sc,
         "            if subscript.item not in self.dfg:\n                self.dfg[subscript.item] = self.expr_compiler.compile(",
         "            if subscript.item in self.dfg:\n                self.dfg[subscript.item] = self.expr_compiler.compile(", "R-C07.4"),
        ("store to xs[i].y: setitem value taken before the new value is stored", _sc,
         "            self.dfg[lhs.place] = port\n            # Look up `xs[i]` again since it was mutated by the assignment above, then\n            # compile a call to `__setitem__` to actually mutate\n            self.dfg[subscript.setitem_call.value_var] = self.dfg[subscript]",
         "            self.dfg[subscript.setitem_call.value_var] = self.dfg[subscript]\n            self.dfg[lhs.place] = port", "R-C07.4"),
        ("benign: read of xs[i] with renamed walrus and early return", _xc,
         "        if subscript := contains_subscript(node.place):\n            if subscript.item not in self.dfg:\n                self.dfg[subscript.item] = self.visit(subscript.item_expr)\n            self.dfg[subscript] = self.visit(subscript.getitem_call)\n        return self.dfg[node.place]",
         "        sub = contains_subscript(node.place)\n        if sub is None:\n            return self.dfg[node.place]\n        index_tmp = sub.item\n        if index_tmp not in self.dfg:\n            self.dfg[index_tmp] = self.visit(sub.item_expr)\n        self.dfg[sub] = self.visit(sub.getitem_call)\n        return self.dfg[node.place]", None),
    ],
    "C06": [
        ("re-borrow of a borrowed parameter rejected", _lc,
         "        if is_inout_var(node.place) and not is_inout_arg:", "        if is_inout_var(node.place):", "R-C06.2"),
        ("borrowed parameter may be consumed", _lc,
         "        if is_inout_var(node.place) and not is_inout_arg:", "        if is_inout_var(node.place) and is_inout_arg:", "R-C06.2"),
        ("use recorded as MOVE whatever the kind", _lc,
         "                    raise GuppyError(err)\n                self.scope.use(x, node, use_kind)", "                    raise GuppyError(err)\n                self.scope.use(x, node, UseKind.MOVE)", "R-C06.2"),
        ("benign: visit_PlaceNode with the re-borrow test inlined", _lc,
         "        is_inout_arg = use_kind == UseKind.BORROW\n        if is_inout_var(node.place) and not is_inout_arg:",
         "        reborrowed = use_kind is UseKind.BORROW\n        is_inout_arg = reborrowed\n        if not reborrowed and is_inout_var(node.place):", None),
    ],
    "C05": [
        ("tracker: patched add_node not restored", _core,
         "    finally:\n        Hugr.add_node = hugr_add_node  # type: ignore[method-assign]", "    finally:\n        pass", "R-C05.2"),
        ("tracker: restore only on the normal path", _core,
         "            hugr.add_order_link(last, outp)\n    finally:\n        Hugr.add_node = hugr_add_node  # type: ignore[method-assign]",
         "            hugr.add_order_link(last, outp)\n        Hugr.add_node = hugr_add_node\n    finally:\n        pass", "R-C05.2"),
        ("tracker: every node is ordered (gate dropped)", _core,
         "        if may_have_side_effect(op):\n            handle_side_effect(new_node, self)", "        if True:\n            handle_side_effect(new_node, self)", "R-C05.2"),
        ("tracker: containers are not marked in their parent", _core,
         "            if not isinstance(hugr[parent].op, ops.FuncDefn):\n                handle_side_effect(parent, hugr)",
         "            if not isinstance(hugr[parent].op, ops.FuncDefn) and False:\n                handle_side_effect(parent, hugr)", "R-C05.2"),
        ("tracker: last side effect not linked to Output", _core,
         "            assert last != outp\n            hugr.add_order_link(last, outp)", "            assert last != outp", "R-C05.2"),
        ("tracker: links to the Input node every time", _core,
         "        if prev := prev_node_with_side_effect.get(parent):\n            prev_node = prev[0]\n        else:",
         "        if (prev := prev_node_with_side_effect.get(parent)) and False:\n            prev_node = prev[0]\n        else:", "R-C05.2"),
        ("tracker: link direction reversed", _core,
         "            hugr.add_order_link(prev_node, node)", "            hugr.add_order_link(node, prev_node)", "R-C05.2"),
        ("benign: tracker with renamed locals and a helper for the final links", _core,
         "        for parent, (last, hugr) in prev_node_with_side_effect.items():\n            # Connect the last side-effecting node to Output\n            outp = hugr.children(parent)[1]\n            assert isinstance(hugr[outp].op, ops.Output)\n            assert last != outp\n            hugr.add_order_link(last, outp)",
         "        for dfg_parent, (final_node, h) in prev_node_with_side_effect.items():\n            # Connect the last side-effecting node to Output\n            output_node = h.children(dfg_parent)[1]\n            assert isinstance(h[output_node].op, ops.Output)\n            assert final_node != output_node\n            h.add_order_link(final_node, output_node)", None),
    ],
}
