"""Self-test variants for rules added in the third round (format: see mutants.py)."""

I = "guppylang-internals/src/guppylang_internals/"
_lin = I + "checker/linearity_checker.py"

M = {
    "C06": [
        ("leaf_places skips the first tuple element", _lin,
         "                for idx, elem_ty in enumerate(place.ty.element_types)\n            ]\n        else:\n            yield place",
         "                for idx, elem_ty in list(enumerate(place.ty.element_types))[1:]\n            ]\n        else:\n            yield place", "R-C06.5"),
        ("leaf_places treats structs as leaves", _lin,
         "        if isinstance(place.ty, StructType):\n            stack += [", "        if isinstance(place.ty, StructType) and False:\n            stack += [", "R-C06.5"),
        ("leaf_places also yields the aggregates", _lin,
         "        else:\n            yield place\n\n\ndef is_inout_var", "        yield place\n\n\ndef is_inout_var", "R-C06.5"),
        ("benign: leaf_places with an explicit work list name", _lin,
         "    stack = [place]\n    while stack:\n        place = stack.pop()", "    stack = [place]\n    while len(stack) > 0:\n        place = stack.pop()", None),
        ("override check done once on the root target instead of per leaf", _lin,
         "                for tgt_place in leaf_places(tgt.place):\n                    x = tgt_place.id\n                    # Only check for overrides",
         "                x = tgt.place.id\n                for tgt_place in [tgt.place]:\n                    # Only check for overrides", "R-C06.6"),
    ],
    "C12": [
        ("check_inst returns after the first type parameter", I + "checker/expr_checker.py",
         "        # For everything else, we fall back to the default checking implementation\n        param.check_arg(arg, node)",
         "            return\n        # For everything else, we fall back to the default checking implementation\n        param.check_arg(arg, node)", "R-C12.6"),
        # (re-labelled: this was listed as breaking, but the `continue` is only reached for a type parameter with a type argument that
        #  passed both bound tests, and TypeParam.check_arg tests exactly those two bounds again -- behaviour is unchanged, and the
        #  interpreted rule is right to stay silent; the loop-shape rule used to flag it)
        ("benign: check_inst skips the redundant check_arg for type arguments that passed the fast path", I + "checker/expr_checker.py",
         "        # For everything else, we fall back to the default checking implementation\n        param.check_arg(arg, node)",
         "            continue\n        # For everything else, we fall back to the default checking implementation\n        param.check_arg(arg, node)", None),
        ("check_inst returns after the first parameter", I + "checker/expr_checker.py",
         "        # For everything else, we fall back to the default checking implementation\n        param.check_arg(arg, node)",
         "        # For everything else, we fall back to the default checking implementation\n        param.check_arg(arg, node)\n        return", "R-C12.6"),
        ("check_inst: droppable bound tested with the copyable capability", I + "checker/expr_checker.py",
         "            if param.must_be_droppable and not arg.ty.droppable:\n                raise GuppyTypeError(\n                    NonLinearInstantiateError(node, param, func_ty, arg.ty)",
         "            if param.must_be_droppable and not arg.ty.copyable:\n                raise GuppyTypeError(\n                    NonLinearInstantiateError(node, param, func_ty, arg.ty)", "R-C12.6"),
        ("benign: check_inst binds the instantiated parameter to a new name", I + "checker/expr_checker.py",
         "        # For everything else, we fall back to the default checking implementation\n        param.check_arg(arg, node)",
         "        # For everything else, we fall back to the default checking implementation\n        p = param\n        p.check_arg(arg, node)", None),
    ],
    "C24": [
        ("a keyword given as False still sets its flag", "guppylang/src/guppylang/decorator.py",
         "    if kwargs.pop(\"control\", False):\n        flags |= UnitaryFlags.Control", "    if \"control\" in kwargs:\n        del kwargs[\"control\"]\n        flags |= UnitaryFlags.Control", "R-C24.7"),
        ("power keyword sets the dagger flag", "guppylang/src/guppylang/decorator.py",
         "    if kwargs.pop(\"power\", False):\n        flags |= UnitaryFlags.Power", "    if kwargs.pop(\"power\", False):\n        flags |= UnitaryFlags.Dagger", "R-C24.7"),
        ("benign: keyword popped into a local first", "guppylang/src/guppylang/decorator.py",
         "    if kwargs.pop(\"power\", False):\n        flags |= UnitaryFlags.Power", "    want_power = kwargs.pop(\"power\", False)\n    if want_power:\n        flags |= UnitaryFlags.Power", None),
    ],
    "C01": [
        ("return variables appended after the predecessor's row", I + "compiler/cfg_compiler.py",
         "        pred.sig = Signature(pred.sig.input_row, [[*return_vars, *out_row]])", "        pred.sig = Signature(pred.sig.input_row, [[*out_row, *return_vars]])", "R-C01.4"),
        ("only the first predecessor of the exit is patched", I + "compiler/cfg_compiler.py",
         "    for pred in cfg.exit_bb.predecessors:\n        # The exit BB will be the only successor", "    for pred in cfg.exit_bb.predecessors[:1]:\n        # The exit BB will be the only successor", "R-C01.4"),
        ("benign: return variables built with a loop", I + "compiler/cfg_compiler.py",
         "    return_vars = [\n        Variable(return_var(i), ty, None)\n        for i, ty in enumerate(type_to_row(cfg.output_ty))\n    ]",
         "    return_vars = []\n    for i, ty in enumerate(type_to_row(cfg.output_ty)):\n        return_vars.append(Variable(return_var(i), ty, None))", None),
    ],
}
