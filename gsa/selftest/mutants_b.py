"""Self-test variants for C08, C09, C10, C11 (format: see mutants.py)."""

I = "guppylang-internals/src/guppylang_internals/"
_cc = I + "checker/cfg_checker.py"
_cfg = I + "cfg/cfg.py"
_an = I + "cfg/analysis.py"
_eng = I + "engine.py"
_st = I + "definition/struct.py"

M = {
    "C08": [
        ("entry block: globals shadow the not-defined test for locals", _cc,
         "            if x in cfg.assigned_somewhere or (\n                x not in globals and x not in generic_params",
         "            if x not in globals and (\n                x not in globals and x not in generic_params", "R-C08.2"),
        ("edge check: a local that is not in scope is let through when a global of that name exists", _cc,
         "            if x in cfg.assigned_somewhere:\n                if x not in ctx.locals:", "            if x in cfg.assigned_somewhere and x not in ctx.globals:\n                if x not in ctx.locals:", "R-C08.2"),
        ("dummy successors not examined", _cc,
         "    for succ in bb.successors + bb.dummy_successors:\n        for x, use_bb in cfg.live_before[succ].items():",
         "    for succ in bb.successors:\n        for x, use_bb in cfg.live_before[succ].items():", "R-C08."),
        ("locals computed from reachable blocks only", _cfg,
         "maybe_ass_before, (x for bb in self.bbs for x in stats[bb].assigned)", "maybe_ass_before, (x for bb in self.bbs if bb.reachable for x in stats[bb].assigned)", "R-C08.1"),
        ("benign: generic test spelled with a local", _cc,
         "            elif x not in ctx.globals and x not in ctx.generic_params:", "            elif not (x in ctx.globals or x in ctx.generic_params):", None),
    ],
    "C09": [
        ("liveness: assigned variables stay live", _an,
         "            x: b for x, b in live_after.items() if x not in stats.assigned\n", "            x: b for x, b in live_after.items()\n", "R-C09.2"),
        ("definite assignment join is a union", _an,
         "        def_ass = set.intersection(*(def_ass for def_ass, _ in ts))", "        def_ass = set.union(*(def_ass for def_ass, _ in ts))", "R-C09.3"),
        ("definite assignment starts from the entry set (least instead of greatest fixpoint)", _an,
         "        return self.all_vars, self.maybe_ass_before_entry", "        return self.ass_before_entry, self.maybe_ass_before_entry", "R-C09.4"),
        ("backward worklist re-queues successors instead of predecessors", _an,
         "                queue.update(dict.fromkeys(bb.predecessors))", "                queue.update(dict.fromkeys(bb.successors))", "R-C09.7"),
        ("backward worklist forgets dummy predecessors", _an,
         "                    queue.update(dict.fromkeys(bb.dummy_predecessors))", "                    pass", "R-C09.7"),
        ("maybe-assigned does not include this block's assignments", _an,
         "            maybe_ass_before | stats.assigned.keys(),", "            maybe_ass_before,", "R-C09.2"),
        ("benign: liveness join spelled with update()", _an,
         "        for t in ts:\n            res |= t\n        return res", "        for t in ts:\n            res.update(t)\n        return res", None),
    ],
    "C10": [
        ("struct check picks an arbitrary overridden name", _st,
         "x = min(overridden)", "x = overridden.pop()", "R-C10.1"),
        ("row mismatch reported in set order", _cc,
         "    for x in sorted(map1.keys() | map2.keys()):", "    for x in map1.keys() | map2.keys():", "R-C10.1"),
        ("forward worklist is a set again", _an,
         "        queue = dict.fromkeys(bbs)\n        while len(queue) > 0:\n            bb, _ = queue.popitem()\n            preds = (",
         "        queue = set(bbs)\n        while len(queue) > 0:\n            bb = queue.pop()\n            preds = (", "R-C10.1"),
        ("benign: sorted() given an explicit key", _cc,
         "    for x in sorted(map1.keys() | map2.keys()):", "    for x in sorted(map1.keys() | map2.keys(), key=str):", None),
    ],
    "C11": [
        ("check() keeps the previous session's caches", _eng,
         "        #  need to store and check if any dependencies have changed.\n        self.reset()\n", "        #  need to store and check if any dependencies have changed.\n", "R-C11.2"),
        ("compile() trusts an earlier check", _eng,
         "        This is the function that is invoked by `guppy.compile`.\n        \"\"\"\n        self.check(id)\n",
         "        This is the function that is invoked by `guppy.compile`.\n        \"\"\"\n        if id not in self.checked:\n            self.check(id)\n", "R-C11.2"),
        ("reset forgets the compiled cache", _eng,
         "        self.checked = {}\n        self.compiled = {}\n", "        self.checked = {}\n", "R-C11"),
        ("new module-level memo table", _eng,
         "class CompilationEngine:", "_SEEN_IDS: dict = {}\n\n\nclass CompilationEngine:", None),  # unused table: nothing writes it
        ("new session write: sort_vars memoised across compilations", I + "compiler/cfg_compiler.py",
         "def sort_vars(row: Row[Place]) -> list[Place]:", "@functools.cache\ndef sort_vars(row: Row[Place]) -> list[Place]:", "R-C11.1"),
        ("new session write: checking a definition drops another definition's frame", _eng,
         "        defn = DEF_STORE.raw_defs[id]\n        self.to_check_worklist = {", "        defn = DEF_STORE.raw_defs[id]\n        DEF_STORE.frames.pop(id, None)\n        self.to_check_worklist = {", "R-C11.1"),
    ],
}
