"""Self-test variants for the rules added after the second seeding round (format: see mutants.py)."""

I = "guppylang-internals/src/guppylang_internals/"
_cfgc = I + "compiler/cfg_compiler.py"
_eng = I + "engine.py"
_ec = I + "checker/expr_checker.py"
_ty = I + "tys/ty.py"
_lin = I + "checker/linearity_checker.py"

M = {
    "C01": [
        ("branch-sum rows handed over in first-use order", _cfgc,
         "[v for v in sort_vars(row) if not v.ty.linear]", "[v for v in row if not v.ty.linear]", "R-C01.6"),
        ("regular outputs taken from the last successor's row only when it differs", _cfgc,
         "            outputs = [v for v in first if v.ty.linear]", "            outputs = [v for v in rest[-1] if v.ty.linear][1:]", "R-C01.6"),
        ("benign: rows sorted before the comprehension", _cfgc,
         "                output_vars=[\n                    [v for v in sort_vars(row) if not v.ty.linear]\n                    for row in bb.sig.output_rows\n                ],",
         "                output_vars=[\n                    [v for v in srow if not v.ty.linear]\n                    for srow in [sort_vars(row) for row in bb.sig.output_rows]\n                ],", None),
    ],
    "C11": [
        ("generated struct methods registered only once per session", _eng,
         "            for method_def in defn.generated_methods():\n                DEF_STORE.register_def(method_def, None)",
         "            for method_def in defn.generated_methods():\n                if method_def.name in DEF_STORE.impls[defn.id]:\n                    continue\n                DEF_STORE.register_def(method_def, None)", "R-C11.5"),
        ("benign: generated methods collected into a list first", _eng,
         "            for method_def in defn.generated_methods():\n                DEF_STORE.register_def(method_def, None)",
         "            methods = list(defn.generated_methods())\n            for method_def in methods:\n                DEF_STORE.register_def(method_def, None)", None),
    ],
    "C12": [
        ("argument types substituted once before the loop", _ec,
         "        a, s = ExprChecker(ctx).check(inp, func_inp.ty.substitute(subst), \"argument\")", "        a, s = ExprChecker(ctx).check(inp, func_inp.ty, \"argument\")", "R-C12.5"),
        ("tuple elements checked without the accumulated solutions", _ec,
         "            node.elts[i], s = self.check(el, ty.element_types[i].substitute(subst))", "            node.elts[i], s = self.check(el, ty.element_types[i])", "R-C12.5"),
        ("benign: expected type bound to a local inside the loop", _ec,
         "        a, s = ExprChecker(ctx).check(inp, func_inp.ty.substitute(subst), \"argument\")",
         "        expected_ty = func_inp.ty.substitute(subst)\n        a, s = ExprChecker(ctx).check(inp, expected_ty, \"argument\")", None),
    ],
    "C13": [
        ("kept parameter referenced by its old index", _ty,
         "                param = param.with_idx(len(remaining_params))\n                remaining_params.append(param.instantiate_bounds(full_inst))\n                arg = param.to_bound()",
         "                arg = param.to_bound()\n                param = param.with_idx(len(remaining_params))\n                remaining_params.append(param.instantiate_bounds(full_inst))", "R-C13.4"),
        ("instantiated tuple not marked preserve", _ty,
         "                    arg = TypeArg(TupleType(arg.ty.element_types, preserve=True))", "                    arg = TypeArg(TupleType(arg.ty.element_types))", "R-C13.4"),
        ("comptime arguments not instantiated", _ty,
         "                cast(ConstArg, arg.transform(inst)) for arg in self.comptime_args\n            ],\n            unitary_flags=self.unitary_flags,",
         "                cast(ConstArg, arg) for arg in self.comptime_args\n            ],\n            unitary_flags=self.unitary_flags,", "R-C13.4"),
        ("bounds instantiated after the parameter's own entry was appended", _ty,
         "                remaining_params.append(param.instantiate_bounds(full_inst))\n                arg = param.to_bound()",
         "                arg = param.to_bound()\n                remaining_params.append(param.instantiate_bounds([*full_inst, arg]))", "R-C13.4"),
        ("benign: new index bound to a local", _ty,
         "                param = param.with_idx(len(remaining_params))\n", "                new_idx = len(remaining_params)\n                param = param.with_idx(new_idx)\n", None),
    ],
    "C06": [
        ("used_later through a list local, any() instead of all()", _lin,
         "                used_later = all(x in live_before[succ] for succ in bb.successors)",
         "                live_in_succs = [x in live_before[succ] for succ in bb.successors]\n                used_later = any(live_in_succs) or not bb.successors", "R-C06.2"),
        ("benign: used_later through a list local", _lin,
         "                used_later = all(x in live_before[succ] for succ in bb.successors)",
         "                live_in_succs = [x in live_before[succ] for succ in bb.successors]\n                used_later = all(live_in_succs)", None),
    ],
}
