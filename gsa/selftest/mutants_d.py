"""Self-test variants for C21 .. C24 (format: see mutants.py)."""

I = "guppylang-internals/src/guppylang_internals/"
_obj = I + "tracing/object.py"
_fl = I + "tracing/frozenlist.py"
_mock = I + "tracing/builtins_mock.py"
_fn = I + "tracing/function.py"
_uc = I + "checker/unitary_checker.py"
_b = I + "cfg/builder.py"

M = {
    "C21": [
        ("__lt__ dispatches to __le__", _obj,
         '        return self._get_method("__lt__")(other)', '        return self._get_method("__le__")(other)', "R-C21.1"),
        ("__neg__ loses its decorator's kind", _obj,
         "    @unary_operation\n    def __neg__(self) -> Any:", "    @binary_operation\n    def __neg__(self) -> Any:", "R-C21.2"),
        ("reflected fallback keeps operand order", _obj,
         "            return other.__getattr__(reverse_method)(self)", "            return self.__getattr__(reverse_method)(other)", "R-C21.3"),
        ("reflected method looked up in the wrong table", _obj,
         "        if f.__name__ in binary_table:\n            reverse_method, display_name = binary_table[f.__name__]",
         "        if f.__name__ in reverse_binary_table:\n            reverse_method, display_name = binary_table[f.__name__]", "R-C21.3"),
        ("__radd__ removed (renamed)", _obj,
         "    def __radd__(self, other: Any) -> Any:\n        return self._get_method(\"__radd__\")(other)", "    def _radd(self, other: Any) -> Any:\n        return self._get_method(\"__radd__\")(other)", "R-C21"),
        ("benign: operand renamed", _obj,
         "    def __add__(self, other: Any) -> Any:\n        return self._get_method(\"__add__\")(other)", "    def __add__(self, rhs: Any) -> Any:\n        return self._get_method(\"__add__\")(rhs)", None),
    ],
    "C22": [
        ("frozenlist.append mutates", _fl,
         "    def append(self, *args: Any, **kwargs: Any) -> None:\n        raise GuppyComptimeError(ERROR_MSG)", "    def append(self, *args: Any, **kwargs: Any) -> None:\n        super().append(*args, **kwargs)", "R-C22.1"),
        ("frozenlist.copy hands out a frozenlist", _fl,
         "    def copy(self) -> Any:\n        return list(self)", "    def copy(self) -> Any:\n        return self", "R-C22.1"),
        ("frozen struct field can be stored", _obj,
         "            if self._frozen:\n                err = (", "            if self._frozen and False:\n                err = (", "R-C22.2"),
        ("owned inputs are not frozen", _fn,
         "                frozen=InputFlags.Inout not in inp.flags,", "                frozen=InputFlags.Inout in inp.flags,", "R-C22.2"),
        ("second use of a non-copyable value goes through", _obj,
         "        if self._used and not self._ty.copyable:\n            use = self._used", "        if self._used and not self._ty.droppable:\n            use = self._used", "R-C22.3"),
        ("use is not recorded", _obj,
         "            self._used = ObjectUse(module_name, frame.f_lineno, called_func)\n", "            pass\n", "R-C22.3"),
        ("benign: error text reworded", _fl,
         "    def append(self, *args: Any, **kwargs: Any) -> None:\n        raise GuppyComptimeError(ERROR_MSG)", "    def append(self, *args: Any, **kwargs: Any) -> None:\n        msg = ERROR_MSG\n        raise GuppyComptimeError(msg)", None),
    ],
    "C23": [
        ("old values captured after the update", _mock,
         "    old = {x: f.__globals__[x] for x in mock if x in f.__globals__}\n    f.__globals__.update(mock)", "    f.__globals__.update(mock)\n    old = {x: f.__globals__[x] for x in mock if x in f.__globals__}", "R-C23.1"),
        ("restore not in finally", _mock,
         "    try:\n        yield\n    finally:\n        # Reset", "    yield\n    if True:\n        # Reset", "R-C23.1"),
        ("added names are left behind", _mock,
         "            if x not in old:\n                del f.__globals__[x]\n", "            pass\n", "R-C23.1"),
        ("shadowed user globals not restored", _mock,
         "                del f.__globals__[x]\n        f.__globals__.update(old)", "                del f.__globals__[x]", "R-C23.1"),
        ("user function traced outside the mock", _fn,
         "        with exception_hook(tracing_except_hook), mock_builtins(python_func):", "        with exception_hook(tracing_except_hook):", "R-C23.3"),
        ("benign: mock table renamed", _mock,
         "        for x in mock:\n            if x not in old:", "        for name in mock:\n            x = name\n            if x not in old:", None),
    ],
    "C24": [
        ("call rejected only when also classical", _uc,
         "        if not classic and not flag_ok:", "        if classic and not flag_ok:", "R-C24.2"),
        ("flag test reversed", _uc,
         "        flag_ok = self.flags in ty.unitary_flags", "        flag_ok = ty.unitary_flags in self.flags", "R-C24.2"),
        ("argument scan stops at the first qubit", _uc,
         "            if contain_qubit_ty(get_type(arg)):\n                classical = False\n", "            if contain_qubit_ty(get_type(arg)):\n                classical = False\n                break\n", "R-C24"),
        ("tensor calls unchecked", _uc,
         "        self.visit(node.func)\n        self._check_call(node, node.tensor_ty)", "        pass", "R-C24"),
        ("tensor calls: the callee tuple is not visited (the defect fixed by 7776e3a)", _uc,
         "        # The callee is an arbitrary tuple expression that may itself contain calls\n        self.visit(node.func)\n        self._check_call(node, node.tensor_ty)",
         "        self._check_call(node, node.tensor_ty)", "R-C24.8"),
        ("nested with forgets the enclosing flags", _b,
         "flags = self.cfg.unitary_flags | new_node.flags()", "flags = new_node.flags()", "R-C24.3"),
        ("benign: conjunction reordered", _uc,
         "        if not classic and not flag_ok:", "        if not flag_ok and not classic:", None),
    ],
}
