"""Self-test of the checkers ("test the checker both ways"), used by the thorough tier.

For one property (or all):
  * every *fire* variant -- a one-site breaking edit of the sources (table in mutants.py) or a
    confirmed seeded change (/verif/seeded/<id>/patch.diff) -- is applied to a scratch copy of
    the CURRENT source trees and the property's quick check must exit 1 naming the expected rule;
  * every *benign* variant -- a behaviour-preserving edit (rename, reorder of independent
    statements, equivalent spelling) -- must leave the check silent (exit 0, no VIOLATION).

Nothing of the repository is imported or run: a variant is only a different text for the same
static analysis.  Scratch copies live under tempfile.mkdtemp() and are removed per variant.

A variant whose anchor text is no longer present in the tree is skipped ("not applicable"),
never failed: the table describes today's sources.  A variant that applies but gives the wrong
verdict fails the self-test (exit 2 from the thorough tier) only when the file it edits is
byte-identical to the revision the table was written against (ref_hashes.json); on a changed
file the mismatch is reported as a warning, because the edit may mean something else there.
"""

from __future__ import annotations

import concurrent.futures as cf
import hashlib
import json
import os
import shutil
import subprocess
import sys
import tempfile
import time

from ..report import VERIF_DIR
from . import mutants as table

SRC_DIRS = ("guppylang-internals/src", "guppylang/src")
REF = os.path.join(os.path.dirname(__file__), "ref_hashes.json")


def _sha(path: str) -> str:
    with open(path, "rb") as fh:
        return hashlib.sha256(fh.read()).hexdigest()


def _copy_tree(root: str) -> str:
    tmp = tempfile.mkdtemp(prefix="gsa-selftest-")
    for d in SRC_DIRS:
        shutil.copytree(os.path.join(root, d), os.path.join(tmp, d), ignore=shutil.ignore_patterns("__pycache__", "*.pyc"))
    return tmp


def _patch_files(patch: str) -> list[str]:
    out = []
    for line in open(patch, encoding="utf-8"):
        if line.startswith("+++ b/"):
            out.append(line[6:].strip())
    return out


def _run_variant(job: dict) -> dict:
    root, prop = job["root"], job["prop"]
    tmp = _copy_tree(root)
    res = dict(job)
    try:
        if job["kind"] == "patch":
            r = subprocess.run(["patch", "-p1", "-s", "-f", "--no-backup-if-mismatch", "-i", job["patch"]], cwd=tmp, capture_output=True, text=True)
            if r.returncode != 0:
                res["status"] = "not-applicable"
                res["why"] = "patch does not apply to the current tree"
                return res
            files = [f for f in _patch_files(job["patch"]) if f.endswith(".py") and any(f.startswith(d) for d in SRC_DIRS)]
        elif job["kind"] == "unparse":
            import ast as _ast

            for dp, _dn, fns in os.walk(tmp):
                for fn in fns:
                    if fn.endswith(".py"):
                        p = os.path.join(dp, fn)
                        try:
                            src = open(p, encoding="utf-8").read()
                            open(p, "w", encoding="utf-8").write(_ast.unparse(_ast.parse(src)) + "\n")
                        except SyntaxError:
                            pass
            files = []
        elif job["kind"] == "transform":
            from . import transforms
            n_rw = transforms.apply(tmp, tuple(job["which"]))
            if n_rw == 0:
                res["status"] = "table-error"
                res["why"] = "the transformation rewrote nothing"
                return res
            files = []
        else:
            path = os.path.join(tmp, job["file"])
            if not os.path.exists(path):
                res["status"] = "not-applicable"
                res["why"] = "file vanished"
                return res
            src = open(path, encoding="utf-8").read()
            if src.count(job["old"]) != 1:
                res["status"] = "not-applicable"
                res["why"] = f"anchor text occurs {src.count(job['old'])} times"
                return res
            new = src.replace(job["old"], job["new"], 1)
            try:
                compile(new, path, "exec")
            except SyntaxError as e:
                res["status"] = "table-error"
                res["why"] = f"variant does not parse: {e}"
                return res
            open(path, "w", encoding="utf-8").write(new)
            files = [job["file"]]
        res["files"] = files
        env = dict(os.environ, PYTHONPATH=VERIF_DIR)
        r = subprocess.run([sys.executable, "-m", "gsa.check", prop, "--no-evidence", "--root", tmp], cwd=VERIF_DIR, capture_output=True, text=True, env=env)
        lines = r.stdout.splitlines()
        fired = []
        for i, ln in enumerate(lines):
            if ln.startswith("VIOLATION"):
                rule = next((x.split()[1] for x in lines[i + 1:i + 3] if x.strip().startswith("rule")), "?")
                inst = next((x.split(None, 1)[1] for x in lines[i + 1:i + 4] if x.strip().startswith("instance")), "?")
                fired.append((rule, inst))
        res["rc"] = r.returncode
        res["fired"] = fired
        exp = job["expect"]
        if exp is None:
            good = r.returncode == 0 and not fired
        else:
            good = r.returncode == 1 and any(rule.startswith(exp) for rule, _ in fired)
        res["status"] = "ok" if good else "wrong-verdict"
        if not good:
            res["why"] = f"expected {'silence' if exp is None else 'rule ' + exp}, got rc={r.returncode} fired={fired[:3]}" + (" | " + lines[-1] if lines else "")
        return res
    finally:
        shutil.rmtree(tmp, ignore_errors=True)


def jobs_for(prop: str, root: str) -> list[dict]:
    out = []
    for m in table.MUTANTS.get(prop, ()):
        name, file, old, new, expect = m
        out.append({"prop": prop, "root": root, "kind": "edit", "name": name, "file": file, "old": old, "new": new, "expect": expect})
    if prop in table.MUTANTS or prop in table.SEEDS:
        out.append({"prop": prop, "root": root, "kind": "unparse", "expect": None,
                    "name": "benign: every source file re-printed by ast.unparse (layout, comments, parentheses, string quoting gone)"})
        # mechanical whole-tree refactorings (gsa/selftest/transforms.py; each reproduces the golden error files like HEAD does)
        for which, what in ((("rename",), "every local variable of every function renamed"),
                            (("invert",), "every if/else and conditional expression written the other way round, trailing ifs turned into guard clauses"),
                            (("reorder",), "runs of undecorated methods / top-level functions reversed"),
                            (("temps",), "temporaries introduced for every returned / raised value and every if-test"),
                            (("walrus", "else"), "walrus tests unfolded into assignments; else branches after return/raise/continue/break added or removed"),
                            (("unmatch",), "simple match statements rewritten as isinstance / == chains with explicit bindings"),
                            (("reorder", "unmatch", "walrus", "else", "invert", "temps", "rename"), "all seven mechanical transformations together")):
            out.append({"prop": prop, "root": root, "kind": "transform", "which": list(which), "expect": None, "name": f"benign: {what}"})
    bd = os.path.join(VERIF_DIR, "benign")
    if os.path.isdir(bd):
        for name in sorted(os.listdir(bd)):
            p = os.path.join(bd, name, "patch.diff")
            # every refactoring is replayed against EVERY property's check: a refactoring aimed at one property often touches code
            # another property's rules are anchored in (C33-b1 tripped C11, C12-b2 tripped C14, C05-b2 tripped C32)
            if os.path.exists(p):
                out.append({"prop": prop, "root": root, "kind": "patch", "name": f"benign/{name} (refactoring written by a fresh sub-agent)", "patch": p, "expect": None})
    sd = os.path.join(VERIF_DIR, "seeded")
    for sid, rule in sorted(table.SEEDS.get(prop, {}).items()):
        p = os.path.join(sd, sid, "patch.diff")
        if os.path.exists(p):
            out.append({"prop": prop, "root": root, "kind": "patch", "name": f"seeded/{sid}", "patch": p, "expect": rule})
    return out


def record_hashes(root: str) -> None:
    files = set()
    for prop in sorted(set(table.MUTANTS) | set(table.SEEDS)):
        for j in jobs_for(prop, root):
            if j["kind"] == "edit":
                files.add(j["file"])
            elif j["kind"] == "patch":
                files.update(f for f in _patch_files(j["patch"]) if f.endswith(".py"))
    ref = {f: _sha(os.path.join(root, f)) for f in sorted(files) if os.path.exists(os.path.join(root, f))}
    json.dump(ref, open(REF, "w"), indent=1, sort_keys=True)
    print(f"recorded {len(ref)} reference hashes")


def main(prop: str | None, njobs: int = 16, root: str | None = None) -> int:
    root = root or os.environ.get("GSA_ROOT", "/repo")
    props = [prop] if prop else sorted(set(table.MUTANTS) | set(table.SEEDS))
    ref = json.load(open(REF)) if os.path.exists(REF) else {}
    t0 = time.time()
    all_jobs = [j for p in props for j in jobs_for(p, root)]
    with cf.ProcessPoolExecutor(max_workers=max(1, njobs)) as ex:
        results = list(ex.map(_run_variant, all_jobs))
    bad = 0
    for p in props:
        rs = [r for r in results if r["prop"] == p]
        summ = {"fire_variants": 0, "fire_ok": 0, "benign_variants": 0, "benign_ok": 0, "not_applicable": 0, "warnings": [], "failures": [], "variants": []}
        for r in rs:
            st = r["status"]
            entry = {"name": r["name"], "expect": r["expect"] or "silent", "status": st, "fired": [f"{a} {b}" for a, b in r.get("fired", [])][:4]}
            summ["variants"].append(entry)
            if st == "not-applicable":
                summ["not_applicable"] += 1
                print(f"SELFTEST {p} {r['name']}: not applicable ({r['why']})")
                continue
            kind = "benign" if r["expect"] is None else "fire"
            summ[f"{kind}_variants"] += 1
            if st == "ok":
                summ[f"{kind}_ok"] += 1
                continue
            changed = any(ref.get(f) != (_sha(os.path.join(root, f)) if os.path.exists(os.path.join(root, f)) else None) for f in r.get("files", [r.get("file", "")]))
            msg = f"{r['name']}: {r.get('why', st)}"
            if st == "table-error" or not changed:
                summ["failures"].append(msg)
                print(f"SELFTEST-FAIL {p} {msg}")
            else:
                summ["warnings"].append(msg)
                print(f"SELFTEST-WARN {p} {msg} (edited file differs from the reference revision; not counted)")
        bad += len(summ["failures"])
        print(f"SELFTEST {p}: fire {summ['fire_ok']}/{summ['fire_variants']}, benign silent {summ['benign_ok']}/{summ['benign_variants']}, "
              f"{summ['not_applicable']} not applicable, {len(summ['warnings'])} warnings, {len(summ['failures'])} failures")
        ev = os.path.join(VERIF_DIR, "evidence", f"{p}.json")
        if prop and os.path.exists(ev):
            try:
                d = json.load(open(ev))
                if d.get("tier") == "thorough":
                    d["coverage"]["selftest"] = summ
                    d["wall_s"] = round(d.get("wall_s", 0) + time.time() - t0, 3)
                    json.dump(d, open(ev, "w"), indent=1)
            except (OSError, ValueError):
                pass
    return 0 if bad == 0 else 2


if __name__ == "__main__":
    if "--record" in sys.argv:
        record_hashes(os.environ.get("GSA_ROOT", "/repo"))
        sys.exit(0)
    sys.exit(main(sys.argv[1] if len(sys.argv) > 1 else None))
