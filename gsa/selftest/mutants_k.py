"""Self-test variants for R-C29.4/5 (format: see mutants.py)."""

I = "guppylang-internals/src/guppylang_internals/"
_d = I + "diagnostic.py"
_s = I + "span.py"

M = {
    "C29": [
        ("blank context lines dropped but numbered as contiguous", _d,
         "        all_lines = self.source.span_lines(span, prefix_lines)\n",
         "        all_lines = self.source.span_lines(span, prefix_lines)\n        context = [line for line in all_lines[:prefix_lines] if line.strip()]\n        all_lines = context + all_lines[prefix_lines:]\n        prefix_lines = len(context)\n", "R-C29."),
        ("context count no longer clamped at the top of the file", _d,
         "        prefix_lines = min(prefix_lines, span.start.line - 1)\n", "", "R-C29."),
        ("window starts one line late", _s,
         "            span.start.line - prefix_lines - 1 : span.end.line\n", "            span.start.line - prefix_lines : span.end.line\n", "R-C29.4"),
        ("benign: window bounds bound to locals", _s,
         "        return self.sources[span.file][\n            span.start.line - prefix_lines - 1 : span.end.line\n        ]",
         "        first = span.start.line - prefix_lines - 1\n        last = span.end.line\n        return self.sources[span.file][first:last]", None),
        ("benign: trimming comprehension with another variable name", _d,
         "            all_lines = [line[remove:] for line in all_lines]", "            all_lines = [ln[remove:] for ln in all_lines]", None),
    ],
}
