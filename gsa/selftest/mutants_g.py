"""Self-test variants for R-C08.5 and the operand-mutation clause of R-C09.3 (format: see mutants.py)."""

I = "guppylang-internals/src/guppylang_internals/"
_cc = I + "checker/cfg_checker.py"
_an = I + "cfg/analysis.py"

M = {
    "C08": [
        ("rows compared by position instead of by name", _cc,
         "    map1, map2 = {v.name: v for v in row1}, {v.name: v for v in row2}\n    for x in sorted(map1.keys() | map2.keys()):\n",
         "    map1, map2 = {v.name: v for v in row1}, {w.name: v for v, w in zip(row2, row1)}\n    for x in sorted(map1.keys() | map2.keys()):\n", "R-C08.5"),
        ("fast path returns when any variable agrees", _cc,
         "    map1, map2 = {v.name: v for v in row1}, {v.name: v for v in row2}\n",
         "    if any(v1.name == v2.name and v1.ty == v2.ty for v1, v2 in zip(row1, row2)):\n        return\n    map1, map2 = {v.name: v for v in row1}, {v.name: v for v in row2}\n", "R-C08.5"),
        ("only the first differing variable... none: mismatch ignored for temporaries and everything else", _cc,
         "        if v1.ty != v2.ty:\n            # In the error message", "        if v1.ty != v2.ty and v1.name.startswith(\"%\"):\n            # In the error message", "R-C08.5"),
        ("benign: fast path returns when all variables agree", _cc,
         "    map1, map2 = {v.name: v for v in row1}, {v.name: v for v in row2}\n",
         "    if len(row1) == len(row2) and all(v1.name == v2.name and v1.ty == v2.ty for v1, v2 in zip(row1, row2)):\n        return\n    map1, map2 = {v.name: v for v in row1}, {v.name: v for v in row2}\n", None),
    ],
    "C09": [
        ("liveness join accumulates into its first operand", _an,
         "        res: LivenessDomain[VId] = {}\n        for t in ts:\n            res |= t\n        return res",
         "        if not ts:\n            return {}\n        res = ts[0]\n        for t in ts[1:]:\n            res |= t\n        return res", "R-C09.3"),
        ("benign: liveness join copies its first operand", _an,
         "        res: LivenessDomain[VId] = {}\n        for t in ts:\n            res |= t\n        return res",
         "        if not ts:\n            return {}\n        res = dict(ts[0])\n        for t in ts[1:]:\n            res |= t\n        return res", None),
    ],
}
