"""Round 9 seeds split into their halves (format: see mutants.py): the half that is harmless alone must stay silent (rule None),
the combination / the inconsistent site must be reported."""

I = "guppylang-internals/src/guppylang_internals/"
_span = I + "span.py"
_mock = I + "tracing/builtins_mock.py"

M = {
    "C30": [
        ("Loc.file excluded from the generated comparisons only (every comparison still sits behind a file test)", _span,
         "class Loc:\n    \"\"\"A location in a source file.\"\"\"\n\n    file: str\n",
         "class Loc:\n    \"\"\"A location in a source file.\"\"\"\n\n    file: str = __import__(\"dataclasses\").field(compare=False)\n", None),
    ],
    "C23": [
        ("mocks installed in the unwrapped function's namespace, restored through f.__globals__", _mock,
         "    f.__globals__.update(mock)\n    try:", "    __import__(\"inspect\").unwrap(f).__globals__.update(mock)\n    try:", "R-C23.1"),
    ],
}
