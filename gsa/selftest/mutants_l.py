"""Benign re-spellings aimed at the rules added during the seeding rounds (format: see mutants.py)."""

I = "guppylang-internals/src/guppylang_internals/"

M = {
    "C08": [
        ("benign: comprehension uses filtered through a local alias of the assigned table", I + "cfg/bb.py",
         "        self.stats.used |= {\n            x: n for x, n in inner_stats.used.items() if x not in self.stats.assigned\n        }\n\n    def visit_ComptimeExpr",
         "        assigned_here = self.stats.assigned\n        self.stats.used |= {\n            x: n for x, n in inner_stats.used.items() if x not in assigned_here\n        }\n\n    def visit_ComptimeExpr", None),
        ("benign: check_rows_match compares through a helper local", I + "checker/cfg_checker.py",
         "        v1, v2 = map1[x], map2[x]\n        if v1.ty != v2.ty:", "        v1, v2 = map1[x], map2[x]\n        same_type = v1.ty == v2.ty\n        if not same_type:", None),
    ],
    "C06": [
        ("benign: leaves materialised into a list first", I + "checker/linearity_checker.py",
         "                for tgt_place in leaf_places(tgt.place):\n                    x = tgt_place.id",
         "                for tgt_place in list(leaf_places(tgt.place)):\n                    x = tgt_place.id", None),
    ],
    "C22": [
        ("benign: registry default built by a lambda", I + "tracing/state.py",
         "    unused_undroppable_objs: \"dict[GuppyObjectId, GuppyObject]\" = field(\n        default_factory=dict\n    )",
         "    unused_undroppable_objs: \"dict[GuppyObjectId, GuppyObject]\" = field(\n        default_factory=lambda: {}\n    )", None),
    ],
    "C32": [
        ("benign: modifier keywords rejected through a helper", I + "cfg/builder.py",
         "        if isinstance(e, ast.Call) and len(e.keywords) > 0:\n            raise GuppyError(UnsupportedError(e.keywords[0], \"Keyword arguments\"))\n        modifier: Modifier",
         "        if isinstance(e, ast.Call):\n            kws = e.keywords\n            if kws:\n                raise GuppyError(UnsupportedError(kws[0], \"Keyword arguments\"))\n        modifier: Modifier", None),
    ],
    "C09": [
        ("benign: join result bound to a local before it is stored", I + "cfg/analysis.py",
         "            vals_before[bb] = self.join(*(vals_after[pred] for pred in preds))\n            val_after = self.apply_bb(vals_before[bb], bb)",
         "            joined = self.join(*(vals_after[pred] for pred in preds))\n            vals_before[bb] = joined\n            val_after = self.apply_bb(joined, bb)", None),
    ],
    "C24": [
        ("benign: flag test computed before the argument scan", I + "checker/unitary_checker.py",
         "        classic = self._check_classical_args(node.args)\n        flag_ok = self.flags in ty.unitary_flags\n",
         "        flag_ok = self.flags in ty.unitary_flags\n        classic = self._check_classical_args(node.args)\n", None),
        ("benign: struct fields visited through a local list", I + "tys/qubit.py",
         "        for field in ty.fields:\n            field.ty.visit(self)\n        return False",
         "        fields = ty.fields\n        for field in fields:\n            field.ty.visit(self)\n        return False", None),
    ],
    "C12": [
        ("benign: every parameter checked, with the informative errors factored into a helper local", I + "checker/expr_checker.py",
         "        if isinstance(param, TypeParam) and isinstance(arg, TypeArg):\n            if param.must_be_copyable and not arg.ty.copyable:",
         "        is_type_inst = isinstance(param, TypeParam) and isinstance(arg, TypeArg)\n        if is_type_inst:\n            if param.must_be_copyable and not arg.ty.copyable:", None),
    ],
    "C29": [
        ("benign: context count clamped with an if", I + "diagnostic.py",
         "        prefix_lines = min(prefix_lines, span.start.line - 1)\n",
         "        if prefix_lines > span.start.line - 1:\n            prefix_lines = span.start.line - 1\n", None),
    ],
    "C13": [
        ("benign: mono_args initialised with a comprehension", I + "compiler/core.py",
         "    mono_args: list[Argument | None] = [None] * len(args)\n", "    mono_args: list[Argument | None] = [None for _ in args]\n", None),
    ],
    "C14": [
        ("benign: struct lowering through a local list", I + "tys/ty.py",
         "        return ht.Tuple(*(f.ty.to_hugr(ctx) for f in self.fields))", "        field_tys = [f.ty.to_hugr(ctx) for f in self.fields]\n        return ht.Tuple(*field_tys)", None),
    ],
    "C01": [
        ("benign: branch-sum rows built with an explicit loop", I + "compiler/cfg_compiler.py",
         "            branch_port = choose_vars_for_tuple_sum(\n                unit_sum=branch_port,\n                output_vars=[\n                    [v for v in sort_vars(row) if not v.ty.linear]\n                    for row in bb.sig.output_rows\n                ],\n                dfg=dfg,\n            )",
         "            sum_rows = []\n            for row in bb.sig.output_rows:\n                sum_rows.append([v for v in sort_vars(row) if not v.ty.linear])\n            branch_port = choose_vars_for_tuple_sum(\n                unit_sum=branch_port,\n                output_vars=sum_rows,\n                dfg=dfg,\n            )", None),
    ],
    "C05": [
        ("benign: reflected fallback spelled with named locals", I + "checker/expr_checker.py",
         "        left_expr, left_ty = self.synthesize(left_expr)\n        right_expr, right_ty = self.synthesize(right_expr)\n",
         "        left_expr, left_ty = self.synthesize(left_expr)\n        right_expr, right_ty = self.synthesize(right_expr)\n        _both = (left_ty, right_ty)\n", None),
    ],
    "C11": [
        ("benign: generated methods registered through a local alias of the store", I + "engine.py",
         "            for method_def in defn.generated_methods():\n                DEF_STORE.register_def(method_def, None)\n                DEF_STORE.register_impl(defn.id, method_def.name, method_def.id)",
         "            store = DEF_STORE\n            for method_def in defn.generated_methods():\n                store.register_def(method_def, None)\n                store.register_impl(defn.id, method_def.name, method_def.id)", None),
    ],
}
