"""Variant table of the checker self-test (see runner.py).

MUTANTS[property] = [(name, file, old text, new text, expected rule prefix | None)]
  expected None  = benign variant: behaviour-preserving edit, the check must stay silent
  expected "R-…" = breaking variant: the check must exit 1 with a report of that rule
Every `old` text must occur exactly once in the file (else the variant is skipped as not
applicable).  SEEDS[property] = confirmed seeded changes (seeded/<id>/patch.diff) the property's
check is expected to report, with the rule that reports them.
"""

I = "guppylang-internals/src/guppylang_internals/"
G = "guppylang/src/guppylang/"

SEEDS: dict[str, dict[str, str]] = {
    "C01": {"C01-1": "R-C01.6", "C01-2": "R-C01.6"},
    "C05": {"C05-1": "R-C05.2", "C05-2": "R-C05.4", "C05-3": "R-C05.1"},
    "C06": {"C06-1": "R-C06.2", "C06-2": "R-C06.2", "C06-3": "R-C06.2", "C06-4": "R-C06.6", "C07-2": "R-C06.4"},
    "C07": {"C07-1": "R-C07.4", "C07-2": "R-C07.6", "C07-3": "R-C07.2"},
    "C08": {"C08-1": "R-C08.1", "C08-2": "R-C08.4", "C08-3": "R-C08.5", "C09-1": "R-C08.1", "C09-2": "R-C08.1", "C09-3": "R-C08.1"},
    # C10-3 (liveness evidence taken from a set iteration) keeps the live *sets* intact: it breaks C10 only, and the C09
    # check, which used to report it through the shape of apply_bb, is silent on it since apply_bb is decided by evaluation
    "C09": {"C09-1": "R-C09.7", "C09-2": "R-C09.3", "C09-3": "R-C09.3"},
    "C10": {"C10-1": "R-C10.1", "C10-2": "R-C10.1", "C10-3": "R-C10.1"},
    "C11": {"C11-1": "R-C11.2", "C11-2": "R-C11.5"},
    "C12": {"C12-1": "R-C12.1", "C12-2": "R-C12.5", "C12-3": "R-C12.6"},
    "C13": {"C13-2": "R-C13.2", "C13-3": "R-C13.4", "C13-4": "R-C13.3", "C01-3": "R-C13.1"},
    "C14": {"C14-1": "R-C14.2", "C14-2": "R-C14.5", "C14-3": "R-C14.2", "C14-4": "R-C14.5"},
    "C15": {"C15-1": "R-C15.2", "C15-2": "R-C15.1", "C15-3": "R-C15.1", "C16-2": "R-C15.2"},
    "C16": {"C16-1": "R-C16.4", "C16-3": "R-C16.4"},
    "C17": {"C17-1": "R-C17.2", "C17-2": "R-C17.1", "C17-3": "R-C17.4"},
    "C21": {"C21-1": "R-C21.4", "C21-2": "R-C21.5", "C21-3": "R-C21.3"},
    "C22": {"C22-1": "R-C22.2", "C22-2": "R-C22.3", "C22-3": "R-C22.2", "C22-4": "R-C22.3"},
    "C23": {"C23-1": "R-C23.1", "C23-2": "R-C23.1", "C23-3": "R-C23.1"},
    "C24": {"C24-1": "R-C24.2", "C24-2": "R-C24.6", "C24-3": "R-C24.2", "C24-4": "R-C24.7"},
    "C28": {"C28-2": "R-C28.1", "C28-3": "R-C28.1"},
    "C29": {"C29-1": "R-C29.3", "C29-2": "R-C29.4", "C29-3": "R-C29."},
    "C30": {"C30-1": "R-C30.3", "C30-2": "R-C30.1"},
    "C32": {"C32-1": "R-C32.3", "C32-2": "R-C32.4", "C32-3": "R-C32.3"},
    "C33": {"C33-1": "R-C33.3", "C33-2": "R-C33.2", "C33-3": "R-C33.3"},
}

# later seeds are recorded in seeded/EXPECTED.json (written by `tools/seed_eval.py expected` from a full run, committed)
import json as _json
import os as _os0

_exp = _os0.path.join(_os0.path.dirname(_os0.path.dirname(_os0.path.dirname(_os0.path.abspath(__file__)))), "seeded", "EXPECTED.json")
if _os0.path.exists(_exp):
    for _p, _d in _json.load(open(_exp)).items():
        for _sid, _rule in _d.items():
            SEEDS.setdefault(_p, {}).setdefault(_sid, _rule)

MUTANTS: dict[str, list[tuple[str, str, str, str, str | None]]] = {}

# ---------------------------------------------------------------------------------------- C01
_cfgc = I + "compiler/cfg_compiler.py"
_core = I + "compiler/core.py"
MUTANTS["C01"] = [
    ("branch sum takes copyable instead of non-linear", _cfgc,
     "[v for v in sort_vars(row) if not v.ty.linear]", "[v for v in sort_vars(row) if v.ty.copyable]", "R-C01.6"),
    ("non-entry blocks declare their inputs in signature order", _cfgc,
     "inputs = sort_vars(bb.sig.input_row)", "inputs = list(bb.sig.input_row)", "R-C01.6"),
    ("sort order puts linear variables first", _cfgc,
     "    key1 = (p1.ty.linear, _name_key(p1), str(p1))\n    key2 = (p2.ty.linear, _name_key(p2), str(p2))", "    key1 = (not p1.ty.linear, _name_key(p1), str(p1))\n    key2 = (not p2.ty.linear, _name_key(p2), str(p2))", "R-C01.6"),
    ("sort order ignores the name", _cfgc,
     "    key1 = (p1.ty.linear, _name_key(p1), str(p1))\n    key2 = (p2.ty.linear, _name_key(p2), str(p2))", "    key1 = (p1.ty.linear,)\n    key2 = (p2.ty.linear,)", "R-C01.6"),
    ("regular outputs keep everything", _cfgc,
     "outputs = [v for v in first if v.ty.linear]", "outputs = [v for v in first if True or v.ty.linear]", "R-C01.6"),
    ("outputs not sorted like successor inputs", _cfgc,
     "outputs = sort_vars(outputs)", "outputs = list(outputs)", "R-C01.6"),
    ("return vars appended instead of prepended for predecessors", _cfgc,
     "pred.sig = Signature(pred.sig.input_row, [[*return_vars, *out_row]])", "pred.sig = Signature(pred.sig.input_row, [[*out_row]])", "R-C01.4"),
    # (benign since /repo 7da4cc1: every leaf store forgets the packed wires of its enclosing places, so the struct-level pop
    #  after the field loop has become redundant -- before that fix this variant was reported by clause a of R-C01.5)
    ("benign: struct store without its own (now redundant) pop of the aggregate wire", _core,
     "            self.locals.pop(place.id, None)\n        # Same for tuples.", "            pass\n        # Same for tuples.", None),
    ("leaf store keeps the packed wire of the enclosing struct", _core,
     "            while isinstance(place, FieldAccess | TupleAccess):\n                place = place.parent\n                self.locals.pop(place.id, None)",
     "            pass", "R-C01.5"),
    ("leaf store forgets only the direct parent's packed wire", _core,
     "            while isinstance(place, FieldAccess | TupleAccess):\n                place = place.parent\n                self.locals.pop(place.id, None)",
     "            if isinstance(place, FieldAccess | TupleAccess):\n                place = place.parent\n                self.locals.pop(place.id, None)", "R-C01.5"),
    ("linear leaves stay bound after packing", _core,
     "            if child.ty.linear:\n                self.locals.pop(child.id)", "            if child.ty.linear and False:\n                self.locals.pop(child.id)", "R-C01.5"),
    ("tuple packed in reverse order", _core,
     "for idx, elem in enumerate(place.ty.element_types)\n            ]\n        else:", "for idx, elem in reversed(list(enumerate(place.ty.element_types)))\n            ]\n        else:", "R-C01.5"),
    ("compiler visitor for PartialApply removed (renamed)", I + "compiler/expr_compiler.py",
     "    def visit_PartialApply(self, node: PartialApply) -> Wire:", "    def _visit_PartialApply(self, node: PartialApply) -> Wire:", "R-C01.1"),
    ("drops inserted before the worklist is drained", _core,
     "            self.worklist[next_id] = None", "            self.worklist[next_id] = None", None),  # placeholder benign no-op, replaced below
    ("benign: comprehension variable renamed", _cfgc,
     "outputs = [v for v in first if v.ty.linear]", "outputs = [w for w in first if w.ty.linear]", None),
    ("benign: local renamed in __getitem__", _core,
     "child_wires = [self[child] for child in children]", "child_wires = [self[ch] for ch in children]", None),
]
MUTANTS["C01"] = [m for m in MUTANTS["C01"] if m[2] != m[3]]

# the other properties' tables live in sibling modules (one per batch of properties)
import importlib as _il
import pkgutil as _pk
import os as _os

for _m in sorted(x.name for x in _pk.iter_modules([_os.path.dirname(__file__)]) if x.name.startswith("mutants_")):
    for _k, _v in _il.import_module(f"{__package__}.{_m}").M.items():
        MUTANTS.setdefault(_k, []).extend(_v)
