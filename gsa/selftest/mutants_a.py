"""Self-test variants for C05, C06, C07 (format: see mutants.py)."""

I = "guppylang-internals/src/guppylang_internals/"
_b = I + "cfg/builder.py"
_core = I + "compiler/core.py"
_lin = I + "checker/linearity_checker.py"
_ec = I + "compiler/expr_compiler.py"

M = {
    "C05": [
        ("and: right operand built in the block of the left one", _b,
         "        self.visit(right, extra_bb, true_bb, false_bb)", "        self.visit(right, bb, true_bb, false_bb)", "R-C05.1"),
        ("conditional expression: else-value built in the then-block", _b,
         "else_expr, else_bb = self.build(node.orelse, self.cfg, else_bb)", "else_expr, else_bb = self.build(node.orelse, self.cfg, if_bb)", "R-C05.1"),
        ("branch on conditional expression: else-branch visited in then-block", _b,
         "        self.visit(node.orelse, else_bb, true_bb, false_bb)", "        self.visit(node.orelse, then_bb, true_bb, false_bb)", "R-C05.1"),
        ("calls no longer count as side effects", _core,
         "            # precise answer\n            return True", "            # precise answer\n            return False", "R-C05.2"),
        ("qubit free dropped from the side-effect list", _core,
         '    QUANTUM_EXTENSION.get_op("QFree").qualified_name(),\n', "", "R-C05.2"),
        ("tracker forgets the previous side-effecting node", _core,
         "            hugr.add_order_link(prev_node, node)\n            prev_node_with_side_effect[parent] = (node, hugr)",
         "            hugr.add_order_link(prev_node, node)", "R-C05.2"),
        ("chained comparison: first operand evaluated after the second (built inside the first comparison)", _b,
         "            left, bb = self._bind_to_tmp(node.left, bb)\n", "            left = node.left\n", "R-C05.1"),
        ("or: left operand's branches swapped", _b,
         "            self.visit(left, bb, true_bb, extra_bb)", "            self.visit(left, bb, extra_bb, true_bb)", "R-C05.1"),
        ("benign: then/else blocks of a conditional branch visited in the other order", _b,
         "        self.visit(node.body, then_bb, true_bb, false_bb)\n        self.visit(node.orelse, else_bb, true_bb, false_bb)",
         "        self.visit(node.orelse, else_bb, true_bb, false_bb)\n        self.visit(node.body, then_bb, true_bb, false_bb)", None),
        ("benign: not-branch spelled with a temporary", _b,
         "            self.visit(node.operand, bb, false_bb, true_bb)", "            operand = node.operand\n            self.visit(operand, bb, false_bb, true_bb)", None),
    ],
    "C06": [
        ("already-used test inverted on copyable", _lin,
         "            for place in leaf_places(node.place):\n                x = place.id\n                if (prev_use := self.scope.used(x)) and not place.ty.copyable:", "            for place in leaf_places(node.place):\n                x = place.id\n                if (prev_use := self.scope.used(x)) and place.ty.copyable:", "R-C06.2"),
        ("discarded expression: droppable test dropped", _lin,
         "        ty = get_type(node.value)\n        if not ty.droppable:", "        ty = get_type(node.value)\n        if not ty.droppable and ty.copyable:", "R-C06.2"),
        ("borrowed use allowed without re-borrow", _lin,
         "        if is_inout_var(node.place) and not is_inout_arg:", "        if is_inout_var(node.place) and not is_inout_arg and False:", "R-C06.2"),
        ("unused check ignores affine values", _lin,
         "if not leaf.ty.droppable and not scope.used(x) and not used_later:", "if not leaf.ty.droppable and not leaf.ty.copyable and scope.used(x) and not used_later:", "R-C06.2"),
        ("used_later computed with any()", _lin,
         "used_later = all(x in live_before[succ] for succ in bb.successors)", "used_later = any(x in live_before[succ] for succ in bb.successors)", "R-C06.2"),
        ("local call does not hand borrowed args back", _lin,
         "        self._reassign_inout_args(func_ty, node)\n\n    def visit_TensorCall", "        pass\n\n    def visit_TensorCall", "R-C06.1"),
        ("benign: walrus split into two statements", _lin,
         "            for place in leaf_places(node.place):\n                x = place.id\n                if (prev_use := self.scope.used(x)) and not place.ty.copyable:", "            for place in leaf_places(node.place):\n                x = place.id\n                prev_use = self.scope.used(x)\n                if prev_use and not place.ty.copyable:", None),
    ],
    "C07": [
        ("write-back skipped for non-subscript places", _ec,
         "                self.dfg[arg.place] = next(inout_ports)\n", "                next(inout_ports)\n", "R-C07.2"),
        ("non-place borrowed argument does not consume its port", _ec,
         "                if not isinstance(arg, PlaceNode):\n                    next(inout_ports)\n                    continue", "                if not isinstance(arg, PlaceNode):\n                    continue", "R-C07.2"),
        ("setitem write-back not compiled", _ec,
         "                    self.visit(subscript.setitem_call.call)\n        assert next(inout_ports, None)", "                    pass\n        assert next(inout_ports, None)", "R-C07.2"),
        ("local call forgets the write-back", _ec,
         "        inout_returns = call[num_returns:]\n        self._update_inout_ports(node.args, inout_returns, func_ty)", "        inout_returns = call[num_returns:]", "R-C07.1"),
        ("benign: loop variables renamed", _ec,
         "        for inp, arg in zip(func_ty.inputs, args, strict=True):\n            if InputFlags.Inout in inp.flags:\n                # Linearity checker ensures",
         "        for inp, arg in zip(func_ty.inputs, args, strict=True):\n            flags = inp.flags\n            if InputFlags.Inout in flags:\n                # Linearity checker ensures", None),
    ],
}
