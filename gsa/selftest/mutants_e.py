"""Self-test variants for C28 .. C33 (format: see mutants.py)."""

I = "guppylang-internals/src/guppylang_internals/"
G = "guppylang/src/guppylang/"
_inst = G + "emulator/instance.py"
_diag = I + "diagnostic.py"
_span = I + "span.py"
_exp = I + "experimental.py"
_b = I + "cfg/builder.py"
_ec = I + "checker/expr_checker.py"
_fc = I + "checker/func_checker.py"
_sc = I + "checker/stmt_checker.py"

M = {
    "C28": [
        ("with_seed seeds the shared simulator", _inst,
         "        simulator = copy.copy(self._options._simulator)\n", "        simulator = self._options._simulator\n", "R-C28.1"),
        ("with_shots mutates the options in place", _inst,
         "        return self._with_option(_shots=value)", "        object.__setattr__(self._options, \"_shots\", value)\n        return self", "R-C28"),
        ("_with_option edits the old options object", _inst,
         "        return replace(self, _options=replace(self._options, **kwargs))", "        self._options.__dict__.update(kwargs)\n        return replace(self, _options=self._options)", "R-C28"),
        ("benign: replace spelled in two steps", _inst,
         "        return replace(self, _options=replace(self._options, **kwargs))", "        new_options = replace(self._options, **kwargs)\n        return replace(self, _options=new_options)", None),
    ],
    "C29": [
        # (today's wrap leaves break_long_words at its default: listed known finding; spelling the default out is no change)
        ("benign w.r.t. C29: blank paragraphs are dropped (no word is lost, the destructuring stays total)", _diag,
         "        for line in (textwrap.wrap(paragraph, width, **kwargs) if paragraph else [\"\"])", "        for line in textwrap.wrap(paragraph, width, **kwargs)", None),
        ("blank text crashes the destructuring", _diag,
         "    ] or [\"\"]\n    # Manually take care", "    ]\n    # Manually take care", "R-C29.2"),
        ("source lines served from a stale cache", _span,
         "        if content is None:\n            self.sources[file] = [line.rstrip() for line in linecache.getlines(file)]",
         "        if file in self.sources:\n            return\n        if content is None:\n            self.sources[file] = [line.rstrip() for line in linecache.getlines(file)]", "R-C29.4"),
        ("span_lines drops the last line", _span,
         "            span.start.line - prefix_lines - 1 : span.end.line\n", "            span.start.line - prefix_lines - 1 : span.end.line - 1\n", "R-C29.4"),
        ("benign: comprehension variable renamed", _diag,
         "    return [initial_indent + first, *(subsequent_indent + line for line in rest)]", "    return [initial_indent + first, *(subsequent_indent + ln for ln in rest)]", None),
    ],
    "C30": [
        ("containment compares only the start", _span,
         "            return self.start <= x.start and x.end <= self.end", "            return self.start <= x.start and x.start <= self.end", "R-C30.1"),
        ("location containment excludes the start", _span,
         "        return self.start <= x <= self.end", "        return self.start < x <= self.end", "R-C30.2"),
        ("benign: location containment excludes the (documented exclusive) end -- the statement leaves the boundary open", _span,
         "        return self.start <= x <= self.end", "        return self.start <= x < self.end", None),
        ("intersection of disjoint spans", _span,
         "        if self.start > other.end or other.start > self.end:\n            return None", "        if self.start > other.end and other.start > self.end:\n            return None", "R-C30.3"),
        ("intersection takes the outer bounds", _span,
         "        return Span(max(self.start, other.start), min(self.end, other.end))", "        return Span(min(self.start, other.start), max(self.end, other.end))", "R-C30.3"),
        ("benign: explicit file test dropped from containment (Loc order compares the file first, so spans of other files can never satisfy both comparisons)", _span,
         "        if self.file != x.file:\n            return False\n", "", None),
        ("benign: explicit file test dropped from intersection (one of the two disjointness comparisons is always true across files)", _span,
         "        if self.file != other.file:\n            return None\n", "", None),
        ("intersection ignores the file when spans come from different files", _span,
         "        if self.file != other.file:\n            return None\n        if self.start > other.end or other.start > self.end:",
         "        if self.start.line > other.end.line or other.start.line > self.end.line:", "R-C30.3"),
        ("benign: De Morgan on the disjointness test", _span,
         "        if self.start > other.end or other.start > self.end:\n            return None", "        if not (self.start <= other.end and other.start <= self.end):\n            return None", None),
    ],
    "C32": [
        ("while-else accepted and ignored", _b,
         "    def visit_While(self, node: ast.While, bb: BB, jumps: Jumps) -> BB | None:\n        if node.orelse:\n            raise GuppyError(UnsupportedError(node.orelse[0], \"Loop else clauses\"))\n",
         "    def visit_While(self, node: ast.While, bb: BB, jumps: Jumps) -> BB | None:\n", "R-C32.1"),
        ("unknown statements are skipped", _b,
         "        raise GuppyError(UnsupportedError(node, \"This statement\", singular=True))", "        return bb", "R-C32.2"),
        ("unknown expressions pass through", _ec,
         "        raise GuppyError(UnsupportedError(node, \"This expression\", singular=True))", "        return node, NoneType()", "R-C32.2"),
        ("default arguments silently ignored", _fc,
         "    if func_def.args.defaults:\n", "    if func_def.args.defaults and False:\n", "R-C32.3"),
        ("variadic parameter silently ignored", _fc,
         "    if func_def.args.vararg is not None:\n        raise GuppyError(UnsupportedError(func_def.args.vararg, \"Variadic args\"))\n", "", "R-C32."),
        ("benign: orelse test spelled with len()", _b,
         "    def visit_While(self, node: ast.While, bb: BB, jumps: Jumps) -> BB | None:\n        if node.orelse:",
         "    def visit_While(self, node: ast.While, bb: BB, jumps: Jumps) -> BB | None:\n        if len(node.orelse) > 0:", None),
    ],
    "C33": [
        ("list gate always open", _exp,
         "def check_lists_enabled(loc: AstNode | None = None) -> None:\n    if not EXPERIMENTAL_FEATURES_ENABLED:", "def check_lists_enabled(loc: AstNode | None = None) -> None:\n    if False:", "R-C33.1"),
        ("modifier gate tests a stale copy of the flag", _exp,
         "def check_modifiers_enabled(loc: AstNode | None = None) -> None:\n    if not EXPERIMENTAL_FEATURES_ENABLED:", "def check_modifiers_enabled(loc: AstNode | None = None, _on: bool = EXPERIMENTAL_FEATURES_ENABLED) -> None:\n    if not _on:", "R-C33.1"),
        ("with-blocks built without passing the gate", _b,
         "        check_modifiers_enabled(node)\n", "", "R-C33.2"),
        ("list comprehension built without passing the gate", _b,
         "    def visit_ListComp(self, node: ast.ListComp) -> DesugaredListComp:\n        check_lists_enabled(node)\n", "    def visit_ListComp(self, node: ast.ListComp) -> DesugaredListComp:\n", "R-C33.2"),
        ("exit leaves the features enabled", _exp,
         "        global EXPERIMENTAL_FEATURES_ENABLED\n        EXPERIMENTAL_FEATURES_ENABLED = self.original\n\n\nclass disable_experimental_features",
         "        global EXPERIMENTAL_FEATURES_ENABLED\n        EXPERIMENTAL_FEATURES_ENABLED = True\n\n\nclass disable_experimental_features", "R-C33.3"),
        ("benign: gate spelled with an equality test", _exp,
         "def check_lists_enabled(loc: AstNode | None = None) -> None:\n    if not EXPERIMENTAL_FEATURES_ENABLED:", "def check_lists_enabled(loc: AstNode | None = None) -> None:\n    if EXPERIMENTAL_FEATURES_ENABLED is False:", None),
    ],
}
