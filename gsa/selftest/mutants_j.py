"""Benign ADDITIONS: new, correct code next to anchored code.  Who-may / enumeration rules must not mistake it
for a violation (format: see mutants.py)."""

I = "guppylang-internals/src/guppylang_internals/"
G = "guppylang/src/guppylang/"

M = {
    "C22": [
        ("benign addition: frozenlist gets a non-mutating helper", I + "tracing/frozenlist.py",
         "    def extend(self, *args: Any, **kwargs: Any) -> None:\n        raise GuppyComptimeError(ERROR_MSG)\n",
         "    def extend(self, *args: Any, **kwargs: Any) -> None:\n        raise GuppyComptimeError(ERROR_MSG)\n\n    def first(self) -> Any:\n        return self[0] if len(self) > 0 else None\n", None),
    ],
    "C24": [
        ("benign addition: unitary checker visits lambda-free tuples explicitly", I + "checker/unitary_checker.py",
         "    def visit_BarrierExpr(self, node: BarrierExpr) -> None:\n",
         "    def visit_Tuple(self, node: ast.Tuple) -> None:\n        for elt in node.elts:\n            self.visit(elt)\n\n    def visit_BarrierExpr(self, node: BarrierExpr) -> None:\n", None),
    ],
    "C05": [
        ("benign addition: one more side-effecting op listed", I + "compiler/core.py",
         "    PRELUDE.get_op(\"panic\").qualified_name(),\n    PRELUDE.get_op(\"exit\").qualified_name(),",
         "    PRELUDE.get_op(\"panic\").qualified_name(),\n    PRELUDE.get_op(\"exit\").qualified_name(),\n    QUANTUM_EXTENSION.get_op(\"Reset\").qualified_name(),", None),
    ],
    "C21": [
        ("benign addition: helper method on the dunder mixin", I + "tracing/object.py",
         "    @binary_operation\n    def __xor__(self, other: Any) -> Any:\n        return self._get_method(\"__xor__\")(other)\n",
         "    @binary_operation\n    def __xor__(self, other: Any) -> Any:\n        return self._get_method(\"__xor__\")(other)\n\n    def _describe(self) -> str:\n        return type(self).__name__\n", None),
    ],
    "C33": [
        ("benign addition: a new gate next to the others", I + "experimental.py",
         "def check_modifiers_enabled(loc: AstNode | None = None) -> None:\n    if not EXPERIMENTAL_FEATURES_ENABLED:\n        raise GuppyError(ExperimentalFeatureError(loc, \"Modifiers\"))",
         "def check_modifiers_enabled(loc: AstNode | None = None) -> None:\n    if not EXPERIMENTAL_FEATURES_ENABLED:\n        raise GuppyError(ExperimentalFeatureError(loc, \"Modifiers\"))\n\n\ndef check_sets_enabled(loc: AstNode | None = None) -> None:\n    if not EXPERIMENTAL_FEATURES_ENABLED:\n        raise GuppyError(ExperimentalFeatureError(loc, \"Sets\"))", None),
    ],
    "C28": [
        ("benign addition: a derivation built from a fresh local list", G + "emulator/instance.py",
         "        This is useful for running multiple emulator instances in parallel.\"\"\"\n        return self._with_option(_shot_offset=value)\n",
         "        This is useful for running multiple emulator instances in parallel.\"\"\"\n        return self._with_option(_shot_offset=value)\n\n    def with_shot_offsets(self, values: list[int]) -> list[Self]:\n        out: list[Self] = []\n        for v in values:\n            out.append(self._with_option(_shot_offset=v))\n        return out\n", None),
    ],
    "C11": [
        ("benign addition: a helper that fills a local dict", I + "engine.py",
         "    def reset(self) -> None:\n        \"\"\"Resets the compilation cache.\"\"\"",
         "    def summary(self) -> dict[str, int]:\n        out: dict[str, int] = {}\n        out[\"parsed\"] = len(self.parsed)\n        out[\"checked\"] = len(self.checked)\n        return out\n\n    def reset(self) -> None:\n        \"\"\"Resets the compilation cache.\"\"\"", None),
    ],
    "C10": [
        ("benign addition: order-free uses of a set (membership count, sorted listing)", I + "checker/cfg_checker.py",
         "    map1, map2 = {v.name: v for v in row1}, {v.name: v for v in row2}\n",
         "    map1, map2 = {v.name: v for v in row1}, {v.name: v for v in row2}\n    shared = map1.keys() & map2.keys()\n    n_shared = sum(1 for x in shared if x in map1)\n    listing = sorted(shared)\n    assert n_shared == len(listing)\n", None),
    ],
    "C23": [
        ("benign addition: a tracing helper that reads (does not write) the function's globals", I + "tracing/builtins_mock.py",
         "@contextmanager\ndef mock_builtins(f: Callable[..., Any]) -> Iterator[None]:",
         "def shadowed_builtins(f: Callable[..., Any]) -> list[str]:\n    return [x for x in (\"float\", \"int\", \"len\") if x in f.__globals__]\n\n\n@contextmanager\ndef mock_builtins(f: Callable[..., Any]) -> Iterator[None]:", None),
    ],
    "C32": [
        ("benign addition: statements after a rejection test are untouched by an extra, explicit rejection", I + "checker/func_checker.py",
         "    if func_def.args.kwarg is not None:\n        raise GuppyError(UnsupportedError(func_def.args.kwarg, \"Keyword args\"))",
         "    if func_def.args.kwarg is not None:\n        raise GuppyError(UnsupportedError(func_def.args.kwarg, \"Keyword args\"))\n    if func_def.args.kw_defaults:\n        raise GuppyError(UnsupportedError(func_def.args.kw_defaults[0], \"Default arguments\"))", None),
    ],
    "C14": [
        ("benign addition: a convenience property built from the two flags", I + "tys/ty.py",
         "    @property\n    def linear(self) -> bool:\n        \"\"\"Whether this type should be treated linearly.\"\"\"\n        return not self.copyable and not self.droppable",
         "    @property\n    def linear(self) -> bool:\n        \"\"\"Whether this type should be treated linearly.\"\"\"\n        return not self.copyable and not self.droppable\n\n    @property\n    def freely_usable(self) -> bool:\n        \"\"\"Copyable and droppable.\"\"\"\n        return self.copyable and self.droppable", None),
    ],
    "C09": [
        ("benign addition: analysis base class gets a debugging helper", I + "cfg/analysis.py",
         "    def eq(self, t1: T, t2: T, /) -> bool:\n        \"\"\"Equality on lattice values\"\"\"\n        return t1 == t2",
         "    def eq(self, t1: T, t2: T, /) -> bool:\n        \"\"\"Equality on lattice values\"\"\"\n        return t1 == t2\n\n    def describe(self) -> str:\n        return type(self).__name__", None),
    ],
}
