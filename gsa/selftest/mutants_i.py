"""Benign refactorings (behaviour-preserving re-spellings of anchored code): every check must stay silent.

Format: see mutants.py.  These are the edits a maintainer makes without changing behaviour -- early
returns instead of nested tests, try/except instead of suppress(), a helper local, De Morgan,
`while q:` instead of `while len(q) > 0:` -- and they are what a shape-matching rule trips over.
"""

I = "guppylang-internals/src/guppylang_internals/"
G = "guppylang/src/guppylang/"

M = {
    "C15": [
        ("benign: suppress() spelled as try/except GuppyError", I + "definition/overloaded.py",
         "            with suppress(GuppyError):\n                return defn.check_call(args, ty, node, ctx)",
         "            try:\n                return defn.check_call(args, ty, node, ctx)\n            except GuppyError:\n                pass", None),
    ],
    "C24": [
        ("benign: _check_call with early returns", I + "checker/unitary_checker.py",
         "        classic = self._check_classical_args(node.args)\n        flag_ok = self.flags in ty.unitary_flags\n        if not classic and not flag_ok:\n            raise GuppyTypeError(\n                UnitaryCallError(node, self.flags & (~ty.unitary_flags))\n            )",
         "        classic = self._check_classical_args(node.args)\n        if classic:\n            return\n        if self.flags in ty.unitary_flags:\n            return\n        raise GuppyTypeError(\n            UnitaryCallError(node, self.flags & (~ty.unitary_flags))\n        )", None),
    ],
    "C06": [
        ("benign: visit_Expr with an early return", I + "checker/linearity_checker.py",
         "        ty = get_type(node.value)\n        if not ty.droppable:\n            err = UnnamedExprNotUsedError(node, ty)\n            err.add_sub_diagnostic(UnnamedExprNotUsedError.Fix(None))\n            raise GuppyTypeError(err)",
         "        ty = get_type(node.value)\n        if ty.droppable:\n            return\n        err = UnnamedExprNotUsedError(node, ty)\n        err.add_sub_diagnostic(UnnamedExprNotUsedError.Fix(None))\n        raise GuppyTypeError(err)", None),
    ],
    "C16": [
        ("benign: try_coerce_to with an early return", I + "checker/expr_checker.py",
         "    if act.kind < exp.kind:\n        f = ctx.globals.get_instance_func(act, f\"__{exp.kind.name.lower()}__\")\n        assert f is not None\n        node, subst = f.check_call([node], exp, node, ctx)\n        assert len(subst) == 0, \"Coercion methods are not generic\"\n        return node\n    return None",
         "    if not (act.kind < exp.kind):\n        return None\n    f = ctx.globals.get_instance_func(act, f\"__{exp.kind.name.lower()}__\")\n    assert f is not None\n    node, subst = f.check_call([node], exp, node, ctx)\n    assert len(subst) == 0, \"Coercion methods are not generic\"\n    return node", None),
    ],
    "C17": [
        ("benign: range test as a chained comparison", I + "checker/expr_checker.py",
         "    if value < min_v or value > max_v:", "    if not (min_v <= value <= max_v):", None),
    ],
    "C13": [
        ("benign: dense index computed with a counting loop", I + "compiler/core.py",
         "    return sum(1 for arg in mono_args[:idx] if arg is None)",
         "    n = 0\n    for arg in mono_args[:idx]:\n        if arg is None:\n            n += 1\n    return n", None),
    ],
    "C09": [
        ("benign: forward worklist loop tests the dict's truthiness", I + "cfg/analysis.py",
         "        queue = dict.fromkeys(bbs)\n        while len(queue) > 0:\n            bb, _ = queue.popitem()\n            preds = (",
         "        queue = dict.fromkeys(bbs)\n        while queue:\n            bb, _ = queue.popitem()\n            preds = (", None),
    ],
    "C10": [
        ("benign: forward worklist loop tests the dict's truthiness", I + "cfg/analysis.py",
         "        queue = dict.fromkeys(bbs)\n        while len(queue) > 0:\n            bb, _ = queue.popitem()\n            preds = (",
         "        queue = dict.fromkeys(bbs)\n        while queue:\n            bb, _ = queue.popitem()\n            preds = (", None),
    ],
    "C08": [
        ("benign: entry-block test with the local case first as a separate if", I + "checker/cfg_checker.py",
         "            if x in cfg.assigned_somewhere or (\n                x not in globals and x not in generic_params\n            ):\n                raise GuppyError(VarNotDefinedError(use, x))",
         "            if x in cfg.assigned_somewhere:\n                raise GuppyError(VarNotDefinedError(use, x))\n            if x not in globals and x not in generic_params:\n                raise GuppyError(VarNotDefinedError(use, x))", None),
    ],
    "C11": [
        ("benign: check() resets through a local alias of self", I + "engine.py",
         "        #  need to store and check if any dependencies have changed.\n        self.reset()\n",
         "        #  need to store and check if any dependencies have changed.\n        engine = self\n        engine.reset()\n", None),
    ],
    "C28": [
        ("benign: with_seed builds the seeded simulator with dataclasses.replace", G + "emulator/instance.py",
         "        simulator = copy.copy(self._options._simulator)\n        simulator.random_seed = value\n",
         "        simulator = replace(self._options._simulator, random_seed=value)\n", None),
    ],
    "C29": [
        ("benign: wrap through a TextWrapper object", I + "diagnostic.py",
         "        for line in (textwrap.wrap(paragraph, width, **kwargs) if paragraph else [\"\"])",
         "        for line in (textwrap.TextWrapper(width=width, **kwargs).wrap(paragraph) if paragraph else [\"\"])", None),
    ],
    "C33": [
        ("benign: __exit__ restores through a local", I + "experimental.py",
         "        global EXPERIMENTAL_FEATURES_ENABLED\n        EXPERIMENTAL_FEATURES_ENABLED = self.original\n\n\nclass disable_experimental_features",
         "        global EXPERIMENTAL_FEATURES_ENABLED\n        previous = self.original\n        EXPERIMENTAL_FEATURES_ENABLED = previous\n\n\nclass disable_experimental_features", None),
    ],
    "C32": [
        ("benign: parameter-kind rejections test emptiness with truthiness", I + "checker/func_checker.py",
         "    if len(func_def.args.posonlyargs) != 0:", "    if func_def.args.posonlyargs:", None),
    ],
    "C22": [
        ("benign: _use_wire without else after the raise", I + "tracing/object.py",
         "            raise GuppyComptimeError(err)\n        # Otherwise, mark it as used\n        else:\n            frame = get_calling_frame()\n            assert frame is not None\n            module_name = frame.f_code.co_filename\n            self._used = ObjectUse(module_name, frame.f_lineno, called_func)\n            if not self._ty.droppable:\n                state = get_tracing_state()\n                state.unused_undroppable_objs.pop(self._id)\n        return self._wire",
         "            raise GuppyComptimeError(err)\n        # Otherwise, mark it as used\n        frame = get_calling_frame()\n        assert frame is not None\n        module_name = frame.f_code.co_filename\n        self._used = ObjectUse(module_name, frame.f_lineno, called_func)\n        if not self._ty.droppable:\n            state = get_tracing_state()\n            state.unused_undroppable_objs.pop(self._id)\n        return self._wire", None),
    ],
    "C07": [
        ("benign: borrowed-flag test bound to a local", I + "compiler/expr_compiler.py",
         "            if InputFlags.Inout in inp.flags:\n                # Linearity checker ensures that borrowed arguments that are not places",
         "            is_borrowed = InputFlags.Inout in inp.flags\n            if is_borrowed:\n                # Linearity checker ensures that borrowed arguments that are not places", None),
    ],
    "C12": [
        ("benign: arms for bound variables and constants swapped", I + "tys/ty.py",
         "        case BoundVar(idx=s_idx), BoundVar(idx=t_idx) if s_idx == t_idx:\n            return subst\n        case ConstValue(value=c_value), ConstValue(value=d_value) if c_value == d_value:\n            return subst\n",
         "        case ConstValue(value=c_value), ConstValue(value=d_value) if c_value == d_value:\n            return subst\n        case BoundVar(idx=s_idx), BoundVar(idx=t_idx) if s_idx == t_idx:\n            return subst\n", None),
    ],
    "C14": [
        ("benign: copyable computed with an explicit loop", I + "tys/ty.py",
         "        return self.intrinsically_copyable and all(\n            not isinstance(arg, TypeArg) or arg.ty.copyable for arg in self.args\n        )",
         "        if not self.intrinsically_copyable:\n            return False\n        for arg in self.args:\n            if isinstance(arg, TypeArg) and not arg.ty.copyable:\n                return False\n        return True", None),
    ],
    "C23": [
        ("benign: mock table built with dict()", I + "tracing/builtins_mock.py",
         "    mock = {\"float\": float, \"int\": int, \"len\": len}", "    mock = dict(float=float, int=int, len=len)", None),
    ],
    "C30": [
        ("benign: containment with explicit start/end locals", I + "span.py",
         "            return self.start <= x.start and x.end <= self.end", "            s, e = x.start, x.end\n            return self.start <= s and e <= self.end", None),
    ],
    "C05": [
        ("benign: BoolOp branch chooses targets before visiting", I + "cfg/builder.py",
         "        if isinstance(node.op, ast.And):\n            self.visit(left, bb, extra_bb, false_bb)\n        elif isinstance(node.op, ast.Or):\n            self.visit(left, bb, true_bb, extra_bb)",
         "        if isinstance(node.op, ast.And):\n            t_bb, f_bb = extra_bb, false_bb\n        else:\n            t_bb, f_bb = true_bb, extra_bb\n        self.visit(left, bb, t_bb, f_bb)", None),
    ],
    "C01": [
        ("benign: same-places test with a helper local", I + "compiler/cfg_compiler.py",
         "        if all({p.id for p in first} == {p.id for p in r} for r in rest):", "        first_ids = {p.id for p in first}\n        if all(first_ids == {p.id for p in r} for r in rest):", None),
    ],
    "C21": [
        ("benign: reflected lookup through a local table variable", I + "tracing/object.py",
         "        if f.__name__ in binary_table:\n            reverse_method, display_name = binary_table[f.__name__]",
         "        name = f.__name__\n        if name in binary_table:\n            reverse_method, display_name = binary_table[name]", None),
    ],
}
