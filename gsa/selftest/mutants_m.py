"""Variants for the end-to-end worklist rule R-C09.7 and the evaluated transfer rule R-C09.2 (format: see mutants.py)."""

I = "guppylang-internals/src/guppylang_internals/"
_an = I + "cfg/analysis.py"

_cfgc = I + "compiler/cfg_compiler.py"

_ec = I + "checker/expr_checker.py"

M = {
    "C16": [
        ("coercion tried with actual and expected swapped", _ec,
         "        if coerced := try_coerce_to(act, exp, node, ctx):", "        if coerced := try_coerce_to(exp, act, node, ctx):", "R-C16.2"),
        ("coercion tried before unification", _ec,
         "    subst = unify(exp, act, {})\n    if subst is None:\n        # Maybe we can implicitly coerce `act` to `exp`\n        if coerced := try_coerce_to(act, exp, node, ctx):\n            return coerced, {}, []\n",
         "    if coerced := try_coerce_to(act, exp, node, ctx):\n        return coerced, {}, []\n    subst = unify(exp, act, {})\n    if subst is None:\n", "R-C16.2"),
        ("the uncoerced node is returned after a successful coercion", _ec,
         "            return coerced, {}, []\n        raise GuppyTypeError(TypeMismatchError(node, exp, act, kind))",
         "            return node, {}, []\n        raise GuppyTypeError(TypeMismatchError(node, exp, act, kind))", "R-C16.2"),
        ("a failed coercion falls through to success", _ec,
         "            return coerced, {}, []\n        raise GuppyTypeError(TypeMismatchError(node, exp, act, kind))\n    return node, subst, []",
         "            return coerced, {}, []\n        subst = {}\n    return node, subst, []", "R-C16.2"),
        ("benign: guard clauses in check_type_against, walrus removed", _ec,
         "    if subst is None:\n        # Maybe we can implicitly coerce `act` to `exp`\n        if coerced := try_coerce_to(act, exp, node, ctx):\n            return coerced, {}, []\n        raise GuppyTypeError(TypeMismatchError(node, exp, act, kind))\n    return node, subst, []",
         "    if subst is not None:\n        return node, subst, []\n    converted = try_coerce_to(act, exp, node, ctx)\n    if converted is None:\n        raise GuppyTypeError(TypeMismatchError(node, exp, act, kind))\n    return converted, {}, []", None),
    ],
    "C11": [
        ("return variables inserted on every lowering", _cfgc,
         "    if all(\n        not is_return_var(v.name)\n        for v in cfg.exit_bb.sig.input_row\n        if isinstance(v, Variable)\n    ):\n        insert_return_vars(cfg)",
         "    insert_return_vars(cfg)", "R-C11.3"),
        ("once-guard weakened from all to any", _cfgc,
         "    if all(\n        not is_return_var(v.name)", "    if any(\n        not is_return_var(v.name)", "R-C11.3"),
        ("once-guard looks at the wrong block's row", _cfgc,
         "        for v in cfg.exit_bb.sig.input_row\n        if isinstance(v, Variable)\n    ):\n        insert_return_vars(cfg)",
         "        for v in cfg.entry_bb.sig.input_row\n        if isinstance(v, Variable)\n    ):\n        insert_return_vars(cfg)", "R-C11.3"),
        ("benign: once-guard spelt as `not any(...)` through a local flag", _cfgc,
         "    if all(\n        not is_return_var(v.name)\n        for v in cfg.exit_bb.sig.input_row\n        if isinstance(v, Variable)\n    ):\n        insert_return_vars(cfg)",
         "    patched = any(is_return_var(v.name) for v in cfg.exit_bb.sig.input_row if isinstance(v, Variable))\n    if not patched:\n        insert_return_vars(cfg)", None),
        ("benign: once-guard as an early-continue style nested test", _cfgc,
         "    if all(\n        not is_return_var(v.name)\n        for v in cfg.exit_bb.sig.input_row\n        if isinstance(v, Variable)\n    ):\n        insert_return_vars(cfg)",
         "    names = [v.name for v in cfg.exit_bb.sig.input_row if isinstance(v, Variable)]\n    if not [n for n in names if is_return_var(n)]:\n        insert_return_vars(cfg)", None),
    ],
    "C09": [
        ("forward run returns the output cache instead of the input map", _an,
         "                    queue.update(dict.fromkeys(bb.dummy_successors))\n        return vals_before",
         "                    queue.update(dict.fromkeys(bb.dummy_successors))\n        return vals_after", "R-C09.7"),
        ("forward run: only the first block is queued initially", _an,
         "        # addresses\n        queue = dict.fromkeys(bbs)", "        # addresses\n        queue = dict.fromkeys(list(bbs)[:1])", "R-C09.7"),
        ("backward run: blocks without successors are skipped", _an,
         "            val_after = self.join(*(vals_before[succ] for succ in succs))\n",
         "            if not succs:\n                continue\n            val_after = self.join(*(vals_before[succ] for succ in succs))\n", "R-C09.7"),
        ("backward run: change detection inverted", _an,
         "            if not self.eq(vals_before[bb], val_before):", "            if self.eq(vals_before[bb], val_before):", "R-C09.7"),
        ("forward run: dummy predecessors joined although unreachable code is excluded", _an,
         "                if self.include_unreachable()\n                else bb.predecessors\n",
         "                if self.include_unreachable() or bb.dummy_predecessors\n                else bb.predecessors\n", None),
        # ^ benign on every CFG the builder produces: with include_unreachable off, unreachable blocks are filtered out and
        #   reachable blocks have no dummy predecessors (pruning step of CFGBuilder.build) -- the rule's graphs respect that
        ("forward run: the changed value is not stored before successors are queued", _an,
         "                vals_after[bb] = val_after\n                queue.update(dict.fromkeys(bb.successors))",
         "                queue.update(dict.fromkeys(bb.successors))", "R-C09.7"),
        ("liveness transfer forgets the variables used in the block", _an,
         "        return {x: bb for x in stats.used} | {\n", "        return {} | {\n", "R-C09.2"),
        ("liveness transfer updates the incoming map in place", _an,
         "        return {x: bb for x in stats.used} | {\n            x: b for x, b in live_after.items() if x not in stats.assigned\n        }",
         "        for x in stats.used:\n            live_after[x] = bb\n        return {x: b for x, b in live_after.items() if x in stats.used or x not in stats.assigned}", "R-C09.2"),
        ("assignment transfer adds the used variables as well", _an,
         "            def_ass_before | stats.assigned.keys(),", "            def_ass_before | stats.assigned.keys() | stats.used.keys(),", "R-C09.2"),
        ("benign: worklist loop spelt with `while queue:` and a helper for the relevant predecessors", _an,
         "        queue = dict.fromkeys(bbs)\n        while len(queue) > 0:\n            bb, _ = queue.popitem()\n            preds = (",
         "        queue = dict.fromkeys(bbs)\n        while queue:\n            bb = queue.popitem()[0]\n            preds = (", None),
        ("benign: liveness transfer built with dict.fromkeys and a loop", _an,
         "        return {x: bb for x in stats.used} | {\n            x: b for x, b in live_after.items() if x not in stats.assigned\n        }",
         "        res = dict.fromkeys(stats.used, bb)\n        for x, b in live_after.items():\n            if x not in stats.assigned:\n                res[x] = b\n        return res", None),
        ("benign: assignment transfer through a local set of the block's assignments", _an,
         "        return (\n            def_ass_before | stats.assigned.keys(),\n            maybe_ass_before | stats.assigned.keys(),\n        )",
         "        here = set(stats.assigned)\n        return def_ass_before | here, maybe_ass_before | here", None),
    ],
}
