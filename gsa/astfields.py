"""Python `ast` field tables (taken from the running interpreter's `ast` module, 3.12),
split into semantic / non-semantic, plus the field *types* needed to follow nodes that
travel as attributes of other nodes."""

from __future__ import annotations

import ast

# carry no program meaning: expression context, type comments, literal kind prefix (u""),
# `simple` flag of AnnAssign (parenthesised target or not)
NON_SEMANTIC = {"ctx", "type_comment", "kind", "simple"}


def all_fields(cls_name: str) -> tuple[str, ...]:
    c = getattr(ast, cls_name, None)
    return tuple(getattr(c, "_fields", ())) if c is not None else ()


def semantic_fields(cls_name: str) -> list[str]:
    return [f for f in all_fields(cls_name) if f not in NON_SEMANTIC]


def is_ast_class(name: str) -> bool:
    c = getattr(ast, name, None)
    return isinstance(c, type) and issubclass(c, ast.AST)


# (owner class, field) -> class of the value; "[X]" = list of X.  Only helper (non expr/stmt)
# node classes are listed: expressions and statements are dispatched through visitors.
FIELD_TYPES: dict[tuple[str, str], str] = {
    ("FunctionDef", "args"): "arguments",
    ("AsyncFunctionDef", "args"): "arguments",
    ("Lambda", "args"): "arguments",
    ("arguments", "posonlyargs"): "[arg]",
    ("arguments", "args"): "[arg]",
    ("arguments", "kwonlyargs"): "[arg]",
    ("arguments", "vararg"): "arg",
    ("arguments", "kwarg"): "arg",
    ("With", "items"): "[withitem]",
    ("AsyncWith", "items"): "[withitem]",
    ("ListComp", "generators"): "[comprehension]",
    ("SetComp", "generators"): "[comprehension]",
    ("DictComp", "generators"): "[comprehension]",
    ("GeneratorExp", "generators"): "[comprehension]",
    ("Call", "keywords"): "[keyword]",
    ("ClassDef", "keywords"): "[keyword]",
    ("Try", "handlers"): "[ExceptHandler]",
    ("Match", "cases"): "[match_case]",
}

STMT_CLASSES = sorted(n for n in dir(ast) if isinstance(getattr(ast, n), type) and issubclass(getattr(ast, n), ast.stmt) and n != "stmt")
EXPR_CLASSES = sorted(n for n in dir(ast) if isinstance(getattr(ast, n), type) and issubclass(getattr(ast, n), ast.expr) and n != "expr"
                      and n not in ("Num", "Str", "Bytes", "NameConstant", "Ellipsis"))
