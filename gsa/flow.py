"""Per-function statement-level control-flow graph and path queries.

Nodes are simple statements and branch tests.  `finally` bodies are duplicated per
continuation (normal / return / raise / break / continue) so that path queries do not
merge paths that Python keeps apart.  Only *explicit* `raise` statements create
exceptional edges; calls are assumed to return normally (the queries below are all of
the form "on every *normal* path ...", or "every path to this raise / this statement").
"""

from __future__ import annotations

import ast
from dataclasses import dataclass, field
from typing import Callable, Iterable


@dataclass
class Node:
    id: int
    kind: str  # entry | exit | raise_exit | stmt | test | handler | join
    ast: ast.AST | None = None
    succ: list[int] = field(default_factory=list)
    # label of outgoing edges for test nodes: succ_label[i] in {"T","F",""}
    succ_label: list[str] = field(default_factory=list)


class CFG:
    def __init__(self, fn: ast.FunctionDef | ast.AsyncFunctionDef | None = None, body: list[ast.stmt] | None = None,
                 noreturn: set[str] | None = None):
        self.noreturn = noreturn or set()
        self.nodes: list[Node] = []
        self.entry = self._new("entry")
        self.exit = self._new("exit")  # normal return / fall off the end
        self.raise_exit = self._new("raise_exit")
        self.fn = fn
        stmts = body if body is not None else (fn.body if fn else [])
        ctx = _Ctx(ret=self.exit, exc=self.raise_exit, brk=None, cont=None)
        first, outs = self._seq(stmts, ctx)
        self._edge(self.entry, first if first is not None else self.exit)
        for o, lab in outs:
            self._edge(o, self.exit, lab)
        self._preds: dict[int, list[int]] | None = None

    # ------------------------------------------------------------ construction
    def _new(self, kind: str, node: ast.AST | None = None) -> int:
        n = Node(len(self.nodes), kind, node)
        self.nodes.append(n)
        return n.id

    def _edge(self, a: int, b: int, label: str = "") -> None:
        self.nodes[a].succ.append(b)
        self.nodes[a].succ_label.append(label)

    def _seq(self, stmts: list[ast.stmt], ctx: "_Ctx") -> tuple[int | None, list[tuple[int, str]]]:
        """Build a statement sequence. Returns (first node or None if empty,
        dangling outs [(node,label)] that fall through to whatever follows)."""
        first: int | None = None
        outs: list[tuple[int, str]] = []
        started = False
        for st in stmts:
            f, o = self._stmt(st, ctx)
            if f is None:
                continue
            if not started:
                first = f
                started = True
            else:
                for n, lab in outs:
                    self._edge(n, f, lab)
            outs = o
        if not started:
            return None, []
        return first, outs

    def _stmt(self, st: ast.stmt, ctx: "_Ctx") -> tuple[int | None, list[tuple[int, str]]]:
        if isinstance(st, ast.If):
            t = self._new("test", st.test)
            self.nodes[t].owner = st  # type: ignore[attr-defined]
            bf, bo = self._seq(st.body, ctx)
            outs: list[tuple[int, str]] = []
            if bf is None:
                outs.append((t, "T"))
            else:
                self._edge(t, bf, "T")
                outs += bo
            of, oo = self._seq(st.orelse, ctx)
            if of is None:
                outs.append((t, "F"))
            else:
                self._edge(t, of, "F")
                outs += oo
            return t, outs
        if isinstance(st, (ast.While,)):
            t = self._new("test", st.test)
            self.nodes[t].owner = st  # type: ignore[attr-defined]
            after = self._new("join")
            lctx = ctx.replace(brk=after, cont=t)
            bf, bo = self._seq(st.body, lctx)
            if bf is None:
                self._edge(t, t, "T")
            else:
                self._edge(t, bf, "T")
                for n, lab in bo:
                    self._edge(n, t, lab)
            const_true = isinstance(st.test, ast.Constant) and bool(st.test.value) is True
            of, oo = self._seq(st.orelse, ctx)
            if not const_true:
                if of is None:
                    self._edge(t, after, "F")
                else:
                    self._edge(t, of, "F")
                    for n, lab in oo:
                        self._edge(n, after, lab)
            return t, [(after, "")]
        if isinstance(st, (ast.For, ast.AsyncFor)):
            it = self._new("stmt", st.iter)  # evaluation of the iterable
            t = self._new("test", st)  # "has next" + binds target
            self.nodes[t].owner = st  # type: ignore[attr-defined]
            self._edge(it, t)
            after = self._new("join")
            lctx = ctx.replace(brk=after, cont=t)
            bf, bo = self._seq(st.body, lctx)
            if bf is None:
                self._edge(t, t, "T")
            else:
                self._edge(t, bf, "T")
                for n, lab in bo:
                    self._edge(n, t, lab)
            of, oo = self._seq(st.orelse, ctx)
            if of is None:
                self._edge(t, after, "F")
            else:
                self._edge(t, of, "F")
                for n, lab in oo:
                    self._edge(n, after, lab)
            return it, [(after, "")]
        if isinstance(st, (ast.With, ast.AsyncWith)):
            w = self._new("stmt", st)  # the `with` header (context expressions)
            self.nodes[w].with_header = True  # type: ignore[attr-defined]
            # `with suppress(E)`: body may be abandoned -> edge from header to after
            bf, bo = self._seq(st.body, ctx)
            outs = []
            if bf is None:
                outs.append((w, ""))
            else:
                self._edge(w, bf)
                outs += bo
            if any(_is_suppress(i.context_expr) for i in st.items):
                outs.append((w, "suppressed"))
            return w, outs
        if isinstance(st, ast.Try) or (hasattr(ast, "TryStar") and isinstance(st, ast.TryStar)):
            return self._try(st, ctx)
        if isinstance(st, ast.Match):
            s = self._new("test", st.subject)
            self.nodes[s].owner = st  # type: ignore[attr-defined]
            outs = []
            irrefutable = False
            for case in st.cases:
                c = self._new("test", case.pattern)
                self.nodes[c].owner = case  # type: ignore[attr-defined]
                self.nodes[c].guard = case.guard  # type: ignore[attr-defined]
                self._edge(s, c, "case")
                bf, bo = self._seq(case.body, ctx)
                if bf is None:
                    outs.append((c, ""))
                else:
                    self._edge(c, bf)
                    outs += bo
                if case.guard is None and _irrefutable(case.pattern):
                    irrefutable = True
            if not irrefutable:
                outs.append((s, "nomatch"))
            return s, outs
        if isinstance(st, (ast.Return, ast.Expr)) and self.noreturn and isinstance(st.value, ast.Call):
            f = st.value.func
            nm = f.attr if isinstance(f, ast.Attribute) else (f.id if isinstance(f, ast.Name) else "")
            if nm in self.noreturn:  # `return self._fail(...)`: the callee always raises
                n = self._new("stmt", st)
                self._edge(n, ctx.exc_target(self))
                return n, []
        if isinstance(st, ast.Return):
            n = self._new("stmt", st)
            self._edge(n, ctx.ret_target(self))
            return n, []
        if isinstance(st, ast.Raise):
            n = self._new("stmt", st)
            self._edge(n, ctx.exc_target(self))
            return n, []
        if isinstance(st, ast.Break):
            n = self._new("stmt", st)
            tgt = ctx.brk_target(self)
            if tgt is not None:
                self._edge(n, tgt)
            return n, []
        if isinstance(st, ast.Continue):
            n = self._new("stmt", st)
            tgt = ctx.cont_target(self)
            if tgt is not None:
                self._edge(n, tgt)
            return n, []
        if isinstance(st, ast.Assert):
            n = self._new("stmt", st)
            return n, [(n, "")]
        # simple statement (incl. nested def/class: a binding)
        n = self._new("stmt", st)
        return n, [(n, "")]

    def _try(self, st: ast.Try, ctx: "_Ctx") -> tuple[int | None, list[tuple[int, str]]]:
        fin = st.finalbody
        if fin:
            inner = ctx.with_finally(fin)
        else:
            inner = ctx
        head = self._new("join", st)
        outs: list[tuple[int, str]] = []
        # handlers
        handler_entries: list[int] = []
        for h in st.handlers:
            hn = self._new("handler", h)
            handler_entries.append(hn)
            bf, bo = self._seq(h.body, inner)
            if bf is None:
                outs.append((hn, ""))
            else:
                self._edge(hn, bf)
                outs += bo
        if handler_entries:
            disp = self._new("join")
            for hn in handler_entries:
                self._edge(disp, hn, "except")
            # a raise in the body goes to the dispatcher; if no handler is a catch-all
            # it may also propagate
            catch_all = any(
                h.type is None or (isinstance(h.type, ast.Name) and h.type.id in ("BaseException", "Exception"))
                for h in st.handlers
            )
            if not catch_all:
                self._edge(disp, inner.exc_target(self), "unhandled")
            body_ctx = inner.replace(exc=disp)
        else:
            body_ctx = inner
        bf, bo = self._seq(st.body, body_ctx)
        # An exception inside a call in the body may enter a handler: model as an
        # edge from the try head (before the body) and after each body statement.
        if handler_entries:
            self._edge(head, disp, "may-raise")
        if bf is None:
            bo = [(head, "")]
        else:
            self._edge(head, bf)
        ef, eo = self._seq(st.orelse, inner)
        if ef is not None:
            for n, lab in bo:
                self._edge(n, ef, lab)
            bo = eo
        outs = bo + outs
        if fin:
            ff, fo = self._seq(fin, ctx)
            if ff is None:
                return head, outs
            for n, lab in outs:
                self._edge(n, ff, lab)
            return head, fo
        return head, outs

    # ------------------------------------------------------------ queries
    def preds(self) -> dict[int, list[int]]:
        if self._preds is None:
            p: dict[int, list[int]] = {n.id: [] for n in self.nodes}
            for n in self.nodes:
                for s in n.succ:
                    p[s].append(n.id)
            self._preds = p
        return self._preds

    def reachable(self, start: int, blocked: Callable[[Node], bool] | None = None,
                  edge_blocked: Callable[[Node, str], bool] | None = None) -> set[int]:
        """Nodes reachable from start. `blocked(node)` nodes are not entered (start itself
        excepted); `edge_blocked(node, label)` edges are not followed."""
        seen: set[int] = set()
        stack = [start]
        while stack:
            n = stack.pop()
            if n in seen:
                continue
            node = self.nodes[n]
            if blocked is not None and n != start and blocked(node):
                continue
            seen.add(n)
            for s, lab in zip(node.succ, node.succ_label):
                if edge_blocked is not None and edge_blocked(node, lab):
                    continue
                stack.append(s)
        return seen

    def stmt_nodes(self) -> Iterable[Node]:
        return (n for n in self.nodes if n.ast is not None)

    def nodes_for(self, target: ast.AST) -> list[Node]:
        """CFG nodes that evaluate `target` (finally duplication -> possibly several)."""
        return [n for n in self.nodes if node_contains(n, target)]

    def every_path_to_exit_passes(self, pred: Callable[[Node], bool],
                                  edge_blocked: Callable[[Node, str], bool] | None = None) -> bool:
        """True iff every path entry -> normal exit contains a node satisfying pred."""
        r = self.reachable(self.entry, blocked=pred, edge_blocked=edge_blocked)
        return self.exit not in r

    def dominated_by(self, target: Node, pred: Callable[[Node], bool],
                     edge_blocked: Callable[[Node, str], bool] | None = None) -> bool:
        """True iff every path entry -> target contains an earlier node satisfying pred
        (paths through `edge_blocked` edges are exempt)."""
        if pred(target):
            return True
        r = self.reachable(self.entry, blocked=pred, edge_blocked=edge_blocked)
        return target.id not in r

    def exit_reachable(self) -> bool:
        return self.exit in self.reachable(self.entry)

    def normal_exit_reachable_from(self, n: Node) -> bool:
        return self.exit in self.reachable(n.id)


@dataclass
class _Ctx:
    ret: int
    exc: int
    brk: int | None
    cont: int | None
    # pending finally bodies between here and the target, innermost last; each with the
    # context that encloses its `try` (used for statements inside the finally copy)
    fin_ret: list = field(default_factory=list)
    fin_exc: list = field(default_factory=list)
    fin_brk: list = field(default_factory=list)
    fin_cont: list = field(default_factory=list)

    def replace(self, **kw) -> "_Ctx":
        c = _Ctx(self.ret, self.exc, self.brk, self.cont, list(self.fin_ret), list(self.fin_exc),
                 list(self.fin_brk), list(self.fin_cont))
        for k, v in kw.items():
            setattr(c, k, v)
            # a new loop / handler target resets the pending finally bodies for that kind
            if k == "brk":
                c.fin_brk = []
            if k == "cont":
                c.fin_cont = []
            if k == "exc":
                c.fin_exc = []
        return c

    def with_finally(self, fin: list[ast.stmt]) -> "_Ctx":
        c = self.replace()
        c.fin_ret = [*self.fin_ret, (fin, self)]
        c.fin_exc = [*self.fin_exc, (fin, self)]
        c.fin_brk = [*self.fin_brk, (fin, self)]
        c.fin_cont = [*self.fin_cont, (fin, self)]
        return c

    def _through(self, g: CFG, fins: list, final: int | None) -> int | None:
        """Entry of the chain innermost finally ... outermost finally -> final target."""
        if final is None:
            return None
        tgt = final
        for fin, outer in fins:  # outermost first, so the innermost ends up entered first
            ff, fo = g._seq(fin, outer)
            if ff is None:
                continue
            for n, lab in fo:
                g._edge(n, tgt, lab)
            tgt = ff
        return tgt

    def ret_target(self, g: CFG) -> int:
        return self._through(g, self.fin_ret, self.ret)  # type: ignore[return-value]

    def exc_target(self, g: CFG) -> int:
        return self._through(g, self.fin_exc, self.exc)  # type: ignore[return-value]

    def brk_target(self, g: CFG) -> int | None:
        return self._through(g, self.fin_brk, self.brk)

    def cont_target(self, g: CFG) -> int | None:
        return self._through(g, self.fin_cont, self.cont)


def _is_suppress(e: ast.expr) -> bool:
    return isinstance(e, ast.Call) and (
        (isinstance(e.func, ast.Name) and e.func.id == "suppress")
        or (isinstance(e.func, ast.Attribute) and e.func.attr == "suppress")
    )


def _irrefutable(p: ast.pattern) -> bool:
    if isinstance(p, ast.MatchAs):
        return p.pattern is None or _irrefutable(p.pattern)
    if isinstance(p, ast.MatchOr):
        return any(_irrefutable(x) for x in p.patterns)
    return False


# ---------------------------------------------------------------- structural helpers
def must_raise(stmts: list[ast.stmt]) -> bool:
    """Every path through the statement list ends in an explicit `raise`
    (no normal fall-through, no return)."""
    g = CFG(body=stmts)
    r = g.reachable(g.entry)
    return g.exit not in r and g.raise_exit in r


def raises_in(node: ast.AST) -> list[ast.Raise]:
    from .index import walk_no_nested

    return [n for n in walk_no_nested(node) if isinstance(n, ast.Raise)]


def raised_class(r: ast.Raise) -> tuple[str, str]:
    """('GuppyError', 'UnsupportedError') for `raise GuppyError(UnsupportedError(...))`;
    ('X', '') for `raise X(...)`/`raise X`."""
    e = r.exc
    if e is None:
        return ("", "")
    if isinstance(e, ast.Call):
        from .index import dotted

        outer = dotted(e.func).split(".")[-1]
        inner = ""
        if e.args and isinstance(e.args[0], ast.Call):
            inner = dotted(e.args[0].func).split(".")[-1]
        return (outer, inner)
    from .index import dotted

    return (dotted(e).split(".")[-1], "")


def in_finally(fn: ast.AST, target: ast.AST) -> bool:
    """Is `target` (a statement/expression node) lexically inside a `finally:` body?"""
    for n in ast.walk(fn):
        if isinstance(n, ast.Try) and n.finalbody:
            for st in n.finalbody:
                if any(x is target for x in ast.walk(st)):
                    return True
    return False


# ---------------------------------------------------------------- node content helpers
def node_exprs(n: Node) -> list[ast.AST]:
    """The sub-trees that are *evaluated at* this CFG node (no nested bodies)."""
    a = n.ast
    if a is None or n.kind == "join":
        return []
    if isinstance(a, (ast.For, ast.AsyncFor)):
        return [a.target]
    if isinstance(a, (ast.With, ast.AsyncWith)):
        out: list[ast.AST] = []
        for it in a.items:
            out.append(it.context_expr)
            if it.optional_vars is not None:
                out.append(it.optional_vars)
        return out
    if isinstance(a, ast.excepthandler):
        return [a.type] if a.type is not None else []
    if isinstance(a, (ast.FunctionDef, ast.AsyncFunctionDef, ast.ClassDef)):
        return list(a.decorator_list)
    if isinstance(a, ast.pattern):
        g = getattr(n, "guard", None)
        return [a] + ([g] if g is not None else [])
    return [a]


def node_calls(n: Node) -> list[ast.Call]:
    from .index import walk_no_nested

    out = []
    for e in node_exprs(n):
        for x in walk_no_nested(e):
            if isinstance(x, ast.Call):
                out.append(x)
    return out


def calls_any(names: set[str]) -> Callable[[Node], bool]:
    """Predicate: the node evaluates a call whose callee's last name component is in names."""
    from .index import call_name

    def pred(n: Node) -> bool:
        return any(call_name(c) in names for c in node_calls(n))

    return pred


def node_contains(n: Node, target: ast.AST) -> bool:
    return any(x is target for e in node_exprs(n) for x in ast.walk(e))
