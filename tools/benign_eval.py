#!/venv/bin/python
"""Benign-refactoring bookkeeping (NOT a registered check).

  benign_eval.py import <pid> <k>   verify /tmp/benign/<pid>/<k> (demo prints the same and exits 0 on a clean scratch worktree
                                    and with the patch) and copy it to /verif/benign/<pid>-b<k>/
  benign_eval.py run [<name> ...]   apply each kept patch to /repo, run ALL claimed quick checks (no evidence), undo;
                                    any exit code other than 0 is a false alarm (or an analysis error) to be fixed
"""

from __future__ import annotations

import json
import os
import shutil
import subprocess
import sys
import tempfile

VERIF = os.path.dirname(os.path.dirname(os.path.abspath(__file__)))
BENIGN = os.path.join(VERIF, "benign")
SHIM = os.path.join(VERIF, "triage", "shim")
PY = "/venv/bin/python"


def sh(cmd, **kw):
    return subprocess.run(cmd, capture_output=True, text=True, **kw)


def run_demo(wt: str, demo: str) -> tuple[int, str]:
    env = dict(os.environ, PYTHONPATH=f"{SHIM}:{wt}/guppylang/src:{wt}/guppylang-internals/src", SRC_ROOT=wt, PYTHONHASHSEED="0")
    r = sh([PY, demo], env=env, cwd=os.path.dirname(demo), timeout=900)
    return r.returncode, r.stdout


def cmd_import(pid: str, k: str) -> int:
    src = f"/tmp/benign/{pid}/{k}"
    name = f"{pid}-b{k}"
    patch, demo = os.path.join(src, "patch.diff"), os.path.join(src, "demo.py")
    meta = json.load(open(os.path.join(src, "meta.json")))
    wt = tempfile.mkdtemp(prefix="benignwt-", dir="/tmp")
    os.rmdir(wt)
    if sh(["git", "-C", "/repo", "worktree", "add", "--detach", wt, "HEAD"]).returncode:
        return 2
    try:
        rc0, out0 = run_demo(wt, demo)
        a = sh(["git", "-C", wt, "apply", patch])
        if a.returncode:
            print("patch does not apply:", a.stderr)
            return 2
        rc1, out1 = run_demo(wt, demo)
        same = out0.replace(wt, "<WT>") == out1.replace(wt, "<WT>")
        print(f"clean rc={rc0}  patched rc={rc1}  same output={same}  ({len(out0.splitlines())} lines)")
        if not (rc0 == 0 and rc1 == 0 and same):
            print("NOT KEPT (the refactoring changes observable behaviour of its own demo)")
            return 1
    finally:
        sh(["git", "-C", "/repo", "worktree", "remove", "--force", wt])
    dst = os.path.join(BENIGN, name)
    os.makedirs(dst, exist_ok=True)
    shutil.copy(patch, os.path.join(dst, "patch.diff"))
    shutil.copy(demo, os.path.join(dst, "demo.py"))
    meta.update({"property": pid, "confirmed": {"repo_head": sh(["git", "-C", "/repo", "rev-parse", "--short", "HEAD"]).stdout.strip(),
                                               "demo_same_output_and_rc0_on_clean_and_patched_scratch_worktree": True}})
    json.dump(meta, open(os.path.join(dst, "meta.json"), "w"), indent=1)
    print("kept as", dst)
    return 0


def cmd_run(names: list[str]) -> int:
    claimed = [c["property_id"] for c in json.load(open(os.path.join(VERIF, "MANIFEST.json")))["checks"]]
    names = names or sorted(n for n in os.listdir(BENIGN) if os.path.isdir(os.path.join(BENIGN, n)))
    bad = 0
    if sh(["git", "-C", "/repo", "status", "--porcelain", "--untracked-files=no"]).stdout.strip():
        print("/repo has uncommitted changes; refusing")
        return 2
    for n in names:
        patch = os.path.join(BENIGN, n, "patch.diff")
        a = sh(["git", "-C", "/repo", "apply", patch])
        if a.returncode:
            print(f"{n}: patch does not apply: {a.stderr.strip()[:200]}")
            continue
        try:
            alarms = {}
            for p in claimed:
                r = sh([PY, "-m", "gsa.check", p, "--no-evidence"], cwd=VERIF)
                if r.returncode != 0:
                    rep = [l for l in r.stdout.splitlines() if l.startswith(("VIOLATION", "  rule", "  instance", "ANALYSIS-ERROR", "FLOOR"))][:9]
                    alarms[p] = (r.returncode, rep)
            print(f"{n:10s} {'silent' if not alarms else 'ALARM ' + str({k: v[0] for k, v in alarms.items()})}")
            for p, (rc, rep) in alarms.items():
                bad += 1
                for l in rep:
                    print("      ", p, l[:220])
        finally:
            sh(["git", "-C", "/repo", "checkout", "--", "."])
    return 1 if bad else 0


if __name__ == "__main__":
    if len(sys.argv) >= 4 and sys.argv[1] == "import":
        sys.exit(cmd_import(sys.argv[2], sys.argv[3]))
    if len(sys.argv) >= 2 and sys.argv[1] == "run":
        sys.exit(cmd_run(sys.argv[2:]))
    print(__doc__)
    sys.exit(2)
