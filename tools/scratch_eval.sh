#!/bin/bash
# scratch_eval.sh <patch.diff> [Cxx ...]   -- apply a patch to a scratch copy of /repo's committed sources (HEAD) and run the
# claimed quick checks on it with --root (no evidence written, /repo untouched).  Not a registered check.
set -u
patch_file=$1; shift
props=${*:-C01 C05 C06 C07 C08 C09 C10 C11 C12 C13 C14 C15 C16 C17 C21 C22 C23 C24 C28 C29 C30 C32 C33}
d=$(mktemp -d /tmp/scratch-eval.XXXXXX)
(cd /repo && git archive HEAD guppylang-internals/src guppylang/src | tar -x -C "$d")
(cd "$d" && patch -p1 -s -f -i "$patch_file" >/dev/null) || { echo "patch does not apply"; rm -rf "$d"; exit 2; }
cd /verif
fired=""
for p in $props; do
  out=$(/venv/bin/python -m gsa.check "$p" --root "$d" --no-evidence 2>&1); rc=$?
  if [ $rc -ne 0 ]; then
    fired="$fired $p(rc=$rc)"
    echo "$out" | grep -A3 -E "^VIOLATION|ANALYSIS-ERROR|FLOOR-UNDERCUT" | cut -c1-260
  fi
done
rm -rf "$d"
if [ -z "$fired" ]; then echo "silent"; else echo "FIRED:$fired"; fi
