"""pytest plugin: turn compile into check-only so positive tests exercise the checker."""
import guppylang.defs as defs
from guppylang_internals.engine import ENGINE


class _Dummy:
    modules = []
    package = None

    def to_bytes(self):
        return b""

    def __getattr__(self, name):
        raise AttributeError(name)


def _compile(self):
    ENGINE.check(self.id)
    d = _Dummy()
    d.package = d
    return d


defs.GuppyDefinition.compile = _compile
defs.GuppyFunctionDefinition.compile = _compile
defs.GuppyFunctionDefinition.compile_entrypoint = _compile
defs.GuppyFunctionDefinition.compile_function = _compile

import selene_hugr_qis_compiler

selene_hugr_qis_compiler.check_hugr = lambda b: None
