#!/bin/bash
# for one benign patch: scratch copy of HEAD + patch, all checks, print UNDECIDED / VIOLATION lines
name=$1
d=$(mktemp -d /tmp/um.XXXXXX)
(cd /repo && git archive HEAD guppylang-internals/src guppylang/src | tar -x -C "$d")
(cd "$d" && patch -p1 -s -f -i /verif/benign/$name/patch.diff >/dev/null) || { echo "$name: patch does not apply"; rm -rf "$d"; exit 0; }
cd /verif
for p in C01 C05 C06 C07 C08 C09 C10 C11 C12 C13 C14 C15 C16 C17 C21 C22 C23 C24 C28 C29 C30 C32 C33; do
  /venv/bin/python -m gsa.check $p --root "$d" --no-evidence 2>&1 | grep -E "^UNDECIDED|^VIOLATION|ANALYSIS-ERROR" | sed "s/^/$name /" | cut -c1-260
done
rm -rf "$d"
