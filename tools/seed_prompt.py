import json,sys,os
props={json.loads(l)['id']:json.loads(l) for l in open('/verif/properties.jsonl')}
TEMPLATE='''# Task: seed one realistic regression for property {pid} of CQCL/guppylang

You work ONLY inside your own scratch git worktree of the repository: `{wt}` (a checkout of the
repository's current HEAD). Do not read or write anything under /repo or /verif. Work economically:
read only the files you need, keep tool outputs short.

## The property (given, fixed)

**{pid} — {title}**

Statement: {statement}

Quantified over: {quant}

Why the existing tests cannot settle it: {why}

Code anchors: files {files}; mechanisms: {mech}

## What to produce

A *realistic* source change ({persona}: 1-15 changed lines, in the anchored code or code it relies on) such that
  1. every changed file still parses and `import guppylang, guppylang_internals` still works,
  2. the property is **violated** for some concrete input (program / call sequence) that you exhibit,
  3. it is NOT one of these already-tried ideas: {avoid}
  4. preferably it sits in or around this mechanism (choose another place only if nothing realistic can be broken there): {focus}

How to run the sources of your worktree (the installed guppylang in site-packages is a different,
newer version and must not be used):

    PYTHONPATH=/tmp/shim:{wt}/guppylang/src:{wt}/guppylang-internals/src /venv/bin/python your_script.py

`.check()` on a `@guppy` function works. `.compile()` works up to a late packaging step that fails in
this sandbox with an unrelated error (missing `tket.bool` extension ops) - so demonstrate through
`check()`, through calling internal functions directly, or through `compile()` wrapped so that you
inspect state before that failure. No network. Do not install anything.

Deliverables, in `/tmp/seed/{pid}/{k}/` (create the directory):
  * `patch.diff`  - `git -C {wt} diff` of your change (source files only, no tests)
  * `demo.py`     - a self-contained script (run as shown above, from any cwd; it may use
                    os.environ["SRC_ROOT"] = the worktree root) that prints what it observes and exits
                    **0 when the property holds** (i.e. on the unpatched worktree) and **1 when it is
                    violated** (on the patched worktree). It must exercise the real code, not re-implement it.
  * `meta.json`   - {{"summary": "<one or two sentences: what was changed and what breaks>",
                     "needs_to_manifest": "<what input shows it>", "files_changed": [...]}}

Before you finish: run demo.py on the unpatched tree (switch with `git -C {wt} apply -R /tmp/seed/{pid}/{k}/patch.diff` and back with
`git -C {wt} apply ...`; NEVER use `git stash`, it is shared between worktrees) and on the patched tree and make sure the exit codes are 0 and 1. Leave the worktree in the
*patched* state. If, while exploring, you notice that the UNPATCHED tree already violates the property for some input
(a genuine existing bug), say so in your final summary with the input - that is valuable, but still deliver the seed. Finish with a 3-line summary. If you cannot find a change that meets all points
within reasonable effort, say so plainly rather than delivering something weaker.
'''
BENIGN='''# Task: a behaviour-preserving refactoring of the code behind property {pid} of CQCL/guppylang

You work ONLY inside your own scratch git worktree of the repository: `{wt}` (a checkout of the repository's
current HEAD). Do not read or write anything under /repo or /verif. Work economically.

## The property (given, fixed) - it must KEEP holding

**{pid} - {title}**

Statement: {statement}

Quantified over: {quant}

Code anchors: files {files}; mechanisms: {mech}

## What to produce

A realistic REFACTORING of the anchored code (15-60 changed lines over 1-3 functions) of the kind maintainers do all
the time and that does NOT change behaviour: rename locals and private helpers, extract or inline a helper function,
early returns instead of nested ifs (or the reverse), comprehension <-> explicit loop, `match` <-> if/elif chain,
De Morgan / reordered independent statements / reordered commutative conditions, a table instead of repeated
branches, walrus introduced or removed, try/except <-> contextlib.suppress, dataclasses.replace <-> constructor call,
local aliases for long attribute chains, type annotations and comments changed, constants hoisted.
Be thorough about equivalence: same results, same exceptions, same order of side effects, for ALL inputs.

How to run the sources of your worktree (the installed guppylang in site-packages is a different, newer version):

    PYTHONPATH=/tmp/shim:{wt}/guppylang/src:{wt}/guppylang-internals/src /venv/bin/python your_script.py

`.check()` works; `.compile()` fails at a late unrelated packaging step in this sandbox. No network; install nothing.
NEVER use `git stash` (it is shared between worktrees); switch states with `git apply -R` / `git apply`.

Deliverables, in `/tmp/benign/{pid}/{k}/` (create the directory):
  * `patch.diff` - `git -C {wt} diff` of your refactoring (source files only)
  * `demo.py`    - a script (run as shown above) that exercises the refactored code on a good range of inputs related to
                   the property and prints what it observes; it must print EXACTLY the same output and exit 0 on the
                   unpatched and on the patched tree (run both and compare the outputs yourself).
  * `meta.json`  - {{"summary": "<what was refactored and why it is equivalent>", "files_changed": [...]}}
Leave the worktree in the patched state. Finish with a 3-line summary.
'''
HUNT='''# Task: find a GENUINE existing bug -- an input for which property {pid} of CQCL/guppylang is violated by the code AS IT IS

You work ONLY inside your own scratch git worktree of the repository: `{wt}` (a checkout of the repository's current HEAD).
Do not read or write anything under /repo or /verif, and do NOT modify the sources in the worktree. Work economically.

## The property (given, fixed)

**{pid} - {title}**

Statement: {statement}

Quantified over: {quant}

Code anchors: files {files}; mechanisms: {mech}

## What to do

Read the anchored code critically and construct inputs (Guppy programs, call sequences, direct calls of internal functions with
well-formed arguments) that the property covers, looking for one where the UNMODIFIED code does the wrong thing: accepts what must
be rejected, rejects what must be accepted, crashes with an internal error (AssertionError, InternalGuppyError, KeyError ...) on a
valid input, produces ill-formed or mis-wired output, drops something silently. Think about corner cases the maintainers' tests
are unlikely to cover: nested and combined constructs, aliasing, empty / boundary values, unusual but legal spellings, generic
code, interplay of two features. These are ALREADY KNOWN, do not report them again: {avoid}

How to run the sources of your worktree (the installed guppylang in site-packages is a different, newer version):

    PYTHONPATH=/tmp/shim:{wt}/guppylang/src:{wt}/guppylang-internals/src /venv/bin/python your_script.py

`.check()` on a `@guppy` function works. `.compile()` fails at a late unrelated packaging step in this sandbox (missing `tket.bool`
extension ops); to look at lowered code use `ENGINE.check(defn.id); CompilerContext(hugr.build.function.Module()).compile(ENGINE.checked[defn.id])`
from `guppylang_internals.engine` / `guppylang_internals.compiler.core`. No network; install nothing.

Deliverables, in `/tmp/hunt/{pid}/{k}/` (create the directory): for EACH distinct genuine violation you can demonstrate (at most 3)
  * `bug<N>.py`  - a self-contained script (run as shown above) that prints what it observes and exits 1 because the property is
                   violated on the unmodified tree (it would exit 0 on a correct implementation), with a docstring explaining the
                   expected and the observed behaviour and the line(s) of code responsible
and a `report.md` with one paragraph per finding (or "none found" plus what you tried). Be strict: only report behaviour that the
property statement above really forbids, and say so if a finding is borderline. Finish with a 5-line summary.
'''
AVOID={
 'C01':'changing the `not v.ty.droppable` filter of compile_bb to `v.ty.linear`',
 'C10':'re-introducing set.pop()/set iteration in check_rows_match, the analysis worklists, check_call, monomorphization errors or struct parsing',
 'C11':'removing self.reset() from CompilationEngine.check',
 'C12':'removing or weakening the occurs check',
 'C13':'returning the variable instead of None for un-instantiated positions in Instantiator',
 'C28':'making with_seed mutate the shared simulator',
 'C05':'removing calls from the side-effect op list; changing argument visit order in the call compiler; duplicating the middle operand of chained comparisons',
 'C06':'inverting copyable/droppable tests in visit_PlaceNode / visit_Expr; dropping the shadowing check',
 'C08':'restricting assigned_somewhere to reachable blocks; breaking prev_bb bookkeeping for dead code',
 'C09':'caching vals_before only on change; swapping intersection/union in the join',
 'C14':'defining droppable through copyable; removing types from AFFINE_EXTENSION_TYS',
 'C22':'making frozenlist mutators succeed; inverting the frozen flag; _use_wire test on droppable',
 'C24':'making the qubit finder prune; inverting classic/flag_ok in _check_call; dropping branch_pred',
 'C32':'accepting loop else; making generic_visit return; dropping a built statement',
 'C15':'reversing func_ids; suppress(Exception)',
 'C17':'off-by-one in _int_bounds_check; dropping n >= 0 for nat',
 'C23':'moving the restore out of finally; capturing old after update',
 'C33':'removing a gate call; restoring True in __exit__',
 'C07':'skipping _update_inout_ports in one call compiler; recompiling subscript index',
 'C21':'forwarding a dunder to a different name',
 'C16':'flipping the < in try_coerce_to; writing coerced args back into the caller list',
 'C29':'dropping child labels in render_diagnostic; caching file contents in add_file',
 'C30':'swapping comparisons in __contains__/__and__',
}
AVOID3={
 'C01':'dropping preserve in TupleType.transform',
 'C05':'binding all operands of a chained comparison before any comparison (no short circuit)',
 'C06':'hoisting the override check of _check_assign_targets out of the leaf loop',
 'C07':'write-back only when the place itself is a subscript (instead of contains_subscript)',
 'C08':'comprehension uses filtered by inner_stats.assigned in VariableVisitor',
 'C09':'AssignmentAnalysis.eq comparing only the first component',
 'C10':'LivenessAnalysis.apply_bb computing surviving keys by set difference',
 'C11':'functools.cache on parse_py_func',
 'C12':'check_inst returning after the first type parameter',
 'C13':'compile_variable_idx subtracting all monomorphized params',
 'C14':'requires_drop ignoring type variables; TypeParam.to_hugr bound from can_be_linear',
 'C15':'skipping variants whose arity differs',
 'C16':'nat.__float__ lowered with convert_s',
 'C17':'nat constants lowered with signed IntVal',
 'C21':'reverse_binary_table mapping reflected dunders to themselves',
 'C22':'raise for double use only when the first use was a call argument',
 'C23':'deleting the mocks only when the user bound none of int/float/len',
 'C24':'_parse_kwargs setting flags for keywords given as False',
 'C28':'dropping random_seed from run_shots',
 'C29':'moving the prefix-lines clamp from render_snippet into span_lines',
 'C30':'hand-written non-lexicographic Loc.__lt__',
 'C32':'removing the positional-only parameter rejection',
 'C33':'saving the previous flag in one module-level variable',
}
AVOID2={
 'C01':'removing sort_vars from the tuple-sum rows of compile_bb',
 'C05':'not binding the first operand of a chained comparison to a temporary',
 'C06':'used_later computed with any() instead of all()',
 'C08':'an early return in check_rows_match when any variable agrees',
 'C09':'LivenessAnalysis.join mutating its first operand (reduce with operator.ior)',
 'C10':'Locals.values() iterating the key set',
 'C11':'skipping re-registration of generated struct methods when DEF_STORE.impls already has them',
 'C12':'substituting the argument types once before the loop in type_check_args',
 'C13':'calling to_bound() before with_idx in instantiate_partial',
 'C14':'StructType.intrinsically_copyable iterating the uninstantiated defn.fields',
 'C22':'not forwarding frozen to tuple elements in unpack_guppy_object',
 'C24':'overwriting instead of latching `classical` in _check_classical_args',
 'C28':'with_simulator writing the seed into the caller-provided simulator',
 'C32':'moving the keyword-argument rejection below the direct-call early return',
}
pid,k=sys.argv[1],sys.argv[2]
import glob
_prev=[]
for _m in sorted(glob.glob(f'/verif/seeded/{sys.argv[1]}-*/meta.json')):
    try: _prev.append(json.load(open(_m)).get('summary','')[:140].replace('\n',' '))
    except Exception: pass
focus=sys.argv[3] if len(sys.argv)>3 else '(any anchored mechanism)'
persona=sys.argv[4] if len(sys.argv)>4 else 'the kind of slip a maintainer could make in a refactor or feature commit'
p=props[pid]
wt=f'/tmp/wt/{pid}-{k}'
a=p['anchors']
txt=TEMPLATE.format(pid=pid,k=k,wt=wt,title=p['title'],statement=p['statement'],quant=p['quantifier']['text'],why=p['why_tests_cant'],
  files=', '.join(a['files']), mech='; '.join(m['name'] for m in a.get('mechanism',[])), avoid=AVOID.get(pid,'(none)')+'; '+AVOID2.get(pid,'')+'; '+AVOID3.get(pid,'')+'; and (summaries of earlier seeds) '+' | '.join(_prev), focus=focus, persona=persona)
if len(sys.argv)>5 and sys.argv[5]=='hunt':
    txt=HUNT.format(pid=pid,k=k,wt=wt,title=p['title'],statement=p['statement'],quant=p['quantifier']['text'],
      files=', '.join(a['files']), mech='; '.join(m['name'] for m in a.get('mechanism',[])), avoid=focus)
    open(f'/tmp/seedprompt/{pid}-h{k}.md','w').write(txt)
elif len(sys.argv)>5 and sys.argv[5]=='benign':
    txt=BENIGN.format(pid=pid,k=k,wt=wt,title=p['title'],statement=p['statement'],quant=p['quantifier']['text'],
      files=', '.join(a['files']), mech='; '.join(m['name'] for m in a.get('mechanism',[])))
    if focus and not focus.startswith('('):
        txt=txt.replace('Deliverables, in', f'Preferably refactor this part (an earlier refactoring already covered other parts): {focus}\n\nDeliverables, in',1)
    open(f'/tmp/seedprompt/{pid}-b{k}.md','w').write(txt)
else:
    open(f'/tmp/seedprompt/{pid}-{k}.md','w').write(txt)
print(wt)
