#!/bin/bash
# Triage tool (NOT a registered check): run the repository's integration + error tests against the SOURCES of a tree with
# compile() replaced by check() (tools/plug/checkonly.py; compile cannot run in this sandbox) and list the failing test ids.
# usage: integration_replay.sh <tree> <outfile>     then `comm -13 before after` shows tests that started to fail
V=/verif
cd "$1" || exit 2
PYTHONPATH=$V/tools/plug:$V/triage/shim:$1/guppylang/src:$1/guppylang-internals/src timeout 3000 /venv/bin/python -m pytest tests/integration tests/error -q -p no:cacheprovider -p checkonly -n 12 --continue-on-collection-errors -rfE 2>&1 | grep -E "^(FAILED|ERROR)" | sed 's/ - .*//' | sed "s#$1#TREE#g" | sort > "$2"
wc -l "$2"
