#!/venv/bin/python
"""Mechanical behaviour-preserving variant of the whole tree: temporaries for returned / raised values and if-tests (NOT a check).

  temps.py <src-root> <dst-root>

Copies the two source packages and applies `gsa.selftest.transforms.apply(..., ('temps',))` to the copy.
"""

from __future__ import annotations

import os
import shutil
import sys

sys.path.insert(0, os.path.dirname(os.path.dirname(os.path.abspath(__file__))))
from gsa.selftest import transforms  # noqa: E402

PKGS = ("guppylang/src", "guppylang-internals/src")


def main() -> int:
    src, dst = sys.argv[1], sys.argv[2]
    for pkg in PKGS:
        shutil.copytree(os.path.join(src, pkg), os.path.join(dst, pkg), dirs_exist_ok=True)
    n = transforms.apply(dst, ("temps",))
    print(f"temporaries: {n} rewrites -> {dst}")
    return 0


if __name__ == "__main__":
    sys.exit(main())
