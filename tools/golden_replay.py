#!/venv/bin/python
"""Triage tool (NOT a registered check): replay the repository's golden error tests
(tests/error/*/X.py vs X.err) against the *sources* of a tree instead of the installed
guppylang 1.0.4, using the private tket_exts shim.  Used to make sure a "fix:" commit does
not contradict the maintainers' own golden files.

    golden_replay.py <tree> [subdir ...] [--out result.json]     # tree = /repo or a scratch worktree
    golden_replay.py --diff a.json b.json
"""

from __future__ import annotations

import json
import os
import subprocess
import sys
from concurrent.futures import ThreadPoolExecutor

VERIF = os.path.dirname(os.path.dirname(os.path.abspath(__file__)))
SHIM = os.path.join(VERIF, "triage", "shim")

RUNNER = r'''
import importlib, inspect, pathlib, re, sys, io, contextlib
file = pathlib.Path(sys.argv[1])
import guppylang
if file.parent.name != "experimental_errors":
    guppylang.enable_experimental_features()   # tests/conftest.py does this
TRACEBACK_HIGHLIGHT = re.compile(r" *~*\^\^*~*")
try:
    importlib.import_module(f"tests.error.{file.parent.name}.{file.stem}")
    print("NO-EXCEPTION"); sys.exit(0)
except BaseException as e:
    tb = e.__traceback__
    while tb is not None and inspect.getfile(tb.tb_frame) != str(file):
        tb = tb.tb_next
    buf = io.StringIO()
    with contextlib.redirect_stderr(buf):
        sys.excepthook(type(e), e.with_traceback(tb), tb)
    err = buf.getvalue().replace(str(file), "$FILE")
    if err.startswith("Traceback (most recent call last):"):
        err = "\n".join(l for l in err.split("\n") if not TRACEBACK_HIGHLIGHT.fullmatch(l))
    sys.stdout.write(err)
'''


def run_one(tree: str, f: str) -> tuple[str, str]:
    env = dict(os.environ)
    env["PYTHONPATH"] = f"{SHIM}:{tree}/guppylang/src:{tree}/guppylang-internals/src:{tree}"
    try:
        r = subprocess.run(["/venv/bin/python", "-c", RUNNER, f], capture_output=True, text=True, env=env, cwd=tree, timeout=300)
        out = r.stdout
    except subprocess.TimeoutExpired:
        out = "TIMEOUT"
    golden = open(f[:-3] + ".err").read() if os.path.exists(f[:-3] + ".err") else None
    if golden is None:
        return f, "no-golden"
    return f, ("match" if out == golden else "MISMATCH")


def main() -> int:
    if sys.argv[1] == "--diff":
        a, b = json.load(open(sys.argv[2])), json.load(open(sys.argv[3]))
        worse = [k for k in a if a[k] == "match" and b.get(k) != "match"]
        better = [k for k in a if a[k] != "match" and b.get(k) == "match"]
        print(f"before: {sum(v == 'match' for v in a.values())}/{len(a)} match; after: {sum(v == 'match' for v in b.values())}/{len(b)}")
        print("now failing:", worse)
        print("now passing:", better)
        return 1 if worse else 0
    tree = os.path.abspath(sys.argv[1])
    out = sys.argv[sys.argv.index("--out") + 1] if "--out" in sys.argv else None
    files = []
    only = [a for a in sys.argv[2:] if not a.startswith("--") and a != out]
    for dp, _, fns in os.walk(os.path.join(tree, "tests", "error")):
        if only and os.path.basename(dp) not in only:
            continue
        for fn in sorted(fns):
            if fn.endswith(".py") and os.path.exists(os.path.join(dp, fn[:-3] + ".err")):
                files.append(os.path.join(dp, fn))
    with ThreadPoolExecutor(16) as ex:
        res = dict(ex.map(lambda f: run_one(tree, f), sorted(files)))
    rel = {os.path.relpath(k, tree): v for k, v in res.items()}
    n = sum(v == "match" for v in rel.values())
    print(f"{n}/{len(rel)} golden files reproduced from the sources of {tree}")
    if out:
        json.dump(rel, open(out, "w"), indent=1)
    return 0


if __name__ == "__main__":
    sys.exit(main())
