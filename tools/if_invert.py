#!/venv/bin/python
"""Mechanical behaviour-preserving variant of the whole tree: branch polarity flipped (NOT a check).

  if_invert.py <src-root> <dst-root>

Copies the two source packages of <src-root> to <dst-root> and applies `gsa.selftest.transforms.apply(..., ('invert',))` to the copy
(see that module for what exactly is rewritten).  `python -m gsa.check Cxx --root <dst-root>` must stay silent; the thorough
tier of every property runs the same transformation on a scratch copy of the current tree.
"""

from __future__ import annotations

import os
import shutil
import sys

sys.path.insert(0, os.path.dirname(os.path.dirname(os.path.abspath(__file__))))
from gsa.selftest import transforms  # noqa: E402

PKGS = ("guppylang/src", "guppylang-internals/src")


def main() -> int:
    src, dst = sys.argv[1], sys.argv[2]
    for pkg in PKGS:
        shutil.copytree(os.path.join(src, pkg), os.path.join(dst, pkg), dirs_exist_ok=True)
    n = transforms.apply(dst, ('invert',))
    print(f"inverted branches: {n} rewrites -> {dst}")
    return 0


if __name__ == "__main__":
    sys.exit(main())
