#!/usr/bin/env python3
"""Regenerates /verif/DESIGN.md from tools/design_template.md.

The hand-written text lives in the template; the blocks that restate machine-readable facts
(rule lists = docstrings of gsa/rules/Cxx.py, not-applicable reasons = gsa/manifest.py,
fix/known-finding tables = known_findings.json, seed matrix = seeded/RESULTS.json + meta.json,
self-test table = gsa/selftest/mutants*.py) are generated, so they cannot drift.

    /venv/bin/python tools/gen_design.py
"""

from __future__ import annotations

import ast
import json
import os
import sys

V = os.path.dirname(os.path.dirname(os.path.abspath(__file__)))
sys.path.insert(0, V)

from gsa import manifest  # noqa: E402
from gsa.selftest import mutants  # noqa: E402

PROPS = {json.loads(l)["id"]: json.loads(l) for l in open(os.path.join(V, "properties.jsonl"))}
KF = json.load(open(os.path.join(V, "known_findings.json")))["findings"]
RES = json.load(open(os.path.join(V, "seeded", "RESULTS.json"))) if os.path.exists(os.path.join(V, "seeded", "RESULTS.json")) else {}


def rules_block() -> str:
    out = []
    for pid in manifest.ALL:
        title = PROPS[pid]["title"]
        if pid not in manifest.CLAIMED:
            out.append(f"### {pid} {title} — not applicable (§6)\n")
            continue
        cat, text, note, tech, _ = manifest.CLAIMED[pid]
        mod = ast.parse(open(os.path.join(V, "gsa", "rules", f"{pid}.py")).read())
        doc = ast.get_docstring(mod) or ""
        extra = ""
        for helper in sorted(os.listdir(os.path.join(V, "gsa", "rules"))):
            if helper.lower().startswith(pid.lower() + "_") and helper.endswith(".py"):
                extra += "\n\n" + (ast.get_docstring(ast.parse(open(os.path.join(V, "gsa", "rules", helper)).read())) or "")
        out.append(f"### {pid} {title}\n")
        out.append(f"*Level* `{cat}` — *technique*: {tech}.\n")
        out.append(f"*What is and is not decided*: {text}\n")
        out.append(f"*Trusted*: {note}\n")
        out.append("Rules as built (module docstring of `gsa/rules/%s.py`):\n" % pid)
        out.append("```\n" + doc + extra + "\n```\n")
        kn = [f for f in KF if f["property"] == pid and f["status"] == "known"]
        fx = [f for f in KF if f["property"] == pid and f["status"] == "fixed"]
        if fx:
            out.append("Defects found by these rules and repaired in /repo: " + "; ".join(sorted({f"`{f['commit']}` ({f['rule']})" for f in fx})) + " — see §7.\n")
        if kn:
            out.append("Known findings (reported as KNOWN-FINDING, exit 0): " + "; ".join(f"`{f['key'].split('.')[-2] + '.' + f['key'].split('.')[-1]}` ({f['rule']})" for f in kn) + " — see §7.\n")
        seeds = mutants.SEEDS.get(pid, {})
        if seeds:
            out.append("Seeded changes reported by this check: " + ", ".join(f"{s} → {r}" for s, r in sorted(seeds.items())) + ".\n")
        ms = mutants.MUTANTS.get(pid, [])
        out.append(f"Self-test variants: {sum(1 for m in ms if m[4])} breaking, {sum(1 for m in ms if not m[4])} benign (§8).\n")
    return "\n".join(out)


def na_block() -> str:
    rows = ["| id | title | reason |", "|----|-------|--------|"]
    for pid in manifest.ALL:
        if pid not in manifest.CLAIMED:
            rows.append(f"| {pid} | {PROPS[pid]['title']} | {manifest.NOT_APPLICABLE.get(pid, manifest.PENDING_REASON)} |")
    return "\n".join(rows)


def fixes_block() -> str:
    by_commit: dict[str, list[dict]] = {}
    for f in KF:
        if f["status"] == "fixed":
            by_commit.setdefault(f["commit"], []).append(f)
    rows = ["| commit in /repo | property | rule(s) that reported it | what failed |", "|---|---|---|---|"]
    for c, fs in by_commit.items():
        what = fs[0]["what"].split(c, 1)[-1].strip() if c in fs[0]["what"] else fs[0]["what"]
        rows.append(f"| `{c}` | {', '.join(sorted({f['property'] for f in fs}))} | {', '.join(sorted({f['rule'] for f in fs}))} | {what.replace('|', '/')} |")
    return "\n".join(rows)


def known_block() -> str:
    rows = ["| property | rule | key | what fails, and why it is recorded rather than repaired |", "|---|---|---|---|"]
    for f in KF:
        if f["status"] == "known":
            rows.append(f"| {f['property']} | {f['rule']} | `{f['key']}` | {f['what'].replace('|', '/')} |")
    return "\n".join(rows)


def seeds_block() -> str:
    rows = ["| seed | property | change (one line) | reported by (rule) |", "|---|---|---|---|"]
    sd = os.path.join(V, "seeded")
    for sid in sorted(n for n in os.listdir(sd) if os.path.isdir(os.path.join(sd, n))):
        meta = json.load(open(os.path.join(sd, sid, "meta.json")))
        fired = []
        for p, seeds in mutants.SEEDS.items():
            if sid in seeds:
                fired.append(f"{p}: {seeds[sid]}")
        summ = str(meta.get("summary", "")).split(" (summary written")[0].replace("|", "/")
        rows.append(f"| {sid} | {meta.get('property', sid[:3])} | {summ[:230]} | {'; '.join(sorted(fired)) or '**not reported**'} |")
    return "\n".join(rows)


def selftest_block() -> str:
    rows = ["| property | breaking variants (must fire) | benign variants (must stay silent) | seeded patches replayed |", "|---|---|---|---|"]
    tb = tn = ts = 0
    for pid in manifest.ALL:
        if pid not in manifest.CLAIMED:
            continue
        ms = mutants.MUTANTS.get(pid, [])
        b, n, s = sum(1 for m in ms if m[4]), sum(1 for m in ms if not m[4]), len(mutants.SEEDS.get(pid, {}))
        tb, tn, ts = tb + b, tn + n, ts + s
        rows.append(f"| {pid} | {b} | {n} | {s} |")
    rows.append(f"| total | {tb} | {tn} | {ts} |")
    return "\n".join(rows)


def glance_block() -> str:
    rows = ["| id | claimed? | level | decided by | known findings | fixes |", "|----|----|----|----|----|----|"]
    for pid in manifest.ALL:
        if pid not in manifest.CLAIMED:
            rows.append(f"| {pid} | n/a (§6) | | | | |")
            continue
        cat, _, _, tech, _ = manifest.CLAIMED[pid]
        kn = sum(1 for f in KF if f["property"] == pid and f["status"] == "known")
        fx = len({f["commit"] for f in KF if f["property"] == pid and f["status"] == "fixed"})
        rows.append(f"| {pid} | clauses (§5) | {cat} | {tech} | {kn or '–'} | {fx or '–'} |")
    return "\n".join(rows)


def main() -> None:
    t = open(os.path.join(V, "tools", "design_template.md")).read()
    for name, fn in (("RULES", rules_block), ("NA", na_block), ("FIXES", fixes_block), ("KNOWN", known_block), ("SEEDS", seeds_block),
                     ("SELFTEST", selftest_block), ("GLANCE", glance_block)):
        t = t.replace("{{" + name + "}}", fn())
    open(os.path.join(V, "DESIGN.md"), "w").write(t)
    print(f"DESIGN.md: {len(t.splitlines())} lines")


if __name__ == "__main__":
    main()
