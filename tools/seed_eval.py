#!/venv/bin/python
"""Seeded-change bookkeeping (NOT a registered check).

  seed_eval.py import <pid> <k> [<name>]   verify /tmp/seed/<pid>/<k> (demo passes on a clean scratch
                                           worktree, fails with the patch) and copy it to /verif/seeded/<name>/
  seed_eval.py run [<name> ...]            apply each kept patch to a scratch copy of /repo's HEAD sources, run the claimed quick
                                           checks on it with --root (no evidence written, /repo untouched) and print/record
                                           which checks fire
"""

from __future__ import annotations

import json
import os
import shutil
import subprocess
import sys
import tempfile

VERIF = os.path.dirname(os.path.dirname(os.path.abspath(__file__)))
SEEDED = os.path.join(VERIF, "seeded")
SHIM = os.path.join(VERIF, "triage", "shim")
PY = "/venv/bin/python"


def sh(cmd, **kw):
    return subprocess.run(cmd, capture_output=True, text=True, **kw)


def run_demo(wt: str, demo: str, timeout=600) -> tuple[int, str]:
    env = dict(os.environ)
    env["PYTHONPATH"] = f"{SHIM}:{wt}/guppylang/src:{wt}/guppylang-internals/src"
    env["SRC_ROOT"] = wt
    env.pop("PYTHONHASHSEED", None)
    r = sh([PY, demo], env=env, cwd=os.path.dirname(demo), timeout=timeout)
    return r.returncode, (r.stdout + r.stderr)[-1500:]


def cmd_import(pid: str, k: str, name: str | None) -> int:
    src = f"/tmp/seed/{pid}/{k}"
    name = name or f"{pid}-{k}"
    patch = os.path.join(src, "patch.diff")
    demo = os.path.join(src, "demo.py")
    meta = json.load(open(os.path.join(src, "meta.json")))
    wt = tempfile.mkdtemp(prefix="seedwt-", dir="/tmp")
    os.rmdir(wt)
    r = sh(["git", "-C", "/repo", "worktree", "add", "--detach", wt, "HEAD"])
    if r.returncode:
        print(r.stderr)
        return 2
    try:
        rc0, out0 = run_demo(wt, demo)
        a = sh(["git", "-C", wt, "apply", patch])
        if a.returncode:
            print("patch does not apply to current /repo HEAD:", a.stderr)
            return 2
        # still importable?
        rc_imp = sh([PY, "-c", "import guppylang, guppylang_internals"], env={**os.environ, "PYTHONPATH": f"{SHIM}:{wt}/guppylang/src:{wt}/guppylang-internals/src"})
        rc1, out1 = run_demo(wt, demo)
        print(f"clean: rc={rc0}   patched: rc={rc1}   import-ok={rc_imp.returncode == 0}")
        if not (rc0 == 0 and rc1 == 1 and rc_imp.returncode == 0):
            print("--- clean output\n", out0, "\n--- patched output\n", out1, rc_imp.stderr[-500:])
            print("NOT KEPT")
            return 1
    finally:
        sh(["git", "-C", "/repo", "worktree", "remove", "--force", wt])
    dst = os.path.join(SEEDED, name)
    os.makedirs(dst, exist_ok=True)
    shutil.copy(patch, os.path.join(dst, "patch.diff"))
    shutil.copy(demo, os.path.join(dst, "demo.py"))
    head = sh(["git", "-C", "/repo", "rev-parse", "--short", "HEAD"]).stdout.strip()
    meta.update({
        "property": pid,
        "confirmed": {
            "repo_head": head,
            "demo_on_clean_scratch_worktree": {"rc": rc0, "tail": out0[-300:]},
            "demo_on_patched_scratch_worktree": {"rc": rc1, "tail": out1[-300:]},
            "how": "git worktree of /repo HEAD under /tmp, demo run with PYTHONPATH=<shim>:<wt>/guppylang/src:<wt>/guppylang-internals/src /venv/bin/python demo.py; patch applied with git apply; worktree removed afterwards",
            "existing_tests": "the pinned suite imports the installed guppylang 1.0.4 from site-packages, never /repo's sources, so it passes unchanged with any source edit (DESIGN §1)",
        },
    })
    json.dump(meta, open(os.path.join(dst, "meta.json"), "w"), indent=1)
    print("kept as", dst)
    return 0


def claimed() -> list[str]:
    m = json.load(open(os.path.join(VERIF, "MANIFEST.json")))
    return [c["property_id"] for c in m["checks"]]


def _eval_seed(name: str, props: list[str]) -> tuple[str, dict]:
    """One seed: a scratch copy of /repo's HEAD sources + the patch, every claimed quick check with --root (nothing under /repo is touched)."""
    d = os.path.join(SEEDED, name)
    meta = json.load(open(os.path.join(d, "meta.json")))
    tmp = tempfile.mkdtemp(prefix="seedrun-", dir="/tmp")
    try:
        ar = subprocess.run("git -C /repo archive HEAD guppylang-internals/src guppylang/src | tar -x -C " + tmp, shell=True, capture_output=True, text=True)
        a = sh(["patch", "-p1", "-s", "-f", "--no-backup-if-mismatch", "-i", os.path.join(d, "patch.diff")], cwd=tmp)
        if ar.returncode or a.returncode:
            return name, {"error": "patch does not apply: " + (a.stdout + a.stderr).strip()[:200]}
        fired = {}
        procs = {p: subprocess.Popen([PY, "-m", "gsa.check", p, "--tier", "quick", "--no-evidence", "--root", tmp], cwd=VERIF,
                                     stdout=subprocess.PIPE, stderr=subprocess.STDOUT, text=True) for p in props}
        for p, pr in procs.items():
            out, _ = pr.communicate()
            if pr.returncode != 0:
                lines = [l for l in out.splitlines() if l.startswith(("VIOLATION", "  rule", "  instance", "ANALYSIS-ERROR"))]
                fired[p] = {"rc": pr.returncode, "report": lines[:9]}
    finally:
        shutil.rmtree(tmp, ignore_errors=True)
    own = meta["property"]
    return name, {"property": own, "caught_by_own_check": own in fired and fired[own]["rc"] == 1, "fired": fired}


def cmd_run(names: list[str]) -> int:
    from concurrent.futures import ThreadPoolExecutor
    names = names or sorted(n for n in os.listdir(SEEDED) if os.path.isdir(os.path.join(SEEDED, n)))
    props = claimed()
    results = {}
    with ThreadPoolExecutor(max_workers=3) as ex:
        for name, r in ex.map(lambda n: _eval_seed(n, props), names):
            results[name] = r
            if "error" in r:
                print(name, r)
                continue
            fired = r["fired"]
            tag = "CAUGHT" if r["caught_by_own_check"] else ("caught-by-other" if any(v["rc"] == 1 for v in fired.values()) else "MISSED")
            print(f"{name:14s} {tag:16s} fired={ {p: v['rc'] for p, v in fired.items()} }", flush=True)
            for p, v in fired.items():
                for l in v["report"][:3]:
                    print("      ", p, l)
    if len(results) >= len([n for n in os.listdir(SEEDED) if os.path.isdir(os.path.join(SEEDED, n))]):
        json.dump(results, open(os.path.join(VERIF, "seeded", "RESULTS.json"), "w"), indent=1)
    else:
        old = json.load(open(os.path.join(VERIF, "seeded", "RESULTS.json")))
        old.update(results)
        json.dump(old, open(os.path.join(VERIF, "seeded", "RESULTS.json"), "w"), indent=1)
    return 0


def cmd_expected() -> int:
    """seeded/EXPECTED.json: property -> seed -> first rule that reports it (from the last FULL `run`)."""
    R = json.load(open(os.path.join(SEEDED, "RESULTS.json")))
    names = sorted(n for n in os.listdir(SEEDED) if os.path.isdir(os.path.join(SEEDED, n)))
    missing = [n for n in names if n not in R]
    if missing:
        print("RESULTS.json is not from a full run; missing:", missing)
        return 2
    out: dict = {}
    for sid, r in sorted(R.items()):
        for p, f in r.get("fired", {}).items():
            rule = [l.split()[1] for l in f["report"] if l.strip().startswith("rule")]
            if f.get("rc") == 1 and rule:  # exit 2 (analysis error) is not a report
                out.setdefault(p, {})[sid] = rule[0]
    json.dump(out, open(os.path.join(SEEDED, "EXPECTED.json"), "w"), indent=1, sort_keys=True)
    print("EXPECTED.json:", sum(len(v) for v in out.values()), "(property, seed) pairs")
    return 0


if __name__ == "__main__":
    if len(sys.argv) > 1 and sys.argv[1] == "expected":
        sys.exit(cmd_expected())
    if len(sys.argv) >= 4 and sys.argv[1] == "import":
        sys.exit(cmd_import(sys.argv[2], sys.argv[3], sys.argv[4] if len(sys.argv) > 4 else None))
    if len(sys.argv) >= 2 and sys.argv[1] == "run":
        sys.exit(cmd_run(sys.argv[2:]))
    print(__doc__)
    sys.exit(2)
