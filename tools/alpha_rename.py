#!/venv/bin/python
"""Mechanical behaviour-preserving variant of the whole tree: every local variable of every function is renamed (NOT a check).

  alpha_rename.py <src-root> <dst-root> [suffix]

Copies the two source packages of <src-root> to <dst-root> and rewrites every *.py file: inside each function, every name that
is bound by the function itself (assignment, for/with/except/walrus/match target, comprehension variable) and is neither a
parameter, nor declared global/nonlocal, nor re-bound as a parameter or class attribute of a nested scope, gets the suffix
(`scope` -> `scope_r`).  Parameters, attributes, keyword names, globals and imports keep their names, so callers are
unaffected.  The result is written with `ast.unparse`.  Used to measure how much of a rule depends on how a local is called:
`python -m gsa.check Cxx --root <dst-root>` must stay silent.
"""

from __future__ import annotations

import ast
import os
import shutil
import sys

PKGS = ("guppylang/src", "guppylang-internals/src")
SCOPES = (ast.FunctionDef, ast.AsyncFunctionDef, ast.Lambda, ast.ClassDef)


def own_nodes(fn):
    """Nodes of the function's own scope (comprehensions included, nested defs/lambdas/classes not entered)."""
    todo = list(fn.body) if not isinstance(fn, ast.Lambda) else [fn.body]
    while todo:
        n = todo.pop()
        yield n
        if isinstance(n, SCOPES):
            # decorators, defaults and bases are evaluated in the enclosing scope
            if isinstance(n, ast.ClassDef):
                todo.extend(n.bases + [k.value for k in n.keywords] + n.decorator_list)
            else:
                a = n.args
                todo.extend(a.defaults + [d for d in a.kw_defaults if d is not None])
                if not isinstance(n, ast.Lambda):
                    todo.extend(n.decorator_list)
            continue
        todo.extend(ast.iter_child_nodes(n))


def params(fn) -> set[str]:
    a = fn.args
    out = {x.arg for x in a.posonlyargs + a.args + a.kwonlyargs}
    if a.vararg:
        out.add(a.vararg.arg)
    if a.kwarg:
        out.add(a.kwarg.arg)
    return out


def bound_here(fn) -> set[str]:
    out: set[str] = set()
    for n in own_nodes(fn):
        if isinstance(n, ast.Name) and isinstance(n.ctx, (ast.Store, ast.Del)):
            out.add(n.id)
        elif isinstance(n, ast.ExceptHandler) and n.name:
            out.add(n.name)
        elif isinstance(n, (ast.MatchAs, ast.MatchStar)) and n.name:
            out.add(n.name)
        elif isinstance(n, ast.MatchMapping) and n.rest:
            out.add(n.rest)
    return out


def excluded(fn) -> set[str]:
    """Names that must keep their spelling somewhere below: global/nonlocal declarations, parameters and class-level
    bindings of nested scopes, nested function/class names, imports."""
    out: set[str] = set()
    for n in ast.walk(fn):
        if isinstance(n, (ast.Global, ast.Nonlocal)):
            out.update(n.names)
        elif n is not fn and isinstance(n, (ast.FunctionDef, ast.AsyncFunctionDef, ast.Lambda)):
            out.update(params(n))
            if not isinstance(n, ast.Lambda):
                out.add(n.name)
        elif isinstance(n, ast.ClassDef):
            out.add(n.name)
            for m in ast.walk(n):
                if isinstance(m, ast.Name) and isinstance(m.ctx, ast.Store):
                    out.add(m.id)
        elif isinstance(n, (ast.Import, ast.ImportFrom)):
            out.update((a.asname or a.name).split(".")[0] for a in n.names)
        elif isinstance(n, ast.Call) and isinstance(n.func, ast.Name) and n.func.id in ("locals", "vars", "eval", "exec"):
            out.add("*")
    return out


class Renamer(ast.NodeTransformer):
    def __init__(self, names: set[str], suffix: str):
        self.names, self.suffix = names, suffix

    def _r(self, s):
        return s + self.suffix if s in self.names else s

    def visit_Name(self, n):
        n.id = self._r(n.id)
        return n

    def visit_ExceptHandler(self, n):
        if n.name:
            n.name = self._r(n.name)
        return self.generic_visit(n)

    def visit_MatchAs(self, n):
        if n.name:
            n.name = self._r(n.name)
        return self.generic_visit(n)

    def visit_MatchStar(self, n):
        if n.name:
            n.name = self._r(n.name)
        return n

    def visit_MatchMapping(self, n):
        if n.rest:
            n.rest = self._r(n.rest)
        return self.generic_visit(n)


def rename_module(tree: ast.Module, suffix: str) -> int:
    count = 0

    def outer_functions(node):
        for ch in ast.iter_child_nodes(node):
            if isinstance(ch, (ast.FunctionDef, ast.AsyncFunctionDef)):
                yield ch
            elif isinstance(ch, (ast.ClassDef, ast.If, ast.Try, ast.With)):
                yield from outer_functions(ch)

    for fn in outer_functions(tree):
        ex = excluded(fn)
        if "*" in ex:
            continue
        names = bound_here(fn) - params(fn) - ex
        # names bound by nested functions are renamed by the same pass when they are ALSO bound here; locals of nested
        # functions only are left alone (one level is enough for the measurement)
        names = {x for x in names if not x.startswith("__") and x != "_"}
        if not names:
            continue
        body_before = fn.body
        Renamer(names, suffix).visit(ast.Module(body=body_before, type_ignores=[]))
        # defaults/decorators of fn itself are outside its scope: untouched (only the body was visited)
        count += len(names)
    return count


def main() -> int:
    src, dst = sys.argv[1], sys.argv[2]
    suffix = sys.argv[3] if len(sys.argv) > 3 else "_r"
    total = files = 0
    for pkg in PKGS:
        shutil.copytree(os.path.join(src, pkg), os.path.join(dst, pkg), dirs_exist_ok=True)
        for dp, _dn, fns in os.walk(os.path.join(dst, pkg)):
            for fn in fns:
                if not fn.endswith(".py"):
                    continue
                p = os.path.join(dp, fn)
                text = open(p).read()
                tree = ast.parse(text)
                k = rename_module(tree, suffix)
                if k:
                    open(p, "w").write(ast.unparse(tree) + "\n")
                    compile(open(p).read(), p, "exec")
                    total += k
                    files += 1
    print(f"renamed {total} locals in {files} files -> {dst}")
    return 0


if __name__ == "__main__":
    sys.exit(main())
