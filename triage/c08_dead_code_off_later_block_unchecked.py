"""C08 violation: a variable with path-dependent types inside statically dead code is rejected or
accepted depending on whether the dead code hangs off the *entry* basic block.

    def at_entry(b: bool) -> int:            def after_branch(b: bool) -> int:
        if False:                                if b:
            if b:                                    pass
                z = 1                            if False:
            else:                                    if b:
                z = 1.0                                  z = 1
            return int(z)                            else:
        return 0                                         z = 1.0
                                                     return int(z)
                                                 return 0

The two functions differ only by a no-op `if b: pass` in front.  In both, `z` is `int` on one
incoming path and `float` on the other and is used after the join.

Expected: the same verdict for both.  The property ignores branch condition values ("as Python
does for scoping"), and the maintainers' intent is that unreachable code is still checked
(tests/error/type_errors/unreachable.py: "This code is unreachable, but we still type-check it";
CFGBuilder.visit_stmts: "keep going so we can still check the unreachable code"), so both must be
rejected with BranchTypeError "Variable `z` may refer to different types".

Observed: `at_entry` is rejected with BranchTypeError, `after_branch` is ACCEPTED.  The same holds
for code after a `return` (`ret_at_entry` rejected, `ret_after_branch` accepted).  In fact nothing
inside such dead code is type checked at all: `1 + (2, 3)` is accepted in `garbage_after_branch`
but rejected in `garbage_at_entry`.

Responsible code: guppylang-internals/src/guppylang_internals/checker/cfg_checker.py, `check_cfg`.
The initial work list is built from `cfg.entry_bb.successors + cfg.entry_bb.dummy_successors`
(lines ~101-108), but when a newly checked BB enqueues its successors only
`reverse_enumerate(bb.successors)` is used (lines ~123-128) -- the `dummy_successors` (edges
produced by `if False:`, `while False:`, code after return/break/continue) are forgotten.  Hence an
unreachable BB is visited by `check_bb` / `check_rows_match` only if it is a dummy successor of the
entry BB (or reachable from such a BB).  `Signature.dummy_output_rows` is computed for every BB
in `check_bb` but consumed only for the entry BB.
"""

import sys

from guppylang import guppy
from guppylang_internals.error import GuppyError


@guppy
def at_entry(b: bool) -> int:
    if False:
        if b:
            z = 1
        else:
            z = 1.0
        return int(z)
    return 0


@guppy
def after_branch(b: bool) -> int:
    if b:
        pass
    if False:
        if b:
            z = 1
        else:
            z = 1.0
        return int(z)
    return 0


@guppy
def ret_at_entry(b: bool) -> int:
    return 0
    if b:
        z = 1
    else:
        z = 1.0
    return int(z)


@guppy
def ret_after_branch(b: bool) -> int:
    if b:
        pass
    return 0
    if b:
        z = 1
    else:
        z = 1.0
    return int(z)


@guppy
def garbage_at_entry(b: bool) -> int:
    if False:
        y = 1 + (2, 3)
    return 0


@guppy
def garbage_after_branch(b: bool) -> int:
    if b:
        pass
    if False:
        y = 1 + (2, 3)
    return 0


def status(f) -> str:
    try:
        f.check()
        return "ACCEPTED"
    except GuppyError as e:
        return f"rejected ({type(e.error).__name__})"


pairs = [
    (at_entry, after_branch),
    (ret_at_entry, ret_after_branch),
    (garbage_at_entry, garbage_after_branch),
]
violated = False
for f, g in pairs:
    sf, sg = status(f), status(g)
    print(f"{f.wrapped.name:18s}: {sf}")
    print(f"{g.wrapped.name:18s}: {sg}")
    if sf != sg:
        print("   -> verdict depends on a no-op `if b: pass` in front of the dead code")
        violated = True

# The C08-relevant pair specifically:
if status(after_branch) == "ACCEPTED" or status(ret_after_branch) == "ACCEPTED":
    print(
        "PROPERTY C08 VIOLATED: `z` has different types on the two incoming paths and is used "
        "after the join, but the program is accepted"
    )
    violated = True

sys.exit(1 if violated else 0)
