import guppylang
from guppylang_internals.tys.ty import unify, ExistentialTypeVar, TupleType, NumericType
A = ExistentialTypeVar.fresh("A", True, True)
B = ExistentialTypeVar.fresh("B", True, True)
s = TupleType([A, A]); t = TupleType([B, TupleType([A])])
r = unify(s, t, {})
print("unify((?A, ?A), (?B, (?A,))) =", r)
r2 = unify(A, TupleType([A]), {A: B})
print("unify(?A, (?A,), {?A: ?B}) =", r2)
if r is not None:
    x, y = s, t
    for i in range(4):
        x, y = x.substitute(r), y.substitute(r)
        print(" after", i + 1, "substitutions:", x, "|", y, "| equal:", x == y)
