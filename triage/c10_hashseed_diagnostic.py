from guppylang import guppy
@guppy
def f(b: bool) -> None:
    if b:
        alpha = 1
        beta = 1.0
    else:
        alpha = 1.0
        beta = 1
    t = (alpha, beta)
try:
    f.check(); print("ACCEPTED")
except BaseException as e:
    print(type(e.error).__name__, e.error.ident)
