"""Triage (NOT a registered check; runs repository code under the shim): a struct rebuilt field by field lowers to a wire used twice.

C01: an accepted program lowers to valid HUGR.  `DFContainer.__getitem__` packs the leaves of a struct place into one wire and
CACHES it under the struct's own id; `DFContainer.__setitem__` for a leaf (`s.q = ...`) stores the leaf but does not forget the
cached wire of the enclosing place.  After `consume(s); s.q = qubit(); s.r = qubit(); consume(s)` -- accepted by the linearity
checker, the struct is whole again -- the second `consume(s)` gets the STALE wire of the first: that wire has two uses and the two
fresh qubits none.

    PYTHONPATH=/verif/triage/shim:<tree>/guppylang/src:<tree>/guppylang-internals/src /venv/bin/python c01_stale_struct_wire.py

Exit 0: every value wire of linear type has exactly one use.  Exit 1: some has not.
"""
import sys
import hugr.build.function as hf
from hugr import ops
from guppylang import guppy
from guppylang.std.builtins import owned
from guppylang.std.quantum import qubit
from guppylang_internals.compiler.core import CompilerContext
from guppylang_internals.engine import ENGINE


@guppy.struct
class S:
    q: qubit
    r: qubit


@guppy.declare
def consume(s: S @ owned) -> None: ...


@guppy
def main() -> None:
    s = S(qubit(), qubit())
    consume(s)
    s.q = qubit()
    s.r = qubit()
    consume(s)


ENGINE.check(main.id)
graph = hf.Module()
CompilerContext(graph).compile(ENGINE.checked[main.id])
h = graph.hugr
bad = 0
for n in h:
    op = h[n].op
    if isinstance(op, ops.MakeTuple) and h.num_in_ports(n) == 0:
        continue  # the unit value of a `None` result: copyable
    if isinstance(op, ops.MakeTuple) or (isinstance(op, ops.ExtOp) and "QAlloc" in str(op.op_def().name)):
        for i in range(h.num_out_ports(n)):
            links = list(h.linked_ports(n.out(i)))
            kind = h.port_kind(n.out(i))
            if type(kind).__name__ == "ValueKind" and len(links) != 1:
                print(f"{type(op).__name__} node {n.idx} out port {i}: {len(links)} uses")
                bad += 1
print("ok" if not bad else f"{bad} value ports of linear type without exactly one use")
sys.exit(1 if bad else 0)
