"""C24 violation: the argument of a `power(...)` modifier is never seen by the unitary checker.

Property C24: a function with control/dagger/power flags (or the body of a `with ...` block) must be rejected
whenever it passes qubits to a function that lacks one of the required flags, wherever the call occurs.

The expression `n` of `with power(n):` is evaluated in the ENCLOSING context (it is built into the enclosing
basic block by CFGBuilder.visit_With and type-checked by StmtChecker.visit_ModifiedBlock), so a call in it
belongs to the enclosing unitary function / enclosing `with` body.

Expected: programs A, B, C are rejected with a UnitaryCallError, like the control program Z in which the same
          call `nu_nat(q)` is an ordinary statement; program OK (unitary-free power argument) is accepted.
Observed: Z rejected, OK accepted, but A, B and C are accepted:
   A  @guppy(control=True)  def f(q, t):  with power(nu_nat(q)): h(t)
   B  def f(q, t, c):  with control(c):  with power(nu_nat(q)): h(t)
   C  @guppy(dagger=True)   def f(q, t):  with power(nu_nat(q)): h(t)

Responsible code:
  * guppylang_internals/checker/stmt_checker.py lines 440-444: the checked power argument is stored only in
    `power.iter` (attribute of the `Power` node kept in `CheckedModifiedBlock.power`, which is not an AST field).
  * guppylang_internals/checker/unitary_checker.py: BBUnitaryChecker has no visit method for
    CheckedModifiedBlock, so generic_visit walks the `ast.With` fields `items` / `body`; `items[i].context_expr`
    is still the raw `ast.Call(power, [<unchecked ast.Call>])` - a raw ast.Call is no GlobalCall, hence nothing is
    checked. (Control arguments are only reached by accident: `Control.ctrl` aliases the list `e.args` of that
    raw call, which StmtChecker overwrites in place.)
"""
import sys

from guppylang import guppy
from guppylang.std.builtins import nat
from guppylang.std.quantum import h, qubit, reset
from guppylang_internals.error import GuppyError
from guppylang_internals.experimental import enable_experimental_features

enable_experimental_features()


@guppy
def nu_nat(q: qubit) -> nat:
    """Neither controllable nor invertible: resets its argument."""
    reset(q)
    return nat(2)


@guppy
def two() -> nat:
    return nat(2)


def prog_z():
    @guppy(control=True)
    def f(q: qubit, t: qubit) -> None:
        nu_nat(q)
        h(t)

    return f


def prog_ok():
    @guppy(control=True)
    def f(q: qubit, t: qubit) -> None:
        with power(two()):  # noqa: F821
            h(t)

    return f


def prog_a():
    @guppy(control=True)
    def f(q: qubit, t: qubit) -> None:
        with power(nu_nat(q)):  # noqa: F821
            h(t)

    return f


def prog_b():
    @guppy
    def f(q: qubit, t: qubit, c: qubit) -> None:
        with control(c):  # noqa: F821
            with power(nu_nat(q)):  # noqa: F821
                h(t)

    return f


def prog_c():
    @guppy(dagger=True)
    def f(q: qubit, t: qubit) -> None:
        with power(nu_nat(q)):  # noqa: F821
            h(t)

    return f


def outcome(mk) -> str:
    try:
        mk().check()
    except GuppyError as e:
        return "rejected:" + type(e.error).__name__
    return "accepted"


bad = 0
for name, mk, want in [
    ("Z  statement nu_nat(q) in control fn        ", prog_z, "rejected:UnitaryCallError"),
    ("OK with power(two()) in control fn          ", prog_ok, "accepted"),
    ("A  with power(nu_nat(q)) in control fn      ", prog_a, "rejected:UnitaryCallError"),
    ("B  with control(c): with power(nu_nat(q))   ", prog_b, "rejected:UnitaryCallError"),
    ("C  with power(nu_nat(q)) in dagger fn       ", prog_c, "rejected:UnitaryCallError"),
]:
    got = outcome(mk)
    ok = got == want
    bad += not ok
    print(f"{name} expected {want:28} observed {got:28} {'ok' if ok else 'VIOLATION'}")

if bad:
    print(f"C24 violated: {bad} program(s) with a non-unitary call in a power argument were accepted")
    sys.exit(1)
print("C24 holds for power arguments")
