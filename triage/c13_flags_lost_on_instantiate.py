from guppylang import guppy
from guppylang.std.quantum import qubit, h
import guppylang
T = guppy.type_var("T")

def try_check(f, label):
    try:
        f.check(); print(label, "ACCEPTED")
    except BaseException as e:
        err = getattr(e, "error", None)
        print(label, "REJECTED", type(e).__name__, type(err).__name__ if err else str(e)[:100])

@guppy(control=True)
def gen(q: qubit, x: T) -> None:
    h(q)

@guppy(control=True)
def mono(q: qubit, x: int) -> None:
    h(q)

@guppy(control=True)
def direct(q: qubit) -> None:
    gen(q, 1)

@guppy(control=True)
def via_value_mono(q: qubit) -> None:
    f = mono
    f(q, 1)

@guppy(control=True)
def via_type_apply(q: qubit) -> None:
    f = gen[int]
    f(q, 1)

try_check(direct, "direct call of generic control fn:")
try_check(via_value_mono, "call through value (monomorphic):")
try_check(via_type_apply, "call through gen[int] value:")
