"""C05 triage: two more evaluation-order inversions in the unmodified tree, observed in the lowered HUGR
(order in which the Call nodes of one dataflow block are created = order in which they are chained by
state-order edges).  `compile()` fails in this sandbox at a late packaging step; the HUGR built so far is
recovered from the traceback frames.

  1. mk()[idx()]            Python: mk, idx        guppy: idx, mk   (subscript on a non-place value)
  2. f() * g() (float*angle) Python: f, g          guppy: g, f      (reflected operator fallback)
Exit 1 while at least one inversion is present.
"""
import sys
from guppylang import guppy
from guppylang.std.builtins import array, nat
from guppylang.std.angles import angle


@guppy.declare
def mk() -> array[int, 3]: ...
@guppy.declare
def idx() -> int: ...
@guppy.declare
def f() -> float: ...
@guppy.declare
def g() -> angle: ...


@guppy
def sub() -> int:
    return mk()[idx()]


@guppy
def refl() -> angle:
    return f() * g()


def call_order(defn, names):
    hugr = None
    try:
        defn.compile()
    except Exception:
        tb = sys.exc_info()[2]
        while tb is not None:
            loc = tb.tb_frame.f_locals
            for v in list(loc.values()):
                h = getattr(v, "hugr", None)
                if h is not None and hasattr(h, "descendants"):
                    hugr = h
            tb = tb.tb_next
    if hugr is None:
        return None
    import hugr.ops as ops
    # map FuncDecl nodes to names
    decl = {}
    for n in hugr.descendants():
        op = hugr[n].op
        if isinstance(op, (ops.FuncDecl, ops.FuncDefn)):
            decl[n] = op.f_name
    order = []
    for n in hugr.descendants():
        op = hugr[n].op
        if isinstance(op, ops.Call):
            out = str(op.signature.body.output if hasattr(op.signature, "body") else op.signature.output)
            for nm, marker in names.items():
                if marker in out and "->" not in out:
                    order.append(nm)
                    break
            else:
                order.append(f"?{out[:60]}")
    return order[:2]


bad = 0
for name, defn, names, py in (("mk()[idx()]", sub, {"mk": "array", "idx": "int"}, ["mk", "idx"]), ("f() * g()", refl, {"g": "[Tuple(ExtType(type_def=TypeDef(name='float64'", "f": "[ExtType(type_def=TypeDef(name='float64'"}, ["f", "g"])):
    got = call_order(defn, names)
    print(f"{name:14s} python evaluates {py}, lowered call nodes are created in order {got}")
    if got is not None and got != py:
        bad += 1
sys.exit(1 if bad else 0)
