"""C24 violation: calls hidden inside a subscripted place are never seen by the unitary checker.

Property C24: a function with control/power flags (or the body of a `with control/power` block) must be
rejected whenever it passes qubits to a function that lacks one of the required flags, WHEREVER the call occurs.

Expected: each of the programs A-E below is rejected with a UnitaryCallError, exactly like the control
          program Z, which performs the very same call `nu_int(q)` as an ordinary statement.
Observed: Z is rejected, A-E are accepted (check() succeeds):
   A  h(qs[nu_int(q)])          index expression of a subscript on a qubit array, control=True function
   B  return xs[nu_int(q)]      index expression of a subscript on a classical array
   C  with control(c): xs[nu_int(q)]      same inside a `with control` block
   D  xs[nu_int(q)] = 1         index expression of a subscript assignment target
   E  s[0]  where S.__getitem__(self: S, i) is a non-unitary user method and S holds a qubit:
            the struct (with its qubit) is passed to a non-controllable function

Responsible code: guppylang_internals/checker/unitary_checker.py
  * visit_PlaceNode (lines 125-129) only tests `contains_subscript` under dagger and never descends into the
    place; the checked index expression (`SubscriptAccess.item_expr`) and the checked `__getitem__` /
    `__setitem__` calls (`SubscriptAccess.getitem_call` / `setitem_call`) live inside the Place object, which is
    not an AST node, so generic_visit does not reach them either.
  * _check_assign (lines 110-114) visits only `node.value`, never the assignment targets.
Under dagger these programs are rejected for another reason (subscripts are unsupported there), so the hole
shows for Control and Power contexts.
"""
import sys

from guppylang import guppy
from guppylang.std.builtins import array
from guppylang.std.quantum import h, qubit, reset
from guppylang_internals.error import GuppyError
from guppylang_internals.experimental import enable_experimental_features

enable_experimental_features()


@guppy
def nu_int(q: qubit) -> int:
    """Not controllable: resets its argument."""
    reset(q)
    return 0


def prog_z():
    @guppy(control=True)
    def f(q: qubit) -> None:
        nu_int(q)

    return f


def prog_a():
    @guppy(control=True)
    def f(qs: array[qubit, 3], q: qubit) -> None:
        h(qs[nu_int(q)])

    return f


def prog_b():
    @guppy(control=True)
    def f(xs: array[int, 3], q: qubit) -> int:
        return xs[nu_int(q)]

    return f


def prog_c():
    @guppy
    def f(xs: array[int, 3], q: qubit, c: qubit) -> None:
        with control(c):  # noqa: F821
            xs[nu_int(q)]

    return f


def prog_d():
    @guppy(power=True)
    def f(xs: array[int, 3], q: qubit) -> None:
        xs[nu_int(q)] = 1

    return f


def prog_e():
    @guppy.struct
    class S:
        q: qubit

        @guppy
        def __getitem__(self: "S", i: int) -> int:
            reset(self.q)
            return 0

    @guppy(control=True)
    def f(s: S) -> int:
        return s[0]

    return f


def outcome(mk) -> str:
    try:
        mk().check()
    except GuppyError as e:
        return "rejected:" + type(e.error).__name__
    return "accepted"


bad = 0
for name, mk, want in [
    ("Z statement nu_int(q)          ", prog_z, "rejected:UnitaryCallError"),
    ("A h(qs[nu_int(q)])             ", prog_a, "rejected:UnitaryCallError"),
    ("B return xs[nu_int(q)]         ", prog_b, "rejected:UnitaryCallError"),
    ("C with control: xs[nu_int(q)]  ", prog_c, "rejected:UnitaryCallError"),
    ("D xs[nu_int(q)] = 1 (power)    ", prog_d, "rejected:UnitaryCallError"),
    ("E s[0] via non-unitary getitem ", prog_e, "rejected:UnitaryCallError"),
]:
    got = outcome(mk)
    ok = got == want
    bad += not ok
    print(f"{name} expected {want:28} observed {got:28} {'ok' if ok else 'VIOLATION'}")

if bad:
    print(f"C24 violated: {bad} program(s) passing qubits to a non-controllable function were accepted")
    sys.exit(1)
print("C24 holds for calls inside subscripted places")
