from guppylang import guppy
from guppylang.std.quantum import qubit, h, project_z
from guppylang.std.builtins import owned
import guppylang
guppylang.enable_experimental_features()

def try_check(f, label):
    try:
        f.check(); print(label, "ACCEPTED")
    except BaseException as e:
        err = getattr(e, "error", None)
        print(label, "REJECTED", type(e).__name__, type(err).__name__ if err else str(e)[:80])

@guppy(control=True)
def in_stmt(q: qubit) -> None:
    b = project_z(q)

@guppy(control=True)
def in_cond(q: qubit) -> None:
    if project_z(q):
        h(q)

@guppy
def nu(q: qubit @ owned) -> qubit:
    return q

@guppy(control=True)
def two(a: qubit @ owned, b: qubit @ owned) -> tuple[qubit, qubit]:
    return a, b

@guppy(control=True)
def first_arg(a: qubit @ owned, b: qubit @ owned) -> tuple[qubit, qubit]:
    return two(nu(a), b)

@guppy(control=True)
def later_arg(a: qubit @ owned, b: qubit @ owned) -> tuple[qubit, qubit]:
    return two(a, nu(b))

try_check(in_stmt, "non-unitary call in statement:")
try_check(in_cond, "non-unitary call in if-condition:")
try_check(first_arg, "non-unitary call as 1st arg:")
try_check(later_arg, "non-unitary call as 2nd arg (after a qubit arg):")
