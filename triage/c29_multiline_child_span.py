"""C29: a sub-diagnostic whose span is a multi-line `Span` object crashes the renderer (`if child.span` -> Span.__len__)."""
import sys
from guppylang.decorator import guppy
from guppylang.std.quantum import qubit
from guppylang_internals.experimental import enable_experimental_features

enable_experimental_features()


@guppy
def test(c: qubit) -> None:
    with (control(c),
          dagger):
        return


from guppylang_internals.error import GuppyError
from guppylang_internals.diagnostic import DiagnosticsRenderer
from guppylang_internals.engine import DEF_STORE

try:
    test.check()
    print("accepted?!")
    sys.exit(2)
except GuppyError as e:
    renderer = DiagnosticsRenderer(DEF_STORE.sources)
    try:
        renderer.render_diagnostic(e.error)      # exactly what the excepthook does
    except BaseException as e2:
        print("RENDERING CRASHED:", type(e2).__name__, e2)
        sys.exit(1)
    print("\n".join(renderer.buffer))
    sys.exit(0)
