"""C24 violation: arguments whose type is a (non-copyable) type variable count as classical.

Property C24: a unitary context is rejected whenever it passes qubits to a function whose flags do not include
every flag the context requires - quantified over all qubit/classical argument mixes (generic code included).

    T = guppy.type_var("T", copyable=False, droppable=False)

    @guppy(control=True)
    def apply(x: T, g: Callable[[T], None]) -> None:
        g(x)                      # g has NO unitary flags

    @guppy(control=True)
    def main(q: qubit) -> None:
        apply(q, reset)           # fine for the checker: `apply` is declared controllable

Expected: `apply` (program A) is rejected: it hands `x` - a linear value that is a qubit for T := qubit - to a
          function without the Control flag. Likewise program B (`nu(x)` with a global generic non-unitary `nu`)
          in a unitary=True function. With A rejected, `main` cannot smuggle `reset` under control.
          The monomorphic twins (x: qubit instead of x: T) ARE rejected (programs Za, Zb) - same code, T := qubit.
Observed: A, B and `main` are accepted, so `reset(q)` is executed inside a function that is recorded as
          controllable - the exact thing C24 is there to exclude.

Responsible code:
  * guppylang_internals/tys/qubit.py lines 38-40: QubitFinder.visit defaults to False for every type it does not
    know, including BoundTypeVar / ExistentialTypeVar, so contain_qubit_ty(T) is False;
  * guppylang_internals/checker/unitary_checker.py lines 69-83: _check_classical_args / _check_call therefore treat
    the call as "all arguments classical" and skip the flag test.
Borderline note: at the generic definition the checker cannot know T; but only a conservative answer (a
non-copyable type variable may be a qubit) keeps the property for the instantiation main -> apply[qubit].
"""
import sys
from collections.abc import Callable

from guppylang import guppy
from guppylang.std.quantum import qubit, reset
from guppylang_internals.error import GuppyError
from guppylang_internals.experimental import enable_experimental_features

enable_experimental_features()

T = guppy.type_var("T", copyable=False, droppable=False)


def prog_za():
    @guppy(control=True)
    def apply(x: qubit, g: Callable[[qubit], None]) -> None:
        g(x)

    return apply


def prog_zb():
    @guppy
    def nu(x: qubit) -> None:
        reset(x)

    @guppy(unitary=True)
    def f(x: qubit) -> None:
        nu(x)

    return f


def prog_a():
    @guppy(control=True)
    def apply(x: T, g: Callable[[T], None]) -> None:
        g(x)

    return apply


def prog_b():
    @guppy
    def nu(x: T) -> None:
        pass

    @guppy(unitary=True)
    def f(x: T) -> None:
        nu(x)

    return f


def prog_main():
    @guppy(control=True)
    def apply(x: T, g: Callable[[T], None]) -> None:
        g(x)

    @guppy(control=True)
    def main(q: qubit) -> None:
        apply(q, reset)

    return main


def outcome(mk) -> str:
    try:
        mk().check()
    except GuppyError as e:
        return "rejected:" + type(e.error).__name__
    return "accepted"


bad = 0
for name, mk, want in [
    ("Za g(x), x: qubit, g without flags          ", prog_za, "rejected:UnitaryCallError"),
    ("Zb nu(x), x: qubit, nu without flags        ", prog_zb, "rejected:UnitaryCallError"),
    ("A  g(x), x: T linear, g without flags       ", prog_a, "rejected:UnitaryCallError"),
    ("B  nu(x), x: T linear, nu without flags     ", prog_b, "rejected:UnitaryCallError"),
    ("M  main(q): apply(q, reset) under control   ", prog_main, "rejected:UnitaryCallError"),
]:
    got = outcome(mk)
    ok = got == want
    bad += not ok
    print(f"{name} expected {want:28} observed {got:28} {'ok' if ok else 'VIOLATION'}")

if bad:
    print(f"C24 violated: {bad} generic program(s) passing a possibly-qubit value to a flag-less function accepted")
    sys.exit(1)
print("C24 holds for generic arguments")
