import sys
from guppylang import guppy
from guppylang_internals.span import Span, Loc
a = Span(Loc("f",1,2), Loc("f",1,5)); b = Span(Loc("f",1,0), Loc("f",1,9))
print("a in b (expect True):", a in b, "| b in a (expect False):", b in a, "| b in b:", b in b)
print("touching &:", Span(Loc("f",1,0),Loc("f",1,3)) & Span(Loc("f",1,3),Loc("f",1,5)))

from guppylang_internals.tys.ty import unify, TupleType, ExistentialTypeVar
from guppylang_internals.tys.const import ExistentialConstVar, ConstValue
from guppylang_internals.tys.builtin import array_type, int_type, nat_type
n = ExistentialConstVar.fresh("n", nat_type()); m = ExistentialConstVar.fresh("m", nat_type())
s = TupleType([array_type(int_type(), m), array_type(int_type(), n)])
t = TupleType([array_type(int_type(), 3), array_type(int_type(), m)])
sub = unify(s, t, {})
print("subst:", {str(k): str(v) for k, v in sub.items()})
print("s[sub] =", s.substitute(sub), "| t[sub] =", t.substitute(sub), "| equal:", s.substitute(sub) == t.substitute(sub))
A = ExistentialTypeVar.fresh("A", True, True); B = ExistentialTypeVar.fresh("B", True, True)
s2 = TupleType([B, A]); t2 = TupleType([int_type(), TupleType([B])])
sub2 = unify(s2, t2, {})
print("subst2:", {str(k): str(v) for k, v in sub2.items()}, "| equal:", s2.substitute(sub2) == t2.substitute(sub2), s2.substitute(sub2), t2.substitute(sub2))
