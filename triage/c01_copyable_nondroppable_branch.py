"""C01 violation: a branch whose successors need different *copyable but not droppable* values lowers to an
ill-formed CFG (block signatures of connected basic blocks do not match).

Program (accepted by the checker, `T` is the bound `copyable=True, droppable=False` that the standard library itself uses,
see `TCopyable` in guppylang/std/collections/priority_queue.py):

    T = guppy.type_var("T", copyable=True, droppable=False)

    @guppy.declare
    def use(x: T) -> None: ...

    @guppy
    def f(x: T, b: bool) -> None:
        use(x)          # x is used (copied) once here, so it does not have to be used again
        if b:
            use(x)      # ... but one branch uses it again, the other does not

Expected: the checker accepts `f` (checker/linearity_checker.py:806-817 only demands that a non-droppable place is used
*at least once*: `not leaf.ty.droppable and not scope.used(x) and not used_later`; `x` was used in the entry block), so
by C01 lowering must give a HUGR that validates.  The branching block has to hand `x` to the `then` successor only.

Observed: `compile_bb` (compiler/cfg_compiler.py:125-150) splits the branch-dependent outputs by `ty.droppable`:
droppable places go into the TupleSum (`choose_vars_for_tuple_sum`, l.142-149) and for all others it assumes
"all linear variables ... are shared between all successors" (comment l.136-139) and emits

    outputs = [v for v in first if not v.ty.droppable]            # l.150, `first` = row of successor 0 only

That assumption holds for linear (non-copyable) places but not for copyable non-droppable ones: `x` is live in only one of
the two successors.  The block therefore outputs the non-droppable places of successor 0 to BOTH successors while each
successor block declares its own input row (`sort_vars(bb.sig.input_row)`, l.97-98).  HUGR validation fails with
"The dataflow signature of two connected basic blocks does not match. The source type was [] but the target had type [#0]".
(With the branches swapped, `if b: pass / else: use(x)`, the mismatch is the other way round.)

Exit status: 1 if the accepted program lowers to an invalid HUGR (property violated), 0 otherwise.

Run:  PYTHONPATH=/tmp/shim:<wt>/guppylang/src:<wt>/guppylang-internals/src /venv/bin/python bug1.py
"""

import builtins
import shutil
import subprocess
import sys

# ---------------------------------------------------------------------------------------------------------------------
# Sandbox preamble (not part of the finding): the shim's stub `tket.bool` extension has no ops, so nothing with a branch
# can be lowered; and hugr-py here is newer than the worktree expects (`val.Extension` lost the `extensions` keyword).
import tket_exts
from hugr import tys as _ht
from hugr.ext import OpDef as _OpDef, OpDefSig as _OpDefSig

_orig_bool, _cache = tket_exts.bool, []


def _bool():
    if not _cache:
        e = _orig_bool()
        if not e.operations:
            b = _ht.ExtType(e.get_type("bool"))
            for name, sig in {
                "read": _ht.FunctionType([b], [_ht.Bool]),
                "make_opaque": _ht.FunctionType([_ht.Bool], [b]),
                "not": _ht.FunctionType([b], [b]),
                "eq": _ht.FunctionType([b, b], [b]),
                "and": _ht.FunctionType([b, b], [b]),
                "or": _ht.FunctionType([b, b], [b]),
                "xor": _ht.FunctionType([b, b], [b]),
            }.items():
                e.add_op_def(_OpDef(name, _OpDefSig(sig), description=name))
        _cache.append(e)
    return _cache[0]


tket_exts.bool = _bool

import inspect as _inspect
import hugr.val as _hv

if "extensions" not in _inspect.signature(_hv.Extension.__init__).parameters:
    _oi = _hv.Extension.__init__
    _hv.Extension.__init__ = lambda self, name, typ, val, extensions=None: _oi(self, name, typ, val)
# ---------------------------------------------------------------------------------------------------------------------

import hugr.build.function as hf
from hugr import ops
from hugr.package import Package

from guppylang import guppy
from guppylang_internals.compiler.core import CompilerContext
from guppylang_internals.engine import ENGINE
from guppylang_internals.error import GuppyError

print = builtins.print

T = guppy.type_var("T", copyable=True, droppable=False)


@guppy.declare
def use(x: T) -> None: ...


@guppy
def f(x: T, b: bool) -> None:
    use(x)
    if b:
        use(x)


def block_signature_mismatches(h):
    """Independent of the validator: compares what every DataflowBlock sends along its i-th CFG edge (variant row i of
    its Sum ++ other outputs) with the input row of the block at the other end."""
    bad = []
    for node in h:
        op = h[node].op
        if not isinstance(op, ops.DataflowBlock):
            continue
        for i, row in enumerate(op.sum_ty.variant_rows):
            sent = [*row, *op.other_outputs]
            for tgt in h.linked_ports(node.out(i)):
                top = h[tgt.node].op
                expected = list(top.cfg_outputs) if isinstance(top, ops.ExitBlock) else list(top.inputs)
                if sent != expected:
                    bad.append((node, i, tgt.node, sent, expected))
    return bad


def cli_validate(h):
    exe = shutil.which("hugr") or "/venv/bin/hugr"
    import guppylang_internals.std._internal.compiler.tket_exts as te
    from guppylang_internals.compiler.hugr_extension import EXTENSION as GE

    exts = {GE.name: GE}
    for n in dir(te):
        if n.endswith("_EXTENSION"):
            exts[getattr(te, n).name] = getattr(te, n)
    for n in dir(tket_exts):
        try:
            e = getattr(tket_exts, n)()
            exts.setdefault(e.name, e)
        except Exception:
            pass
    try:
        p = subprocess.run([exe, "validate", "-"], input=Package([h], list(exts.values())).to_bytes(), capture_output=True)
    except OSError as e:
        return None, f"(hugr CLI not available: {e})"
    return p.returncode, p.stderr.decode().split("Stack backtrace")[0].strip()


def main() -> int:
    defn = f.wrapped
    try:
        ENGINE.check(defn.id)
    except GuppyError as e:
        print("checker REJECTS f:", type(e.error).__name__, "-> property not exercised")
        return 0
    print("checker ACCEPTS f")
    mod = hf.Module()
    CompilerContext(mod).compile(ENGINE.checked[defn.id])
    print("lowered without exception")

    bad = block_signature_mismatches(mod.hugr)
    for src, i, tgt, sent, expected in bad:
        print(f"  CFG edge {src} --{i}--> {tgt}: block sends {sent} but successor expects {expected}")
    rc, err = cli_validate(mod.hugr)
    print("hugr validate exit code:", rc)
    if err:
        print(err)
    if bad or rc:
        print("VIOLATION of C01: accepted program lowered to an ill-formed CFG")
        return 1
    print("ok: valid HUGR")
    return 0


if __name__ == "__main__":
    sys.exit(main())
