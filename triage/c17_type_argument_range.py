"""Triage (NOT a registered check; runs repository code under the shim): integers in type-argument position are not range-checked.

C17: an integer literal or comptime Python integer is accepted at type nat iff it lies in [0, 2^64 - 1].  `arg_from_ast` turns every
non-negative integer literal, and EVERY comptime integer (negative ones too), written as a type argument into a nat constant without
looking at its size: `array[int, 18446744073709551616]` and `array[int, comptime(-1)]` are accepted.

    PYTHONPATH=/verif/triage/shim:<tree>/guppylang/src:<tree>/guppylang-internals/src /venv/bin/python c17_type_argument_range.py

Exit 0: exactly the three out-of-range arguments are rejected.  Exit 1: otherwise.
"""
import sys
from guppylang import guppy
from guppylang.std.builtins import array, comptime

def outcome(src_fn):
    try:
        src_fn().check()
        return "accepted"
    except BaseException as e:
        return f"{type(e).__name__}: {type(getattr(e,'error',None)).__name__}"

def big():
    @guppy.declare
    def f(a: array[int, 18446744073709551616]) -> None: ...
    return f

def fits():
    @guppy.declare
    def f(a: array[int, 18446744073709551615]) -> None: ...
    return f

N = -1
def neg():
    @guppy.declare
    def f(a: array[int, comptime(N)]) -> None: ...
    return f

M = 2**64
def bigc():
    @guppy.declare
    def f(a: array[int, comptime(M)]) -> None: ...
    return f

res = {}
for nm, fn in (("2^64 literal", big), ("2^64-1 literal", fits), ("comptime(-1)", neg), ("comptime(2^64)", bigc)):
    res[nm] = outcome(fn)
    print(nm, "->", res[nm])
ok = res["2^64-1 literal"] == "accepted" and all(v.startswith("Guppy") for k, v in res.items() if k != "2^64-1 literal")
sys.exit(0 if ok else 1)
