from guppylang import guppy
from guppylang.std.builtins import result, array

@guppy
def f() -> int:
    result("f", 1)
    return 0

@guppy
def aug(xs: array[int, 3]) -> None:
    xs[f()] += 1

@guppy
def chain(x: int) -> bool:
    return 0 <= f() < x

from guppylang_internals.engine import ENGINE
from guppylang_internals.nodes import GlobalCall
import ast

def count_calls(defn, name):
    ENGINE.check(defn.id)
    cfg = ENGINE.checked[defn.id].cfg
    n = 0
    seen=set()
    def walk(node):
        nonlocal n
        if id(node) in seen: return
        seen.add(id(node))
        if isinstance(node, GlobalCall):
            from guppylang_internals.engine import DEF_STORE
            if DEF_STORE.raw_defs[node.def_id].name == name:
                n += 1
        from guppylang_internals.nodes import PlaceNode
        from guppylang_internals.checker.core import SubscriptAccess
        if isinstance(node, PlaceNode):
            p = node.place
            while hasattr(p, 'parent'):
                if isinstance(p, SubscriptAccess):
                    walk(p.item_expr)
                    if p.getitem_call: walk(p.getitem_call)
                    if p.setitem_call: walk(p.setitem_call.call)
                p = p.parent
        if isinstance(node, ast.AST):
            for _, v in ast.iter_fields(node):
                if isinstance(v, list):
                    for i in v: walk(i)
                else: walk(v)
    for bb in cfg.bbs:
        for s in bb.statements: walk(s)
        if bb.branch_pred is not None: walk(bb.branch_pred)
    return n, len(cfg.bbs)

print("aug: distinct f() call nodes:", count_calls(aug, "f"))
print("chain: distinct f() call nodes:", count_calls(chain, "f"))
