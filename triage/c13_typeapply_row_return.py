"""Triage (NOT a registered check; runs repository code under the shim): the row-return guard of visit_TypeApply never fires.

C13: a generic function used at an inferred instantiation gives a valid HUGR.  `ident: forall T. T -> T` passed to
`apply(f: Callable[[tuple[int, int]], tuple[int, int]], ...)` is type-applied at T := tuple[int, int]: the loaded function value
has ONE output port (a Tuple), the indirect call inside `apply` expects TWO (int, int).  `ExprCompiler.visit_TypeApply` means to
reject this ("Generic function instantiations returning rows"), but `instantiation_needs_unpacking` tests `inst[idx]` -- a TypeArg --
against the TYPE classes TupleType | NoneType, which is always False.

    PYTHONPATH=/verif/triage/shim:<tree>/guppylang/src:<tree>/guppylang-internals/src /venv/bin/python c13_typeapply_row_return.py

Exit 0: rejected with a Guppy error.  Exit 1: lowered; the two signatures printed do not agree.
"""
import sys
from collections.abc import Callable
import hugr.build.function as hf
from hugr import ops
from guppylang import guppy
from guppylang_internals.compiler.core import CompilerContext
from guppylang_internals.engine import ENGINE
from guppylang_internals.error import GuppyError

T = guppy.type_var("T")

@guppy
def ident(x: T) -> T:
    return x

@guppy
def apply(f: Callable[[tuple[int, int]], tuple[int, int]], x: tuple[int, int]) -> tuple[int, int]:
    return f(x)

@guppy
def main() -> tuple[int, int]:
    return apply(ident, (1, 2))

def lower(defn):
    ENGINE.check(defn.id)
    graph = hf.Module()
    ctx = CompilerContext(graph)
    ctx.compile(ENGINE.checked[defn.id])
    return graph.hugr

try:
    h = lower(main)
except GuppyError as e:
    print("REJECTED:", type(e.error).__name__, e.error.rendered_message if hasattr(e.error, "rendered_message") else e.error)
    sys.exit(0)
except Exception as e:
    print("FAILED:", type(e).__name__, str(e)[:300]); sys.exit(2)
for n in h:
    op = h[n].op
    if isinstance(op, (ops.LoadFunc,)):
        print("LoadFunc", op.instantiation if hasattr(op,'instantiation') else '', "->", op.outer_signature().output if hasattr(op,'outer_signature') else '')
    if isinstance(op, ops.CallIndirect):
        print("CallIndirect", op.signature)
sys.exit(1)
