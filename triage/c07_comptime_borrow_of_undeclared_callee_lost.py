"""C22 bug 1: a qubit passed to `barrier` / `state_result` / an `@guppy.overload`
function inside a comptime body is silently dropped (leak accepted, ill-formed HUGR),
and the legal continuation (using the qubit afterwards) is rejected as a double use.

Expected (property C22):
  * `leak*` below receive an owned qubit, only *borrow* it (barrier and the overloaded
    `f` take their arguments as inout) and return without ever consuming it.  A
    non-droppable value received by the function is never used -> tracing must raise a
    Guppy error ("... is leaked by this function").  The ordinary (non-comptime)
    checker rejects the very same body with PlaceNotUsedError.
  * `valid*` below borrow the qubit and use it afterwards exactly once (or hand it
    back to the caller).  No ownership rule is broken -> must be accepted.

Observed on the unmodified tree:
  * `leak_barrier`, `leak_overload` are lowered WITHOUT any error; the resulting HUGR
    has the qubit output port of the Barrier op / Call node connected to nothing
    (a linear wire with 0 links).
  * `valid_barrier`, `valid_borrowed` fail with "Value with non-copyable type `qubit`
    was already used ... as an argument to `barrier`".

Responsible code: guppylang_internals/tracing/function.py, `trace_call`:
  * l.159-160  `state.dfg[var] = obj._use_wire(func)` marks every argument as used and
    removes it from `state.unused_undroppable_objs`;
  * l.176      `if len(func.ty.inputs) != 0:` -- the write-back of inout arguments
    (`update_packed_value`, which un-marks the object and re-registers it as unused) is
    skipped whenever the callee's *declared* type has no inputs.  That is the case for
    every custom-checker function without annotations (`barrier(*args)`,
    `state_result(tag, *args)`) and for `@guppy.overload` definitions (dummy type), even
    though the call that was actually synthesised borrows its arguments
    (BarrierChecker builds `FuncInput(t, InputFlags.Inout)`).
  So the borrowed qubit stays "used" forever: it is no longer in
  `unused_undroppable_objs` (leak check at l.130 is blind to it) and any later use trips
  `GuppyObject._use_wire` (object.py l.388).
"""

import sys

import hugr.build.function as hf
from hugr import OutPort

from guppylang import guppy, qubit
from guppylang.std.builtins import barrier, owned
from guppylang.std.quantum import discard
from guppylang_internals.compiler.core import CompilerContext
from guppylang_internals.engine import ENGINE
from guppylang_internals.error import GuppyComptimeError, GuppyError


def lower(f):
    try:
        ENGINE.check(f.id)
        mod = hf.Module()
        CompilerContext(mod).compile(ENGINE.checked[f.id])
        return mod, None
    except (GuppyError, GuppyComptimeError) as e:
        return None, e


def dangling_qubits(mod):
    hg = mod.hugr
    out = []
    for n in list(hg):
        for i in range(hg.num_out_ports(n)):
            p = OutPort(n, i)
            try:
                t = hg.port_type(p)
            except Exception:
                continue
            if t is not None and "qubit" in str(t).lower():
                k = len(list(hg.linked_ports(p)))
                if k != 1:
                    out.append(f"{n} {type(hg[n].op).__name__} out-port {i}: {k} links")
    return out


def msg(e):
    return str(getattr(e, "error", e)).replace("\n", " | ")[:300]


@guppy.declare
def f1(q: qubit) -> None: ...


@guppy.declare
def f2(q: qubit, r: qubit) -> None: ...


@guppy.overload(f1, f2)
def f(): ...


@guppy.comptime
def leak_barrier(q: qubit @ owned) -> None:
    barrier(q)  # only borrows q; q is never consumed -> leak


@guppy.comptime
def leak_overload(q: qubit @ owned) -> None:
    f(q)  # f1 only borrows q -> leak


@guppy
def leak_reference(q: qubit @ owned) -> None:
    barrier(q)  # same body, ordinary Guppy: rejected


@guppy.comptime
def valid_barrier(q: qubit @ owned) -> None:
    barrier(q)
    discard(q)  # first and only consuming use


@guppy.comptime
def valid_borrowed(q: qubit) -> None:
    barrier(q)  # q is handed back to the caller


@guppy
def valid_reference(q: qubit @ owned) -> None:
    barrier(q)
    discard(q)


bad = False

mod, e = lower(leak_reference)
print("non-comptime  barrier(q) w/o use :", "ACCEPTED" if e is None else f"rejected ({type(e.error).__name__})")
mod, e = lower(valid_reference)
print("non-comptime  barrier(q);discard :", "accepted" if e is None else f"REJECTED {msg(e)}")

for name, fn in [("leak_barrier", leak_barrier), ("leak_overload", leak_overload)]:
    mod, e = lower(fn)
    if e is None:
        bad = True
        print(f"comptime {name}: ACCEPTED although the owned qubit is leaked")
        for d in dangling_qubits(mod):
            print("      dangling linear wire in the HUGR:", d)
    else:
        print(f"comptime {name}: rejected as required ({msg(e)})")

for name, fn in [("valid_barrier", valid_barrier), ("valid_borrowed", valid_borrowed)]:
    mod, e = lower(fn)
    if e is None:
        print(f"comptime {name}: accepted as required")
    else:
        bad = True
        print(f"comptime {name}: REJECTED although valid: {msg(e)}")

if bad:
    print("RESULT: property C22 violated")
    sys.exit(1)
print("RESULT: ok")
sys.exit(0)
