"""C24 triage: two ways to apply a non-unitary function to qubits inside a unitary context that the unmodified tree accepts.
  1. the qubit travels inside a (non-generic) struct:  with dagger: foo(s)      s: S{q: qubit}
  2. the non-unitary call sits in callee position:     with control(c): make(q)()
Exits 1 while at least one is accepted."""
import sys
from collections.abc import Callable
from guppylang import guppy
from guppylang.std.quantum import qubit
from guppylang_internals.error import GuppyError
from guppylang_internals.experimental import enable_experimental_features
enable_experimental_features()

@guppy.struct
class S:
    q: qubit

@guppy.declare
def foo(s: S) -> None: ...

@guppy.declare
def make(q: qubit) -> Callable[[], None]: ...

@guppy
def in_struct(s: S) -> None:
    with dagger:
        foo(s)

@guppy
def in_callee(c: qubit, q: qubit) -> None:
    with control(c):
        make(q)()

bad = 0
for name, f in (("struct argument under dagger", in_struct), ("call in callee position under control", in_callee)):
    try:
        f.check()
        print(f"{name}: ACCEPTED")
        bad += 1
    except GuppyError as e:
        print(f"{name}: rejected ({type(e.error).__name__})")
sys.exit(1 if bad else 0)
