from guppylang.decorator import guppy
from guppylang.std.quantum import qubit
import guppylang
guppylang.enable_experimental_features()

@guppy(power=True)
def pw(q: qubit) -> bool:
    return True

@guppy(power=True, control=True)
def both(q: qubit) -> bool:
    return True

@guppy
def flat(q: qubit, c: qubit) -> None:
    with control(c):
        b = pw(q)

@guppy
def nested_stmt(q: qubit, c: qubit) -> None:
    with control(c):
        with power(2):
            pw(q)

@guppy
def nested_cond(q: qubit, c: qubit) -> None:
    with control(c):
        with power(2):
            if pw(q):
                pass

@guppy
def nested_cond_ok(q: qubit, c: qubit) -> None:
    with control(c):
        with power(2):
            if both(q):
                pass
@guppy
def nested_ret(q: qubit, c: qubit) -> None:
    with control(c):
        with power(2):
            x = 1 if pw(q) else 2

for t in (flat, nested_stmt, nested_cond, nested_cond_ok, nested_ret):
    try:
        t.check(); print(t.wrapped.name if hasattr(t,'wrapped') else t, "ACCEPTED")
    except Exception as e:
        print("REJECTED", type(e).__name__, type(getattr(e,'error',None)).__name__)
