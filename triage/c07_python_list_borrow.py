"""C07: a comptime function lends a plain Python list to a Guppy function that borrows an array.
update_packed_value cannot update the int elements in place and is supposed to replace each element by a Guppy object for
the element handed back by the callee -- but it stores the object for the WHOLE array (`vs[i] = obj`) in every slot."""
import sys
import hugr.build.function as hf
from guppylang import guppy
from guppylang.std.builtins import array
from guppylang_internals.compiler.core import CompilerContext
from guppylang_internals.engine import ENGINE
from guppylang_internals.error import GuppyError


@guppy
def bump(xs: array[int, 2]) -> None:
    xs[0] = 42


@guppy.comptime
def caller() -> int:
    ys = [1, 2]
    bump(ys)          # lends ys
    return ys[0]      # must be the element the callee handed back


def lower(defn):
    ENGINE.check(defn.id)
    graph = hf.Module()
    ctx = CompilerContext(graph)
    return ctx.compile(ENGINE.checked[defn.id])


try:
    lower(caller)
    print("OK: lowered")
    sys.exit(0)
except GuppyError as e:
    print("REJECTED:", type(e.error).__name__, getattr(e.error, "rendered_message", None) or e.error)
    sys.exit(1)
except Exception as e:  # noqa: BLE001
    print("FAILED:", type(e).__name__, str(e)[:300])
    sys.exit(1)
