"""C06 violation (completeness half): a correct core-fragment program is rejected with a spurious
"qubit leaked" error when a consumed qubit's *name* is rebound to a droppable value in a non-entry block.

Program (only assignments, an owned call, if, return):

    def f(q: qubit @owned, b: bool) -> bool:
        if b:
            q = measure(q)      # q consumed exactly once; the name now holds a bool
            return True
        return measure(q)       # other path: consumed exactly once

Every path consumes the qubit exactly once and nothing is used after consumption, so C06 requires
acceptance ("programs in the core fragment that satisfy this path condition ... are accepted").
The same statements placed in the entry block (`g` below) ARE accepted, so the rejection is not a
deliberate rule, it depends only on which basic block the statements land in.

Observed: PlaceNotUsedError ("`q` with non-droppable type `qubit` is leaked") pointing at the assignment
target `q` in `q = measure(q)`.

Responsible code: guppylang_internals/checker/linearity_checker.py, check_cfg_linearity, lines 807-817

        for place in scope.values():            # Locals.values() (core.py 494-498) chains the block-local
            for leaf in leaf_places(place):     # places AND the parent (block input) places, so for a
                x = leaf.id                     # rebound name the *old* qubit place is yielded as well
                ...
                if not leaf.ty.droppable and not scope.used(x) and not used_later:

  `scope.used(x)` (Scope.used, lines 155-160) resolves the id through the innermost scope, i.e. it looks up
  the use state of the NEW local `q` (a bool that is never used) although `leaf` is the OLD parent qubit
  whose consumption was recorded in `used_parent` / the parent's `used_local`.  The old place is hence
  reported as unused and leaked.  In the entry block there is only one Scope, the assignment replaces the
  old place, and the problem does not arise.
"""

import sys

from guppylang import guppy
from guppylang.std.builtins import owned
from guppylang.std.quantum import discard, measure, qubit


@guppy
def f(q: qubit @ owned, b: bool) -> bool:
    if b:
        q = measure(q)
        return True
    return measure(q)


@guppy
def f2(q: qubit @ owned, b: bool) -> None:
    if b:
        discard(q)
        q = 5
    else:
        discard(q)


# Control: the same statements in the entry block are accepted
@guppy
def g(q: qubit @ owned) -> bool:
    q = measure(q)
    return True


def verdict(fn) -> str:
    try:
        fn.check()
        return "accepted"
    except Exception as e:
        err = getattr(e, "error", None)
        if err is None:
            raise
        return f"rejected: {type(err).__name__} on place {getattr(err, 'place', None)}"


bad = 0
v = verdict(g)
print("control g (entry block):", v)
for fn in (f, f2):
    v = verdict(fn)
    print(f"{fn.wrapped.name if hasattr(fn, 'wrapped') else fn}: {v}")
    if v != "accepted":
        bad += 1

if bad:
    print(f"VIOLATION: {bad} linear-correct core-fragment program(s) rejected with a spurious leak error")
    sys.exit(1)
print("ok")
sys.exit(0)
