"""Triage tool (NOT a check): lower a few branching programs of a tree and validate the HUGR with the `hugr` CLI of /venv.

Preamble (tket.bool ops for the shim, hugr-py keyword drift) taken from the C01 hunting delivery.  Usage:
  PYTHONPATH=/verif/triage/shim:<tree>/guppylang/src:<tree>/guppylang-internals/src /venv/bin/python lower_validate.py
"""
import builtins
import shutil
import subprocess
import sys

# ---------------------------------------------------------------------------------------------------------------------
# Sandbox preamble (not part of the finding): the shim's stub `tket.bool` extension has no ops, so nothing with a branch
# can be lowered; and hugr-py here is newer than the worktree expects (`val.Extension` lost the `extensions` keyword).
import tket_exts
from hugr import tys as _ht
from hugr.ext import OpDef as _OpDef, OpDefSig as _OpDefSig

_orig_bool, _cache = tket_exts.bool, []


def _bool():
    if not _cache:
        e = _orig_bool()
        if not e.operations:
            b = _ht.ExtType(e.get_type("bool"))
            for name, sig in {
                "read": _ht.FunctionType([b], [_ht.Bool]),
                "make_opaque": _ht.FunctionType([_ht.Bool], [b]),
                "not": _ht.FunctionType([b], [b]),
                "eq": _ht.FunctionType([b, b], [b]),
                "and": _ht.FunctionType([b, b], [b]),
                "or": _ht.FunctionType([b, b], [b]),
                "xor": _ht.FunctionType([b, b], [b]),
            }.items():
                e.add_op_def(_OpDef(name, _OpDefSig(sig), description=name))
        _cache.append(e)
    return _cache[0]


tket_exts.bool = _bool

import inspect as _inspect
import hugr.val as _hv

if "extensions" not in _inspect.signature(_hv.Extension.__init__).parameters:
    _oi = _hv.Extension.__init__
    _hv.Extension.__init__ = lambda self, name, typ, val, extensions=None: _oi(self, name, typ, val)
# ---------------------------------------------------------------------------------------------------------------------

import hugr.build.function as hf
from hugr import ops
from hugr.package import Package

from guppylang import guppy
from guppylang_internals.compiler.core import CompilerContext
from guppylang_internals.engine import ENGINE
from guppylang_internals.error import GuppyError

print = builtins.print

def cli_validate(h):
    exe = shutil.which("hugr") or "/venv/bin/hugr"
    import guppylang_internals.std._internal.compiler.tket_exts as te
    from guppylang_internals.compiler.hugr_extension import EXTENSION as GE

    exts = {GE.name: GE}
    for n in dir(te):
        if n.endswith("_EXTENSION"):
            exts[getattr(te, n).name] = getattr(te, n)
    for n in dir(tket_exts):
        try:
            e = getattr(tket_exts, n)()
            exts.setdefault(e.name, e)
        except Exception:
            pass
    try:
        p = subprocess.run([exe, "validate", "-"], input=Package([h], list(exts.values())).to_bytes(), capture_output=True)
    except OSError as e:
        return None, f"(hugr CLI not available: {e})"
    return p.returncode, p.stderr.decode().split("Stack backtrace")[0].strip()



from guppylang.std.builtins import array, owned
from guppylang.std.quantum import qubit, measure, h, discard, cx

@guppy.struct
class P:
    a: qubit
    n: int

@guppy
def p1(q: qubit @ owned, b: bool, n: int) -> int:
    if b:
        h(q)
        m = n + 1
    else:
        m = 2
    discard(q)
    r = n > 0
    if r:
        return m
    return n

@guppy
def p2(qs: array[qubit, 2] @ owned, b: bool) -> array[qubit, 2]:
    i = 0
    while i < 2:
        if b:
            h(qs[i])
        i += 1
    return qs

@guppy
def p3(p: P @ owned, b: bool, xs: array[int, 3]) -> int:
    if b and p.n > 0:
        k = xs[0]
        h(p.a)
    else:
        k = p.n
    discard(p.a)
    return k

@guppy
def p4(q: qubit @ owned, r: qubit @ owned, c: bool) -> tuple[qubit, qubit]:
    x = 1.5
    while c:
        cx(q, r)
        if x > 1.0:
            c = False
            y = 3
        else:
            x = x + 1.0
    return q, r

def main() -> int:
    bad = 0
    for fn in (p1, p2, p3, p4):
        d = fn.wrapped if hasattr(fn, "wrapped") else fn
        ENGINE.reset() if False else None
        ENGINE.check(d.id)
        mod = hf.Module()
        CompilerContext(mod).compile(ENGINE.checked[d.id])
        rc, err = cli_validate(mod.hugr)
        print(d.name, "validate rc", rc, (err or "")[:200])
        bad += rc != 0
    return 1 if bad else 0

if __name__ == "__main__":
    sys.exit(main())
