"""C17 violation: integer literals / comptime integers in the index of a subscript
ASSIGNMENT TARGET are not desugared, so in-range values are rejected.

Expected (property C17): a negated integer literal and a comptime Python integer are
accepted at type `int` iff the value lies in [-2^63, 2^63-1].  `-9223372036854775808`
(= -2^63) is in range, and so is `comptime(1)`.  Both are accepted when they are written
as the index of a subscript that is READ (`y = xs[-9223372036854775808]`,
`y = xs[comptime(1)]`), as they are in every other expression position.

Observed on the unmodified tree: when the very same index is written in a subscript that
is ASSIGNED to,

    xs[-9223372036854775808] = 1        -> IntOverflowError "Value does not fit into a
    xs[-9223372036854775808] += 1          64-bit signed integer" (span: 9223372036854775808)
    xs[comptime(1)] = 7                 -> VarNotDefinedError: `comptime` is not defined

Cause: guppylang-internals/src/guppylang_internals/cfg/builder.py
  * `CFGBuilder._build_node_value` (lines 160-172) runs `ExprBuilder.build` only on
    `node.value` of Assign / AugAssign / AnnAssign; `node.targets` / `node.target` are never
    passed through `ExprBuilder`.
  * `ExprBuilder.visit_UnaryOp` (lines 474-481, negative literal folding) and
    `ExprBuilder.visit_Call` (line 471-472, `comptime(...)` -> `ComptimeExpr`) therefore
    never see the index expression of a target.  The checker then synthesises the bare
    `Constant(9223372036854775808)` at `int` (`_int_bounds_check`, expr_checker.py 1410-1420)
    before applying `int.__neg__`, and looks `comptime` up as an ordinary variable.

Run:
  PYTHONPATH=/tmp/shim:/tmp/wt/C17-1/guppylang/src:/tmp/wt/C17-1/guppylang-internals/src \
      /venv/bin/python bug1.py
Exits 1 when the property is violated, 0 on a correct implementation.
"""

import sys

from guppylang import guppy
from guppylang.std.builtins import array, comptime

IDX = 1


# ---- controls: the same indices where the subscript is read (accepted today) ----------
@guppy
def read_min(xs: array[int, 3]) -> int:
    return xs[-9223372036854775808]


@guppy
def read_comptime(xs: array[int, 3]) -> int:
    return xs[comptime(IDX)]


@guppy
def write_min_via_binop(xs: array[int, 3]) -> None:
    xs[-9223372036854775807 - 1] = 1


# ---- the inputs under test: the same indices in an assignment target -----------------
@guppy
def write_min(xs: array[int, 3]) -> None:
    xs[-9223372036854775808] = 1


@guppy
def augwrite_min(xs: array[int, 3]) -> None:
    xs[-9223372036854775808] += 1


@guppy
def write_comptime(xs: array[int, 3]) -> None:
    xs[comptime(IDX)] = 7


def outcome(f) -> str:
    try:
        f.check()
    except Exception as e:  # noqa: BLE001
        err = getattr(e, "error", e)
        return f"REJECTED ({type(err).__name__})"
    return "accepted"


controls = {
    "y = xs[-9223372036854775808]": read_min,
    "y = xs[comptime(1)]": read_comptime,
    "xs[-9223372036854775807 - 1] = 1": write_min_via_binop,
}
tests = {
    "xs[-9223372036854775808] = 1": write_min,
    "xs[-9223372036854775808] += 1": augwrite_min,
    "xs[comptime(1)] = 7": write_comptime,
}

bad = False
print("controls (index in a subscript that is read / spelled as a BinOp):")
for label, f in controls.items():
    r = outcome(f)
    print(f"  {label:36s} {r}")
    if r != "accepted":
        print("  !! control unexpectedly rejected - environment problem?")
        sys.exit(2)
print("under test (same in-range index in an assignment target):")
for label, f in tests.items():
    r = outcome(f)
    print(f"  {label:36s} {r}")
    bad |= r != "accepted"

if bad:
    print(
        "VIOLATION of C17: an in-range negated literal (-2^63) / comptime integer is "
        "rejected at type int when it is the index of an assignment target"
    )
    sys.exit(1)
print("ok: in-range indices are accepted in assignment targets")
sys.exit(0)
