"""Triage (NOT a registered check; runs repository code under the shim): `@guppy.comptime(dagger=True)` drops the declared flag.

C24: a function declared with unitary flags is rejected when it passes qubits to a function without them.  The comptime decorator
parses its keywords (`_flags = _parse_kwargs(kwargs)  # TODO: Pass flags to RawTracedFunctionDef`) and throws the result away.

    PYTHONPATH=/verif/triage/shim:<tree>/guppylang/src:<tree>/guppylang-internals/src /venv/bin/python c24_comptime_flags_dropped.py

Exit 0: both declarations are rejected.  Exit 1: the comptime one is accepted.
"""
import sys
from guppylang import guppy
from guppylang.std.quantum import qubit
import guppylang
guppylang.enable_experimental_features()


@guppy.declare
def plain(q: qubit) -> None: ...


@guppy(dagger=True)
def regular(q: qubit) -> None:
    plain(q)


@guppy.comptime(dagger=True)
def traced(q: qubit) -> None:
    plain(q)


def outcome(f):
    try:
        f.check()
        return "accepted"
    except BaseException as e:  # noqa: BLE001
        return f"rejected ({type(e).__name__})"


a, b = outcome(regular), outcome(traced)
print("@guppy(dagger=True) calling a flag-less function with a qubit:", a)
print("@guppy.comptime(dagger=True) doing the same:", b, "| flags on its type:", traced.wrapped if False else "")
sys.exit(0 if a.startswith("rejected") and b.startswith("rejected") else 1)
