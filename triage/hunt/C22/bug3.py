"""C22 bug 3: the reflected-operator fallback (`x + a` -> `a.__radd__(x)`) can never
succeed for a non-copyable right operand, because the failed first attempt
(`x.__add__(a)`) has already marked `a` as used.

Setting: struct `A { q: qubit }` with
    def __radd__(self: A @owned, other: int) -> int: discard(self.q); return other
and the expression `x + a` with `x: int`.

Expected (property C22): `a` is used exactly once, by `A.__radd__`; `int.__add__` does not
accept an `A`, so it never uses it.  The ordinary (non-comptime) checker accepts
`x + a` (it falls back to `__radd__`), and the comptime tracer is written to do the same
(`binary_operation`, object.py l.97-111).  The body must be accepted and `a` consumed.

Observed on the unmodified tree:
    GuppyComptimeError "Operator not defined: Binary operator `+` not defined for `int`
    and `A`"
Internally (printed below by wrapping `trace_call`): the first attempt fails with a
type mismatch, the second with "Value with non-copyable type `A` was already used ...
as an argument to `__add__`" -- a spurious linearity violation which is then swallowed
by `suppress(Exception)` and replaced by the misleading operator error.  (With a Python
literal on the left, `1 + a`, Python itself goes straight to `__radd__` and it works.)

Responsible code:
  * guppylang_internals/tracing/function.py `trace_call` l.159-160: every argument is
    marked used (`obj._use_wire(func)`, which also removes it from
    `unused_undroppable_objs`) BEFORE the call is type-checked at l.166-168; nothing
    rolls that back when `synthesize_call` raises.
  * guppylang_internals/tracing/object.py `binary_operation.wrapped` l.97-111: swallows
    the failure of the first attempt and retries with the very same, now "used",
    operand objects.
  A side effect of the same two places: after such a failed attempt the operand is no
  longer tracked as unused, so a user who catches the Python exception ends up with a
  silently leaked qubit.
"""

import sys

import hugr.build.function as hf

from guppylang import guppy, qubit
from guppylang.std.builtins import owned
from guppylang.std.quantum import discard
import guppylang_internals.tracing.function as tracing_function
from guppylang_internals.compiler.core import CompilerContext
from guppylang_internals.engine import ENGINE
from guppylang_internals.error import GuppyComptimeError, GuppyError

# Observation only: report what each traced call does (behaviour is unchanged).
_orig_trace_call = tracing_function.trace_call


def _reporting_trace_call(func, *args):
    try:
        return _orig_trace_call(func, *args)
    except Exception as e:
        first = str(e).replace("\n", " | ")[:200]
        print(f"      [trace_call {func.name}] raised {type(e).__name__}: {first}")
        raise


tracing_function.trace_call = _reporting_trace_call


def lower(f):
    try:
        ENGINE.check(f.id)
        mod = hf.Module()
        CompilerContext(mod).compile(ENGINE.checked[f.id])
        return mod, None
    except (GuppyError, GuppyComptimeError) as e:
        return None, e


def msg(e):
    e = getattr(e, "error", e)
    return str(getattr(e, "msg", e)).replace("\n", " | ")[:260]


@guppy.struct
class A:
    q: qubit

    @guppy
    def __radd__(self: "A" @ owned, other: int) -> int:
        discard(self.q)
        return other


@guppy
def reference(a: A @ owned, x: int) -> int:  # ordinary Guppy
    return x + a


@guppy.comptime
def control_literal(a: A @ owned, x: int) -> int:
    return 1 + a  # Python dispatches to A.__radd__ directly


@guppy.comptime
def reflected(a: A @ owned, x: int) -> int:
    return x + a


bad = False
for name, fn in [
    ("non-comptime  `x + a`", reference),
    ("comptime      `1 + a`", control_literal),
    ("comptime      `x + a`", reflected),
]:
    mod, e = lower(fn)
    if e is None:
        print(f"{name}: accepted")
    else:
        bad = True
        print(f"{name}: REJECTED although valid -> {type(e).__name__}: {msg(e)}")

if bad:
    print("RESULT: property C22 violated (single use reported as a second use)")
    sys.exit(1)
print("RESULT: ok")
sys.exit(0)
