"""C22 bug 2: applying an operator (or calling the dunder by name) whose implementation
only BORROWS a non-copyable struct operand makes the tracer treat the struct's fields as
consumed -- a value that has not been used at all is reported as "already used".

Setting: struct `A { q: qubit }` with
    def __add__(self: A, other: int) -> int     # `self` is borrowed (inout)
    def __neg__(self: A) -> int                 # dito
    def peek(self: A, other: int) -> int        # same signature, ordinary method name

Expected (property C22: "a non-copyable value can be used AT MOST ONCE"): in
    x = a + 1 ; discard(a.q) ; return x
the qubit `a.q` is used exactly once (by `discard`); `a + 1` merely borrows `a`.  The
body must be accepted -- and it is accepted when the method is spelled `a.peek(1)`, and
by the ordinary (non-comptime) checker when written `a + 1`.  Likewise a function that
receives `a` borrowed and returns `a + 1` / `-a` hands `a` back untouched.

Observed on the unmodified tree: `a + 1`, `a.__add__(1)` and `-a` all fail with
    "Value with non-copyable type `qubit` was already used"
(for the borrowed variants wrapped in "Argument `a` is borrowed, so it is implicitly
returned to the caller. ...").

Responsible code: guppylang_internals/tracing/object.py
  * l.93-95 (`binary_operation.wrapped`), l.66-67 (`unary_operation.wrapped`) and
    l.130-131 (`DunderMixin._get_method`) replace `self` by
    `guppy_object_from_py(self, ...)`.  For a `GuppyStructObject` this packs the fields
    into a *fresh temporary* `GuppyObject` and marks every field object as used
    (unpacking.py l.105-117).
  * `trace_call` (function.py l.177-186) then writes the borrowed value back with
    `update_packed_value(arg, ...)` -- but `arg` is that temporary, not the user's
    struct object, whose fields stay "used" for good.  (The temporary is re-registered
    in `unused_undroppable_objs`, so even without a later use the function would be
    reported as leaking a value of type `A`.)
  `GuppyStructObject.__getattr__` (l.453-462) would do the right thing (it passes the
  struct object itself), but it is never reached for dunder names because the
  `DunderMixin` class attributes shadow it -- hence `a.__add__(1)` fails too whereas
  `a.peek(1)` works.
"""

import sys

import hugr.build.function as hf

from guppylang import guppy, qubit
from guppylang.std.builtins import owned
from guppylang.std.quantum import discard
from guppylang_internals.compiler.core import CompilerContext
from guppylang_internals.engine import ENGINE
from guppylang_internals.error import GuppyComptimeError, GuppyError


def lower(f):
    try:
        ENGINE.check(f.id)
        mod = hf.Module()
        CompilerContext(mod).compile(ENGINE.checked[f.id])
        return mod, None
    except (GuppyError, GuppyComptimeError) as e:
        return None, e


def msg(e):
    e = getattr(e, "error", e)
    return str(getattr(e, "msg", e)).replace("\n", " | ")[:260]


@guppy.struct
class A:
    q: qubit

    @guppy
    def __add__(self: "A", other: int) -> int:
        return other

    @guppy
    def __neg__(self: "A") -> int:
        return 1

    @guppy
    def peek(self: "A", other: int) -> int:
        return other


@guppy
def reference(a: A @ owned) -> int:  # ordinary Guppy, same body
    x = a + 1
    discard(a.q)
    return x


@guppy.comptime
def control_named_method(a: A @ owned) -> int:
    x = a.peek(1)
    discard(a.q)
    return x


@guppy.comptime
def op_owned(a: A @ owned) -> int:
    x = a + 1
    discard(a.q)
    return x


@guppy.comptime
def dunder_by_name(a: A @ owned) -> int:
    x = a.__add__(1)
    discard(a.q)
    return x


@guppy.comptime
def op_borrowed(a: A) -> int:
    return a + 1


@guppy.comptime
def unary_borrowed(a: A) -> int:
    return -a


bad = False
for name, fn in [
    ("non-comptime  `a + 1; discard(a.q)`", reference),
    ("comptime      `a.peek(1); discard(a.q)`", control_named_method),
    ("comptime      `a + 1; discard(a.q)`", op_owned),
    ("comptime      `a.__add__(1); discard(a.q)`", dunder_by_name),
    ("comptime      `return a + 1`   (a borrowed)", op_borrowed),
    ("comptime      `return -a`      (a borrowed)", unary_borrowed),
]:
    mod, e = lower(fn)
    if e is None:
        print(f"{name}: accepted")
    else:
        bad = True
        print(f"{name}: REJECTED although valid -> {type(e).__name__}: {msg(e)}")

if bad:
    print("RESULT: property C22 violated (a merely borrowed value is counted as used)")
    sys.exit(1)
print("RESULT: ok")
sys.exit(0)
