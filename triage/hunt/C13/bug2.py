"""C13 violation: a call with a `frozenarray` @comptime argument type-checks but crashes
the compiler with `TypeError: unhashable type: 'list'` when the callee is monomorphized.

Program
-------
    @guppy
    def foo(xs: frozenarray[int, 2] @ comptime) -> int:
        return xs[0]

    @guppy
    def main() -> int:
        return foo(comptime([1, 2]))

(the same happens for the generic spellings `frozenarray[int, n]` / `frozenarray[T, n]`).

Expected (property C13): the call behaves like the textual copy

    @guppy
    def foo_copy() -> int:
        xs = comptime([1, 2])
        return xs[0]

which checks, compiles and validates fine (this script demonstrates that as well).
`frozenarray` is a copyable+droppable type, so `@comptime` accepts it
(tys/parsing.py only raises LinearComptimeError for non-copyable/droppable types),
`check_comptime_arg` accepts the `comptime([...])` value, and `python_value_to_hugr`
has a `list` case to lower it.  `.check()` succeeds.

Observed on the unmodified tree: lowering `main` raises a raw Python
`TypeError: unhashable type: 'list'` (no Guppy diagnostic, no HUGR).

Responsible code
----------------
guppylang_internals/compiler/core.py, CompilerContext.build_compiled_def (line ~210):

        if (def_id, mono_args) not in self.compiled:

`mono_args` is documented as "required to be a tuple to ensure hashability", but its
elements are `ConstArg(ConstValue(ty, value))` where `ConstValue.value: Any`
(tys/const.py) is the raw Python value -- a `list` for frozenarray comptime arguments
(checker/expr_checker.py, check_comptime_arg: `ConstValue(ty, v)` with the static value
of the ComptimeVariable).  The frozen dataclass hash of ConstValue hashes that list.
"""

import sys
import traceback

import hugr.build.function as hf

from guppylang import guppy
from guppylang.std.builtins import comptime, frozenarray
from guppylang_internals.compiler.core import CompilerContext
from guppylang_internals.engine import ENGINE


@guppy
def foo(xs: frozenarray[int, 2] @ comptime) -> int:
    return xs[0]


@guppy
def main() -> int:
    return foo(comptime([1, 2]))


@guppy
def foo_copy() -> int:
    xs = comptime([1, 2])
    return xs[0]


@guppy
def main_copy() -> int:
    return foo_copy()


def lower(defn):
    d = defn.wrapped if hasattr(defn, "wrapped") else defn
    ENGINE.check(d.id)
    mod = hf.Module()
    CompilerContext(mod).compile(ENGINE.checked[d.id])
    return mod.hugr


# The textual copy is fine
lower(main_copy)
print("textual copy (foo_copy)        : checks and lowers")

# The comptime call type-checks ...
main.check()
print("main.check() with comptime list: accepted")

# ... but cannot be lowered
try:
    lower(main)
except Exception as e:  # noqa: BLE001
    tb = traceback.extract_tb(e.__traceback__)
    where = next((f for f in reversed(tb) if "guppylang_internals" in f.filename), tb[-1])
    print(f"lowering main                  : {type(e).__name__}: {e}")
    print(f"  raised from {where.filename}:{where.lineno} in {where.name}")
    print("VIOLATION: accepted @comptime argument crashes monomorphization")
    sys.exit(1)
print("lowering main                  : ok")
sys.exit(0)
