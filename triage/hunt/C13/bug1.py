"""C13 violation: two @comptime instantiations that differ only in the sign of a float
zero share ONE monomorphization, so the second call computes with the wrong constant.

Program
-------
    @guppy
    def foo(x: float @ comptime) -> float:
        return x

    @guppy
    def main() -> float:
        return foo(comptime(0.0)) + foo(comptime(-0.0))

Expected (property C13): each call behaves like a textual copy of `foo` with the inferred
comptime argument substituted, i.e. `foo_a() = 0.0` and `foo_b() = -0.0`.  The lowered
module must therefore contain two monomorphizations of `foo` (one loading +0.0, one
loading -0.0) and the two calls in `main` must target different functions.  (+0.0 and
-0.0 are observably different at runtime: 1.0/x is +inf vs -inf, copysign, bit pattern.)

Observed on the unmodified tree: only ONE `foo` FuncDefn exists, it loads +0.0, and both
Call nodes in `main` point at it.  `foo(comptime(-0.0))` silently returns +0.0.

Responsible code
----------------
guppylang_internals/compiler/core.py, CompilerContext.build_compiled_def:

        if (def_id, mono_args) not in self.compiled:
            self.compiled[def_id, mono_args] = compile_outer()

monomorphizations are keyed by `mono_args` (a tuple of `ConstArg(ConstValue(ty, value))`),
and `ConstValue` (tys/const.py) is a frozen dataclass whose generated __eq__/__hash__
compare the raw Python `value` with `==`.  Python says `0.0 == -0.0` and
`hash(0.0) == hash(-0.0)`, so the key for the -0.0 instantiation collides with the one
for +0.0 and the already compiled copy is reused.  (The order matters: whichever zero is
seen first wins.)
"""

import math
import sys

import hugr.build.function as hf
from hugr import ops

from guppylang import guppy
from guppylang.std.builtins import comptime
from guppylang_internals.compiler.core import CompilerContext
from guppylang_internals.engine import ENGINE


@guppy
def foo(x: float @ comptime) -> float:
    return x


@guppy
def main() -> float:
    return foo(comptime(0.0)) + foo(comptime(-0.0))


def lower(defn):
    d = defn.wrapped if hasattr(defn, "wrapped") else defn
    ENGINE.check(d.id)
    mod = hf.Module()
    CompilerContext(mod).compile(ENGINE.checked[d.id])
    return mod.hugr


def ancestors(h, node):
    while node is not None:
        yield node
        node = h[node].parent


h = lower(main)

foo_defs = [
    n for n in h if isinstance(h[n].op, ops.FuncDefn) and h[n].op.f_name == "foo"
]
main_def = next(
    n for n in h if isinstance(h[n].op, ops.FuncDefn) and h[n].op.f_name == "main"
)

# Which FuncDefn does every Call inside `main` target? (static edge = last in-port)
targets = []
for n in h:
    if isinstance(h[n].op, ops.Call) and main_def in ancestors(h, n):
        port = n.inp(h.num_in_ports(n) - 1)
        targets += [p.node for p in h.linked_ports(port)]

# Which float constants are loaded inside the monomorphizations of `foo`?
consts = []
for n in h:
    if isinstance(h[n].op, ops.Const) and any(f in ancestors(h, n) for f in foo_defs):
        v = getattr(h[n].op.val, "v", None)
        if isinstance(v, float):
            consts.append(v)

signs = sorted(math.copysign(1.0, v) for v in consts)
print("monomorphizations of foo      :", len(foo_defs), "(expected 2)")
print("call targets in main          :", targets)
print("float constants loaded in foo :", consts, "signs", signs, "(expected one +0.0, one -0.0)")

ok = len(foo_defs) == 2 and len(set(targets)) == 2 and signs == [-1.0, 1.0]
if ok:
    print("OK: the two instantiations are kept apart")
    sys.exit(0)
print(
    "VIOLATION: foo(comptime(-0.0)) reuses the monomorphization for +0.0 "
    "and therefore returns +0.0"
)
sys.exit(1)
