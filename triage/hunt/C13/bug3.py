"""C13 violation: instantiating a type parameter that is the RESULT of a function-typed
argument with a tuple type (or None) produces an ill-typed HUGR.

Program
-------
    T = guppy.type_var("T", copyable=True, droppable=True)

    @guppy
    def apply(f: Callable[[], T]) -> T:
        return f()

    @guppy
    def g() -> tuple[int, int]:
        return 1, 2

    @guppy
    def main() -> tuple[int, int]:
        return apply(g)          # T := tuple[int, int]

(and the same with `gn() -> None`, T := None)

Expected (property C13): behaves like the textual copy

    @guppy
    def apply_copy(f: Callable[[], tuple[int, int]]) -> tuple[int, int]:
        return f()

for which `apply_copy(g)` lowers to a valid HUGR (shown below): both the parameter `f`
and the function `g` have the Hugr type `[] -> [int, int]`.

Observed on the unmodified tree: the program type-checks, lowering succeeds silently, but
the HUGR is invalid.  `g` is loaded with type `[] -> [int, int]` (a 2-element row) and
wired into the call of `apply`, whose instantiated signature expects
`[] -> [Tuple(int, int)]` (ONE tuple-typed output).  `hugr validate` reports
"Connected ports ... have incompatible kinds. Cannot connect [] -> [int(6), int(6)] to
[] -> [[int(6), int(6)]]".  For T := None: `[] -> []` vs `[] -> [Unit]`.

Responsible code
----------------
guppylang_internals/tys/ty.py, FunctionType.instantiate_partial:

            # Set the `preserve` flag for instantiated tuples and None
            if isinstance(arg, TypeArg):
                if isinstance(arg.ty, TupleType):
                    arg = TypeArg(TupleType(arg.ty.element_types, preserve=True))
                elif isinstance(arg.ty, NoneType):
                    arg = TypeArg(NoneType(preserve=True))

together with FunctionType._to_hugr_function_type / type_to_row: an instantiated `T` is
marked `preserve` so that it stays ONE port (this is what the generic body, compiled with
a Hugr type variable, produces).  That is right for `apply`'s own result, but the same
substitution also rewrites the *nested* function type `Callable[[], T]` into
`[] -> [Tuple(int,int)]`, while every ordinary function of Guppy type
`() -> tuple[int, int]` is lowered to `[] -> [int, int]`.  Nothing in
ExprCompiler.visit_GlobalCall / _compile_call_args (compiler/expr_compiler.py) converts
between the two representations or rejects the call (the only guard of this kind,
`instantiation_needs_unpacking`, is consulted for explicit TypeApply nodes only).
"""

import subprocess
import sys
import tempfile
from collections.abc import Callable

import hugr.build.function as hf
from hugr import ops
from hugr.package import Package

from guppylang import guppy
from guppylang_internals.compiler.core import CompilerContext
from guppylang_internals.engine import ENGINE

T = guppy.type_var("T", copyable=True, droppable=True)


@guppy
def apply(f: Callable[[], T]) -> T:
    return f()


@guppy
def g() -> tuple[int, int]:
    return 1, 2


@guppy
def gn() -> None:
    pass


@guppy
def main_tuple() -> tuple[int, int]:
    return apply(g)


@guppy
def main_none() -> None:
    return apply(gn)


@guppy
def apply_copy(f: Callable[[], tuple[int, int]]) -> tuple[int, int]:
    return f()


@guppy
def main_copy() -> tuple[int, int]:
    return apply_copy(g)


def lower(defn):
    d = defn.wrapped if hasattr(defn, "wrapped") else defn
    ENGINE.check(d.id)
    mod = hf.Module()
    CompilerContext(mod).compile(ENGINE.checked[d.id])
    return mod.hugr


def mismatches(h):
    """Function values wired into a Call whose instantiated signature expects a
    different function type at that port."""
    bad = []
    for n in h:
        op = h[n].op
        if not isinstance(op, ops.Call):
            continue
        for i, exp in enumerate(op.instantiation.input):
            for src in h.linked_ports(n.inp(i)):
                src_op = h[src.node].op
                if isinstance(src_op, ops.LoadFunc):
                    got = src_op.instantiation
                    if got != exp:
                        bad.append((str(got), str(exp)))
    return bad


def cli_validate(h):
    from guppylang_internals.std._internal.compiler.tket_exts import (
        BOOL_EXTENSION,
        GUPPY_EXTENSION,
    )

    try:
        data = Package([h], extensions=[BOOL_EXTENSION, GUPPY_EXTENSION]).to_bytes()
        with tempfile.NamedTemporaryFile(suffix=".hugr", delete=False) as f:
            f.write(data)
        r = subprocess.run(
            ["/venv/bin/hugr", "validate", f.name], capture_output=True, text=True
        )
    except Exception as e:  # noqa: BLE001
        return f"(hugr CLI not usable: {e})"
    msg = (r.stderr or r.stdout).split("Stack backtrace")[0].strip().splitlines()
    return f"exit {r.returncode}: " + " | ".join(line.strip() for line in msg[-2:])


violated = False
for name, fn in [
    ("textual copy  apply_copy(g)", main_copy),
    ("generic call  apply(g)   [T := tuple[int, int]]", main_tuple),
    ("generic call  apply(gn)  [T := None]", main_none),
]:
    fn.check()
    h = lower(fn)
    bad = mismatches(h)
    print(name)
    print("   type check          : accepted")
    print("   mis-typed wires     :", bad or "none")
    print("   hugr validate       :", cli_validate(h))
    if bad:
        violated = True

if violated:
    print("VIOLATION: the generic call lowers to an ill-typed HUGR, the textual copy does not")
    sys.exit(1)
print("OK")
sys.exit(0)
