"""C30 (borderline): the intersection of two ADJACENT, non-overlapping spans is not None.

`Span.end` is documented as exclusive (span.py line 47: "Ending location of the span
(exclusive)"), and `Span.__len__` (line 81: end.column - start.column) agrees.  So
    a = a.py 1:0 .. 1:3   covers columns 0,1,2
    b = a.py 1:3 .. 1:6   covers columns 3,4,5
share no source position: they are disjoint.  The property says the intersection of two
spans is "the overlapping interval, or none if they are disjoint", and `Span.__and__`'s own
docstring promises "`None` if they don't intersect".

Expected: a & b is None  (and likewise for a multi-line pair that merely touch).
Observed: a & b == Span(1:3, 1:3), a zero-length span, so the documented test
          `(a & b) is not None` reports adjacent spans as intersecting.  It is also inconsistent with properly separated spans, which do
          give None.

Responsible: guppylang-internals/src/guppylang_internals/span.py line 70
    if self.start > other.end or other.start > self.end:
uses strict `>`; for half-open [start, end) intervals disjointness is
    self.start >= other.end or other.start >= self.end
(modulo a decision for zero-length spans).

Borderline note: the code is self-consistent if one reads spans as CLOSED intervals
(`Loc in Span` at line 63 also includes the end location), but that contradicts the
documented exclusive end and `__len__`.
"""
import sys

from guppylang_internals.span import Loc, Span

F = "a.py"
cases = [
    ("same line", Span(Loc(F, 1, 0), Loc(F, 1, 3)), Span(Loc(F, 1, 3), Loc(F, 1, 6))),
    ("multi line", Span(Loc(F, 1, 4), Loc(F, 2, 2)), Span(Loc(F, 2, 2), Loc(F, 3, 0))),
]
bad = 0
for name, a, b in cases:
    for x, y in ((a, b), (b, a)):
        r = x & y
        print(f"{name}: [{x.start} .. {x.end}) & [{y.start} .. {y.end}) -> {r}")
        if r is not None:
            bad += 1
# control: a genuinely separated pair gives None
sep = Span(Loc(F, 1, 0), Loc(F, 1, 2)) & Span(Loc(F, 1, 3), Loc(F, 1, 6))
print("control separated pair ->", sep)
assert sep is None
if bad:
    print(f"VIOLATION: {bad} intersections of disjoint (adjacent) spans are not None")
    sys.exit(1)
print("ok")
