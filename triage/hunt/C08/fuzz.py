import random, sys, importlib.util, os, ast, traceback
from harness import run

VARS = ["x", "y", "z"]
TYPES = {"1": "int", "2.5": "float"}
UNDEF = "UNDEF"

class Gen:
    def __init__(self, rnd, allow_dead=False):
        self.r = rnd
        self.allow_dead = allow_dead
    def atom_cond(self):
        k = self.r.random()
        if k < 0.4: return "b"
        if k < 0.5: return "c"
        v = self.r.choice(VARS)
        if k < 0.8: return f"{v} == {v}"
        c = self.r.choice(list(TYPES))
        return f"({v} := {c}) == {c}"
    def cond(self, d=0):
        k = self.r.random()
        if d > 2 or k < 0.55: return self.atom_cond()
        if k < 0.7: return f"({self.cond(d+1)} and {self.cond(d+1)})"
        if k < 0.85: return f"({self.cond(d+1)} or {self.cond(d+1)})"
        if k < 0.93: return f"(not {self.cond(d+1)})"
        return f"({self.cond(d+1)} if {self.cond(d+1)} else {self.cond(d+1)})"
    def expr(self):
        k = self.r.random()
        if k < 0.5: return self.r.choice(list(TYPES))
        if k < 0.8: return self.r.choice(VARS)
        a = self.r.choice(list(TYPES) + VARS); b = self.r.choice(list(TYPES) + VARS)
        return f"({a} if {self.cond(2)} else {b})"
    def block(self, depth, in_loop, ind):
        n = self.r.randint(1, 4)
        out = []
        for i in range(n):
            s, jumped = self.stmt(depth, in_loop, ind)
            out += s
            if jumped and not self.allow_dead: break
        return out
    def stmt(self, depth, in_loop, ind):
        p = "    " * ind
        k = self.r.random()
        if depth >= 3: k = k * 0.55
        if k < 0.25:
            return [f"{p}{self.r.choice(VARS)} = {self.expr()}"], False
        if k < 0.40:
            return [f"{p}-{self.r.choice(VARS)}"], False
        if k < 0.45:
            if in_loop:
                return [p + self.r.choice(["break", "continue"])], True
            return [f"{p}return 0"], True
        if k < 0.50:
            return [f"{p}return 0"], True
        if k < 0.55:
            return [f"{p}pass"], False
        if k < 0.75:
            s = [f"{p}if {self.cond()}:"] + self.block(depth+1, in_loop, ind+1)
            if self.r.random() < 0.6:
                s += [f"{p}else:"] + self.block(depth+1, in_loop, ind+1)
            return s, False
        if k < 0.9:
            return [f"{p}while {self.cond()}:"] + self.block(depth+1, True, ind+1), False
        v = self.r.choice(VARS)
        return [f"{p}for {v} in range(3):"] + self.block(depth+1, True, ind+1), False

# ---------- reference -----------
class Reject(Exception): pass

def join(*states):
    states = [s for s in states if s is not None]
    if not states: return None
    keys = set().union(*states)
    return {k: frozenset().union(*[s.get(k, frozenset([UNDEF])) for s in states]) for k in keys}

class Ref:
    def __init__(self): self.record = True; self.errors = []
    def use(self, v, st):
        t = st.get(v, frozenset([UNDEF]))
        if self.record:
            if UNDEF in t: self.errors.append(("undef", v))
            elif len(t) > 1: self.errors.append(("type", v))
        # continue with some type
        ts = [x for x in t if x != UNDEF]
        return ts[0] if len(ts) >= 1 else "int"
    def ev(self, e, st):
        """returns (type, state)"""
        if isinstance(e, ast.Constant):
            return ("bool" if isinstance(e.value, bool) else type(e.value).__name__), st
        if isinstance(e, ast.Name):
            return self.use(e.id, st), st
        if isinstance(e, ast.UnaryOp) and isinstance(e.op, ast.USub):
            return self.ev(e.operand, st)
        if isinstance(e, ast.NamedExpr):
            t, st = self.ev(e.value, st)
            st = dict(st); st[e.target.id] = frozenset([t])
            return t, st
        if isinstance(e, ast.IfExp):
            ts, fs = self.cond(e.test, st)
            t1, s1 = self.ev(e.body, ts)
            t2, s2 = self.ev(e.orelse, fs)
            if t1 != t2 and self.record: self.errors.append(("type", "%ifexp"))
            return t1, join(s1, s2)
        if isinstance(e, (ast.Compare, ast.BoolOp)) or (isinstance(e, ast.UnaryOp)):
            ts, fs = self.cond(e, st)
            return "bool", join(ts, fs)
        raise NotImplementedError(ast.dump(e))
    def cond(self, e, st):
        if isinstance(e, ast.BoolOp):
            vals = e.values
            if isinstance(e.op, ast.And):
                falses = []
                cur = st
                for v in vals:
                    t, f = self.cond(v, cur); falses.append(f); cur = t
                return cur, join(*falses)
            else:
                trues = []
                cur = st
                for v in vals:
                    t, f = self.cond(v, cur); trues.append(t); cur = f
                return join(*trues), cur
        if isinstance(e, ast.UnaryOp) and isinstance(e.op, ast.Not):
            t, f = self.cond(e.operand, st); return f, t
        if isinstance(e, ast.IfExp):
            t, f = self.cond(e.test, st)
            t1, f1 = self.cond(e.body, t); t2, f2 = self.cond(e.orelse, f)
            return join(t1, t2), join(f1, f2)
        if isinstance(e, ast.Compare):
            assert len(e.ops) == 1
            _, st = self.ev(e.left, st)
            _, st = self.ev(e.comparators[0], st)
            return st, st
        _, st = self.ev(e, st)
        return st, st
    def block(self, stmts, st, brk, cont):
        for s in stmts:
            if st is None: return None   # dead code ignored
            st = self.stmt(s, st, brk, cont)
        return st
    def stmt(self, s, st, brk, cont):
        if isinstance(s, ast.Assign):
            t, st = self.ev(s.value, st)
            st = dict(st); st[s.targets[0].id] = frozenset([t]); return st
        if isinstance(s, ast.Expr):
            _, st = self.ev(s.value, st); return st
        if isinstance(s, ast.Pass): return st
        if isinstance(s, ast.Return): return None
        if isinstance(s, ast.Break): brk.append(st); return None
        if isinstance(s, ast.Continue): cont.append(st); return None
        if isinstance(s, ast.If):
            t, f = self.cond(s.test, st)
            return join(self.block(s.body, t, brk, cont), self.block(s.orelse, f, brk, cont))
        if isinstance(s, (ast.While, ast.For)):
            rec = self.record; self.record = False
            head = st
            while True:
                b2, c2, body_in, exit_st = self.loop_once(s, head)
                new = join(st, *c2, body_in)
                if new == head: break
                head = new
            self.record = rec
            b2, c2, body_out, exit_st = self.loop_once(s, head)
            return join(exit_st, *b2)
        raise NotImplementedError(ast.dump(s))
    def loop_once(self, s, head):
        b2, c2 = [], []
        if isinstance(s, ast.While):
            t, f = self.cond(s.test, head)
        else:
            t = dict(head); t[s.target.id] = frozenset(["int"]); f = head
        out = self.block(s.body, t, b2, c2)
        return b2, c2, out, f

def reference(src):
    fn = ast.parse(src).body[0]
    r = Ref()
    st = {"b": frozenset(["bool"]), "c": frozenset(["bool"])}
    r.block(fn.body, st, [], [])
    return r.errors

def main(seed, n, allow_dead=False):
    rnd = random.Random(seed)
    g = Gen(rnd, allow_dead)
    progs = []
    for i in range(n):
        body = g.block(0, False, 1)
        src = f"def f{i}(b: bool, c: bool) -> int:\n" + "\n".join(body) + "\n    return 0\n"
        progs.append(src)
    path = f"/tmp/hunt/C08/1/gen_{seed}.py"
    with open(path, "w") as fh:
        fh.write("from guppylang import guppy\n\n")
        for src in progs:
            fh.write("@guppy\n" + src + "\n")
    spec = importlib.util.spec_from_file_location(f"gen_{seed}", path)
    mod = importlib.util.module_from_spec(spec); sys.modules[spec.name] = mod
    spec.loader.exec_module(mod)
    bad = 0
    stats = {"ACCEPT":0, "REJECT":0, "CRASH":0}
    for i, src in enumerate(progs):
        res, msg = run(getattr(mod, f"f{i}"))
        stats[res] += 1
        errs = reference(src)
        exp = "REJECT" if errs else "ACCEPT"
        ok = res == exp
        if res == "REJECT" and not any(k in msg for k in ("VarNotDefined", "VarMaybeNotDefined", "BranchTypeError")):
            ok = False
        if not ok:
            bad += 1
            print("=" * 60); print(src); print("guppy:", res, msg); print("ref:", errs)
    print("seed", seed, stats, "mismatches", bad)
    os.remove(path)

if __name__ == "__main__":
    main(int(sys.argv[1]), int(sys.argv[2]), len(sys.argv) > 3)
