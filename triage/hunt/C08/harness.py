import sys, traceback
from guppylang import guppy
from guppylang.std.builtins import array, owned, comptime, nat, result, panic
import builtins as _b
from guppylang_internals.error import GuppyError

def run(f):
    try:
        f.check()
        return "ACCEPT", None
    except GuppyError as e:
        err = e.error
        return "REJECT", f"{type(err).__name__}: {getattr(err,'rendered_title',None) or err.title} / {getattr(err,'rendered_span_label', '')}"
    except Exception as e:
        return "CRASH", "".join(traceback.format_exception_only(type(e), e)).strip()

def run_all(g):
    for n, f in list(g.items()):
        if hasattr(f, "check") and n not in ("guppy",):
            print(n, *run(f))
