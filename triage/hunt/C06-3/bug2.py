"""C06 violation: inside a comprehension an outer qubit may be borrowed and THEN consumed, in every
iteration, and is still handed back to the enclosing scope afterwards (use after consumption /
duplication).

Program (accepted by `check()` on the unmodified tree):

    @guppy.declare
    def peek(q: qubit) -> bool: ...              # borrows
    @guppy.declare
    def eat(q: qubit @ owned) -> bool: ...       # consumes

    @guppy
    def dup(q: qubit @ owned) -> tuple[array[tuple[bool, bool], 3], qubit]:
        xs = array((peek(q), eat(q)) for _ in range(3))   # q consumed 3 times ...
        return xs, q                                      # ... and returned once more

Expected (C06: a qubit is "never used after consumption, duplicated"):
    rejected, like `array(eat(q) for _ in range(3))` (ComprAlreadyUsedError) or like the
    straight-line `peek(q); eat(q); return q` (AlreadyUsedError) - see the control cases.

Observed:
    `dup.check()` succeeds.  In the lowered Hugr the loop body feeds the *same* Qubit wire (the
    second result of the `peek` call, i.e. the qubit that was handed back) into two consumers:
    the call of `eat` and the loop-carried output that becomes `q` after the comprehension.
    The same happens for struct leaves (`array((peek_s(s), eat(s.a)) for ...)`; `return s`).

Responsible code:
    guppylang-internals/src/guppylang_internals/checker/linearity_checker.py,
    `BBLinearityChecker._check_comprehension`, lines 585-598 and 615-620:

        for x, use in inner_scope.used_parent.items():
            ...
            if use.kind == UseKind.BORROW:
                # Since `x` was borrowed, we know that is now also assigned in the inner scope ...
                # Also mark this place as implicitly used so we don't complain about it later.
                for leaf in leaf_places(place):
                    inner_scope.use(leaf.id, InoutReturnSentinel(leaf), UseKind.RETURN)
        ...
        for x, use in inner_scope.used_parent.items():
            if use.kind == UseKind.BORROW:
                self._reassign_single_inout_arg(place, use.node)      # q is alive again outside

    After the borrow `peek(q)` the place `q` is re-assigned *in the inner scope*; the following
    `eat(q)` is therefore recorded in `inner_scope.used_local` only, while
    `inner_scope.used_parent[q]` still says BORROW.  The "implicit return" above then calls
    `Scope.use` - which never looks at a previous use - on a place that is already consumed,
    and the outer `q` is revived after the comprehension.  A check
    `if inner_scope.used(leaf.id): raise AlreadyUsed/ComprAlreadyUsedError` is missing.

Note: comprehensions are not part of the "core fragment" for which C06 promises acceptance, but
the first half of C06 ("a program is accepted ONLY IF ... never used after consumption,
duplicated") holds for every accepted program; this finding is an acceptance of a program that
must be rejected.

Run:
    PYTHONPATH=/tmp/shim:/repo/guppylang/src:/repo/guppylang-internals/src \
        /venv/bin/python bug2.py
Exit status 1 = property violated (unmodified tree), 0 = the duplicating programs are rejected.
"""

import sys
import traceback


def _extend_sandbox_bool_extension() -> None:
    """Only needed to *lower* code with loops in this sandbox (the stub `tket.bool` extension of
    /tmp/shim has no ops).  Has no influence on the checker verdicts."""
    try:
        import semver
        import tket_exts
        from hugr import tys
        from hugr.ext import ExplicitBound, Extension, OpDef, OpDefSig, TypeDef

        try:
            tket_exts.bool().get_op("read")
        except Exception:
            e = Extension("tket.bool", semver.Version(0, 1, 0))
            td = e.add_type_def(
                TypeDef(
                    "bool",
                    description="",
                    params=[],
                    bound=ExplicitBound(tys.TypeBound.Copyable),
                )
            )
            ob = tys.ExtType(td)

            def op(name, ins, outs):
                e.add_op_def(
                    OpDef(name, description="", signature=OpDefSig(tys.FunctionType(ins, outs)))
                )

            op("read", [ob], [tys.Bool])
            op("make_opaque", [tys.Bool], [ob])
            op("not", [ob], [ob])
            for n in ("and", "or", "xor", "eq"):
                op(n, [ob, ob], [ob])
            tket_exts.bool = lambda: e
    except Exception:
        pass


_extend_sandbox_bool_extension()

from guppylang import guppy  # noqa: E402
from guppylang.std.builtins import array, owned  # noqa: E402
from guppylang.std.quantum import qubit  # noqa: E402
from guppylang_internals.error import GuppyError  # noqa: E402


@guppy.struct
class S:
    a: qubit
    b: qubit


@guppy.declare
def peek(q: qubit) -> bool: ...


@guppy.declare
def eat(q: qubit @ owned) -> bool: ...


@guppy.declare
def peek_s(s: S) -> bool: ...


# ---------------------------------------------------------------- control cases (rejected today)
@guppy
def ctrl_straight(q: qubit @ owned) -> tuple[bool, bool, qubit]:
    a = peek(q)
    b = eat(q)
    return a, b, q


@guppy
def ctrl_consume_only(q: qubit @ owned) -> tuple[array[bool, 3], qubit]:
    xs = array(eat(q) for _ in range(3))
    return xs, q


# ---------------------------------------------------------------- duplicating programs
@guppy
def dup(q: qubit @ owned) -> tuple[array[tuple[bool, bool], 3], qubit]:
    xs = array((peek(q), eat(q)) for _ in range(3))
    return xs, q


@guppy
def dup_leaf(s: S @ owned) -> tuple[array[tuple[bool, bool], 3], S]:
    xs = array((peek_s(s), eat(s.a)) for _ in range(3))
    return xs, s


@guppy
def dup_then_eat(q: qubit @ owned) -> array[tuple[bool, bool], 2]:
    # the revived `q` can of course also be consumed (a third time) instead of returned
    xs = array((peek(q), eat(q)) for i in range(2))
    eat(q)
    return xs


def verdict(f):
    try:
        f.check()
        return "ACCEPTED", ""
    except GuppyError as e:
        return "rejected", type(e.error).__name__
    except Exception as e:  # internal error
        return "CRASH", "".join(traceback.format_exception_only(type(e), e)).strip()


def multiply_used_qubit_ports(f):
    """Compiles `f` to Hugr and returns the Qubit out-ports with != 1 consumers."""
    import hugr.build.function as hf
    from hugr.hugr.node_port import OutPort

    from guppylang_internals.compiler.core import CompilerContext
    from guppylang_internals.engine import ENGINE

    defn = f.wrapped
    ENGINE.check(defn.id)
    mod = hf.Module()
    CompilerContext(mod).compile(ENGINE.checked[defn.id])
    h = mod.hugr
    res = []
    for n in h:
        try:
            n_out = h.num_out_ports(n)
        except Exception:
            continue
        for i in range(n_out):
            p = OutPort(n, i)
            try:
                ty = h.port_type(p)
            except Exception:
                ty = None
            if ty is None or "Qubit" not in str(ty):
                continue
            k = len(list(h.linked_ports(p)))
            if k != 1:
                res.append(f"{type(h[n].op).__name__}@{n} out-port {i}: {ty} has {k} consumers")
    return res


def main() -> int:
    print("control cases (must be, and are, rejected):")
    for f in (ctrl_straight, ctrl_consume_only):
        v, msg = verdict(f)
        print(f"  {f.wrapped.name:20s} -> {v} {msg}")

    print("borrow-then-consume of an outer qubit inside a comprehension (must be rejected):")
    violated = False
    for f in (dup, dup_leaf, dup_then_eat):
        v, msg = verdict(f)
        print(f"  {f.wrapped.name:20s} -> {v} {msg}")
        if v != "rejected":
            violated = True
        if v == "ACCEPTED":
            try:
                ports = multiply_used_qubit_ports(f)
                print(f"      compiled Hugr: qubit ports with != 1 consumers = {ports}")
            except Exception as e:
                print(
                    "      (could not lower in this sandbox: "
                    + "".join(traceback.format_exception_only(type(e), e)).strip()[:200]
                    + ")"
                )

    if violated:
        print("VIOLATION of C06: a qubit is consumed inside the comprehension and still alive after it.")
        return 1
    print("ok: all duplicating programs are rejected")
    return 0


sys.exit(main())
