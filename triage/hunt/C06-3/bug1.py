"""C06 violation: assigning a qubit field THROUGH an array subscript silently discards the old qubit.

Program (all of it is accepted by `check()` on the unmodified tree):

    @guppy.struct
    class S:
        a: qubit
        b: qubit

    @guppy
    def leak(arr: array[S, 2] @ owned) -> array[S, 2]:
        arr[0].a = qubit()      # old `arr[0].a` is never consumed -> it is dropped
        return arr

Expected (property C06: a non-droppable value is "never ... silently discarded"):
    the program is rejected.  The very same statement on a plain struct variable (`s.a = qubit()`)
    or on a tuple element (`t[0].a = qubit()`) IS rejected with PlaceNotUsedError ("Field `s.a` ...
    not consumed"), see the control cases below.  Through a subscript there is not even a way to
    write a correct version, because consuming `arr[0].a` first is rejected with
    MoveOutOfSubscriptError - so every accepted `xs[i].f = v` with a qubit field `f` is a leak.

Observed:
    `leak.check()` succeeds.  The compiler then lowers the statement as
        tmp = arr.__getitem__(0); tmp.a = <new>; arr.__setitem__(0, tmp)
    (compiler/stmt_compiler.py, `_assign_place`, "xs[i].y = ..." branch), i.e. it unpacks the
    struct taken out of the array and simply forgets the wire of the old field: the generated Hugr
    contains an `UnpackTuple` node whose `Qubit` output port has NO consumer (ill-formed Hugr, a
    linear value is dropped).  This is also true for borrowed arrays, nested fields
    (`arr[0].s.a = ...`), whole struct-valued fields (`arr[0].s = mk()`, drops two qubits) and
    arrays that sit inside tuples/structs (`t[0][1].b = ...`).

Responsible code:
    guppylang-internals/src/guppylang_internals/checker/linearity_checker.py,
    `BBLinearityChecker._check_assign_targets`, lines 506-512:

            if subscript := contains_subscript(tgt.place):
                ...
                self.scope.assign(subscript.setitem_call.value_var)
                self.visit(subscript.setitem_call.call)

    For a target place that merely *contains* a subscript (`arr[0].a`, i.e. `subscript != tgt.place`)
    only the `__setitem__` call is checked; the "not allowed to override an unused linear place"
    check of the `else` branch (lines 514-523) is skipped, and nothing accounts for the leaves of
    `arr[0]` that are replaced by the assignment.  (`visit_PlaceNode` documents the same shortcut:
    "we ignore everything after the subscript for the purposes of linearity checking".)

Run:
    PYTHONPATH=/tmp/shim:/repo/guppylang/src:/repo/guppylang-internals/src \
        /venv/bin/python bug1.py
Exit status 1 = property violated (unmodified tree), 0 = all leaking programs are rejected.
"""

import sys
import traceback

from guppylang import guppy
from guppylang.std.builtins import array, owned
from guppylang.std.quantum import qubit
from guppylang_internals.error import GuppyError


@guppy.struct
class S:
    a: qubit
    b: qubit


@guppy.struct
class N:
    s: S
    c: qubit


@guppy.declare
def mk() -> S: ...


# ---------------------------------------------------------------- control cases (rejected today)
@guppy
def ctrl_struct(s: S @ owned) -> S:
    s.a = qubit()
    return s


@guppy
def ctrl_tuple(t: tuple[S, qubit] @ owned) -> tuple[S, qubit]:
    t[0].a = qubit()
    return t


@guppy.declare
def use(q: qubit @ owned) -> None: ...


@guppy
def ctrl_move_out(arr: array[S, 2] @ owned) -> array[S, 2]:
    # the only conceivable "correct" version: consume the old field first
    use(arr[0].a)
    arr[0].a = qubit()
    return arr


# ---------------------------------------------------------------- leaking programs
@guppy
def leak_owned(arr: array[S, 2] @ owned) -> array[S, 2]:
    arr[0].a = qubit()
    return arr


@guppy
def leak_borrowed(arr: array[S, 2]) -> None:
    arr[1].b = qubit()


@guppy
def leak_nested(arr: array[N, 2] @ owned) -> array[N, 2]:
    arr[0].s.a = qubit()
    return arr


@guppy
def leak_two(arr: array[N, 2] @ owned) -> array[N, 2]:
    arr[0].s = mk()
    return arr


@guppy
def leak_in_tuple(t: tuple[array[S, 2], int] @ owned) -> tuple[array[S, 2], int]:
    t[0][1].b = qubit()
    return t


def verdict(f):
    try:
        f.check()
        return "ACCEPTED", ""
    except GuppyError as e:
        return "rejected", type(e.error).__name__
    except Exception as e:  # internal error
        return "CRASH", "".join(traceback.format_exception_only(type(e), e)).strip()


def dangling_qubit_ports(f):
    """Compiles `f` to Hugr and returns the Qubit out-ports that have no consumer."""
    import hugr.build.function as hf
    from hugr.hugr.node_port import OutPort

    from guppylang_internals.compiler.core import CompilerContext
    from guppylang_internals.engine import ENGINE

    defn = f.wrapped
    ENGINE.check(defn.id)
    mod = hf.Module()
    CompilerContext(mod).compile(ENGINE.checked[defn.id])
    h = mod.hugr
    res = []
    for n in h:
        try:
            n_out = h.num_out_ports(n)
        except Exception:
            continue
        for i in range(n_out):
            p = OutPort(n, i)
            try:
                ty = h.port_type(p)
            except Exception:
                ty = None
            if ty is not None and "Qubit" in str(ty) and not list(h.linked_ports(p)):
                res.append(f"{type(h[n].op).__name__}@{n} out-port {i}: {ty}")
    return res


def main() -> int:
    print("control cases (must be, and are, rejected):")
    for f in (ctrl_struct, ctrl_tuple, ctrl_move_out):
        v, msg = verdict(f)
        print(f"  {f.wrapped.name:15s} -> {v} {msg}")

    print("programs that overwrite a live qubit field through a subscript (must be rejected):")
    violated = False
    for f in (leak_owned, leak_borrowed, leak_nested, leak_two, leak_in_tuple):
        v, msg = verdict(f)
        print(f"  {f.wrapped.name:15s} -> {v} {msg}")
        if v != "rejected":
            violated = True
        if v == "ACCEPTED":
            try:
                ports = dangling_qubit_ports(f)
                print(f"      compiled Hugr: qubit ports without consumer = {ports}")
            except Exception as e:
                print(
                    "      (could not lower in this sandbox: "
                    + "".join(traceback.format_exception_only(type(e), e)).strip()[:200]
                    + ")"
                )

    if violated:
        print("VIOLATION of C06: the old qubit of `arr[i].field` is silently discarded.")
        return 1
    print("ok: all leaking programs are rejected")
    return 0


sys.exit(main())
