"""C09 finding 1: `CFG.analyze` reports borrowed (inout) variables as live in blocks
from which NO path reads them before they are reassigned.

Expected (property C09): the variables live on entry to a block are exactly those read
on some path from that block before being reassigned.  Borrowed variables are modelled
as read in the exit block, so a borrowed `x` is live at B iff some path from B reaches a
read of `x` (or the exit) without passing an assignment of `x`.

Observed: `CFG.analyze` (cfg/cfg.py lines 121-124) passes `initial=inout_live` to
`LivenessAnalysis`, and `BackwardAnalysis.run` (cfg/analysis.py line 91, together with
`LivenessAnalysis.initial`, lines 141-142) uses that value as the start value of EVERY
block.  For the borrowed variables the iteration therefore starts at top and converges
to the GREATEST fixpoint instead of the least one: `x` stays live around every cycle that
does not assign `x`, even if every way out of the cycle reassigns `x` first.  The recorded
"evidence" block (the exit) is then not reachable without a reassignment either.

CFG used below (the exit IS reachable from every block, so this is not the
"non-terminating function" case the code comment talks about):

    entry -> head ; head -> body | tail ; body -> head ; tail: `x = z` ; tail -> exit

Path based: `x` is live only at the exit.  Observed: live at entry, head and body too.

Source level consequence (second half of the script): the spurious liveness makes the
type checker compare the types of `x` at a merge point where `x` is dead, and the bogus
evidence (the `InoutReturnSentinel` of the exit block, which has no source location)
makes the resulting diagnostic crash with an internal AssertionError.  The same program
with `if` instead of `while` gets the ordinary BorrowShadowedError.  (Both programs are
rejected in the end, because a borrowed variable may never be reassigned; that is why
the wrong set never changes an accept/reject verdict.  The violation of the statement is
the live set itself.)
"""

import ast
import sys

from guppylang_internals.cfg.cfg import CFG


def stmt(src: str) -> ast.stmt:
    return ast.parse(src).body[0]


def expr(src: str) -> ast.expr:
    return ast.parse(src, mode="eval").body


def path_based_liveness(cfg, stats):
    """x is live at B iff there is a path B = b0, ..., bk (real or dummy edges) such that
    x is read in bk (before being assigned there) and not assigned in b0 .. b(k-1)."""
    all_vars = set()
    for s in stats.values():
        all_vars |= set(s.used) | set(s.assigned)
    res = {}
    for bb in cfg.bbs:
        live = set()
        for x in all_vars:
            seen, todo = set(), [bb]
            while todo:
                b = todo.pop()
                if b in seen:
                    continue
                seen.add(b)
                if x in stats[b].used:
                    live.add(x)
                    break
                if x in stats[b].assigned:
                    continue
                todo += b.successors + b.dummy_successors
        res[bb] = live
    return res


def hand_made() -> bool:
    cfg = CFG()
    entry, exit_ = cfg.entry_bb, cfg.exit_bb
    head = cfg.new_bb(entry)
    head.branch_pred = expr("c")
    body = cfg.new_bb(head, statements=[stmt("i = i")])
    cfg.link(body, head)
    tail = cfg.new_bb(head, statements=[stmt("x = z")])
    cfg.link(tail, exit_)
    cfg.update_reachable()
    names = {entry: "entry", exit_: "exit", head: "head", body: "body", tail: "tail"}

    before = {"x", "c", "i", "z"}
    stats = cfg.analyze(set(before), set(before), ["x"])
    expected = path_based_liveness(cfg, stats)

    bad = False
    for bb in cfg.bbs:
        got = set(cfg.live_before[bb].keys())
        exp = expected[bb]
        flag = "" if got == exp else "   <-- MISMATCH"
        print(f"  {names[bb]:5s} reachable={bb.reachable}  analysis={sorted(got)}  "
              f"path-based={sorted(exp)}{flag}")
        if got != exp:
            bad = True
            for x in got - exp:
                print(f"        `{x}` evidence block: {names[cfg.live_before[bb][x]]}")
    return bad


def source_level() -> None:
    from guppylang import guppy
    from guppylang.std.builtins import array

    @guppy
    def with_if(x: array[int, 1], c: bool) -> None:
        if c:
            x = array(1, 2)
        i = 0
        if i < 3:
            i += 1
        x = array(5)

    @guppy
    def with_while(x: array[int, 1], c: bool) -> None:
        if c:
            x = array(1, 2)
        i = 0
        while i < 3:
            i += 1
        x = array(5)

    for fn in (with_if, with_while):
        try:
            fn.check()
            print(f"  {fn.wrapped.name}: accepted")
        except BaseException as e:  # noqa: BLE001
            err = getattr(e, "error", None)
            what = type(err).__name__ if err is not None else repr(e)
            print(f"  {fn.wrapped.name}: {type(e).__name__}: {what}")


if __name__ == "__main__":
    print("hand-made CFG, borrowed variable x, `x = z` in the only block before the exit:")
    bad = hand_made()
    print("source level (x is dead at the merge point after `if c:` in both programs):")
    source_level()
    if bad:
        print("VIOLATION: live sets of CFG.analyze differ from the path-based solution")
        sys.exit(1)
    print("ok")
    sys.exit(0)
