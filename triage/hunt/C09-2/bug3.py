"""C09 finding 3 (BORDERLINE: only reachable through direct calls on hand-made CFGs, the
CFGBuilder never produces these shapes and production always passes
include_unreachable=True).

(a) Entry block with a predecessor (loop back to the entry):

        entry -> b ; b: `y = z` ; b -> entry ; entry -> exit

    Path based: the empty path reaches the entry with `y` unassigned, so `y` is not
    definitely assigned at the entry (nor at the exit, reached by entry -> exit).
    Observed: `AssignmentAnalysis.join` (cfg/analysis.py lines 214-222) only falls back to
    `ass_before_entry` when a block has NO predecessors; for an entry with a back edge
    the value flowing in from outside the function is dropped from the intersection, and
    since the iteration starts from `all_vars` (line 209) the greatest fixpoint makes
    `y` "definitely assigned" at the entry and at the exit.
    (`check_bb` asserts that the entry has no predecessors, `visit_While` always puts a
    fresh head block after the current one, so this is not reachable from source.)

(b) `ForwardAnalysis.run` with `include_unreachable() == False` (cfg/analysis.py lines
    54-57 and 64-69) drops the unreachable blocks from `vals_after` but still looks up
    every entry of `bb.predecessors`; a reachable block with an unreachable predecessor
    (exactly what the builder produces for code after a `return` before it prunes these
    edges) raises KeyError instead of producing the sets.

The script exits 0 iff both sub-cases behave (correct sets / no exception).
"""

import ast
import sys

from guppylang_internals.cfg.analysis import AssignmentAnalysis
from guppylang_internals.cfg.cfg import CFG


def stmt(src: str) -> ast.stmt:
    return ast.parse(src).body[0]


def case_a() -> bool:
    cfg = CFG()
    entry, exit_ = cfg.entry_bb, cfg.exit_bb
    entry.branch_pred = ast.parse("c", mode="eval").body
    b = cfg.new_bb(entry, statements=[stmt("y = z")])
    cfg.link(b, entry)
    cfg.link(entry, exit_)
    cfg.update_reachable()
    cfg.analyze({"c", "z"}, {"c", "z"}, [])
    print(f"  (a) definitely assigned at entry: {sorted(cfg.ass_before[entry])}, "
          f"at exit: {sorted(cfg.ass_before[exit_])}   (path based: ['c', 'z'] for both)")
    return "y" in cfg.ass_before[entry] or "y" in cfg.ass_before[exit_]


def case_b() -> bool:
    cfg = CFG()
    entry, exit_ = cfg.entry_bb, cfg.exit_bb
    cfg.link(entry, exit_)
    dead = cfg.new_bb(statements=[stmt("y = z")])
    cfg.dummy_link(entry, dead)
    cfg.link(dead, exit_)  # unreachable block jumping into reachable code
    cfg.update_reachable()
    stats = {bb: bb.compute_variable_stats() for bb in cfg.bbs}
    try:
        res, _ = AssignmentAnalysis(
            stats, {"z"}, {"z"}, include_unreachable=False
        ).run_unpacked(cfg.bbs)
    except KeyError as e:
        print(f"  (b) include_unreachable=False: KeyError(BB idx={e.args[0].idx}, "
              f"reachable={e.args[0].reachable})")
        return True
    print(f"  (b) include_unreachable=False: exit -> {sorted(res[exit_])}")
    return res[exit_] != {"z"}


if __name__ == "__main__":
    bad_a = case_a()
    bad_b = case_b()
    if bad_a or bad_b:
        print("VIOLATION (borderline, hand-made CFGs only)")
        sys.exit(1)
    print("ok")
    sys.exit(0)
