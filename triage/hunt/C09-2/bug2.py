"""C09 finding 2 (BORDERLINE, see below): the two liveness computations of the compiler
disagree about borrowed variables in a non-terminating loop as soon as the function also
has a reachable `return`; a valid program is rejected.

    def a(q: qubit) -> None:            def b(q: qubit, c: bool) -> None:
        while True:                         if c:
            pass                                return
                                            while True:
                                                pass

`a` is accepted on purpose: cfg/cfg.py lines 117-124 and checker/linearity_checker.py
lines 751-768 seed the liveness analysis with the borrowed variables so that they are
"live in every BB, even if the actual use in the exit is unreachable".  `b` differs only
by an early return, but it is rejected with PlaceNotUsedError ("q is leaked if `c` is
False").

Cause: the seeding is done through `LivenessAnalysis(initial=...)`, i.e. through the start
value of the fixpoint iteration (`BackwardAnalysis.run`, cfg/analysis.py line 91).
 * `CFG.analyze` (cfg.py 121-124) always seeds -> q live in the loop of `a` AND of `b`.
 * `check_cfg_linearity` (linearity_checker.py 759-768) seeds only `if not
   cfg.exit_bb.reachable`, a property of the whole function, not of the block -> in `b`
   the exit is reachable through the `return`, nothing is seeded, q is dead in the loop,
   and the block in front of the loop is blamed for leaking q.
So for the very same block the compiler holds two different "live on entry" sets
(shown below on a droppable borrowed array, where the disagreement is survivable:
`CheckedCFG.live_before[loop head]` contains `x`, the input row of the loop head does
not).  At most one of them can equal the path-based solution.

Why borderline: read literally, C09's path-based definition says q is NOT live in a loop
that never reaches a read, so it is the first analysis (and the deliberate acceptance of
`a`) that deviates from the statement, and the second analysis is "right" for `b`.  What
is certainly wrong is the inconsistency: either both functions are accepted (the intent
documented in the code) or the live sets must agree.  This script exits 0 iff `a` and `b`
get the same verdict.
"""

import sys

from guppylang import guppy
from guppylang.std.builtins import array
from guppylang.std.quantum import qubit
from guppylang_internals.engine import ENGINE


@guppy
def a(q: qubit) -> None:
    while True:
        pass


@guppy
def b(q: qubit, c: bool) -> None:
    if c:
        return
    while True:
        pass


@guppy
def b_droppable(x: array[int, 1], c: bool) -> None:
    if c:
        return
    while True:
        pass


def verdict(fn) -> str:
    try:
        fn.check()
        return "accepted"
    except BaseException as e:  # noqa: BLE001
        err = getattr(e, "error", None)
        return f"rejected ({type(err).__name__ if err is not None else repr(e)})"


if __name__ == "__main__":
    va, vb = verdict(a), verdict(b)
    print(f"a (while True only)            : {va}")
    print(f"b (early return + while True)  : {vb}")

    # Show the two live sets for the loop blocks on the variant that passes the checker
    print(f"b_droppable                    : {verdict(b_droppable)}")
    cfg = ENGINE.checked[b_droppable.id].cfg
    for bb in cfg.bbs:
        if bb in (cfg.entry_bb, cfg.exit_bb):
            continue
        first = sorted(x for x in cfg.live_before[bb] if x in ("x", "c"))
        second = sorted(str(p) for p in bb.sig.input_row)
        in_cycle = any(bb in s.successors for s in bb.successors) or bb in bb.successors
        print(f"  BB{bb.idx} (on a cycle: {in_cycle})  CFG.analyze live={first}  "
              f"linearity-checker live (input row)={second}")

    if va != vb:
        print("VIOLATION: the borrowed variable is treated as live in the infinite loop of "
              "`a` but as dead in the identical loop of `b`")
        sys.exit(1)
    print("ok")
    sys.exit(0)
