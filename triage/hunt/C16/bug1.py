"""C16 violation 1: the result of a function call is never implicitly widened in a checking position.

Property C16: "When an expression of type nat or int is used where int or float is expected, the
compiler converts it implicitly ... in the widening direction nat->int->float" (assignments,
arguments, returns, operator operands).

Expected: with `def fi() -> int`, all of
      return fi()              (function declared `-> float`)
      x: float = fi()
      takes_float(fi())
   are accepted and lowered with a `convert_s` (resp. no-op for nat->int), exactly like the
   equivalent spelling `y = fi(); return y` and like `1.0 + fi()`, which ARE accepted.

Observed: GuppyTypeError "Expected expression of type `float`, got `int`" for every call of a
   user-defined function, declared function, method, or higher-order function value whose numeric
   result would have to be widened.  (Calls of *custom* functions such as `abs(n)`, `int(x)`,
   `len(xs)` are coerced fine because CustomCallChecker.check goes through check_type_against.)

Responsible code: guppylang-internals/src/guppylang_internals/checker/expr_checker.py,
   function `check_call`, lines ~1172-1177:

        synth, inst = res
        subst = unify(ty, synth, {})
        if subst is None:
            raise GuppyTypeError(TypeMismatchError(node, ty, synth, kind))

   The synthesized return type is only *unified* with the expected type; `try_coerce_to` (which every
   other path reaches through `check_type_against`) is never consulted.  ExprChecker.visit_Call
   routes all direct calls (RawFunctionDef/ParsedFunctionDef.check_call, RawFunctionDecl.check_call)
   and all higher-order calls through this function.

The script exits 1 if a widening call result is rejected (property violated), 0 otherwise.  It also
verifies that the narrowing direction is rejected, so a "fix" that accepts everything would not pass.
"""

import sys
from collections.abc import Callable

from guppylang import guppy
from guppylang.std.builtins import nat


@guppy
def fi() -> int:
    return 1


@guppy
def fn(n: nat) -> nat:
    return n


@guppy.declare
def fdecl() -> int: ...


@guppy
def takes_float(x: float) -> float:
    return x


# ---- controls: equivalent programs that are accepted today -------------------------------------
@guppy
def ctrl_via_var() -> float:
    y = fi()
    return y


@guppy
def ctrl_operand() -> float:
    return 1.0 + fi()


# ---- the widening uses that C16 requires to be accepted ---------------------------------------
@guppy
def w_return() -> float:
    return fi()


@guppy
def w_annassign() -> float:
    x: float = fi()
    return x


@guppy
def w_argument() -> float:
    return takes_float(fi())


@guppy
def w_declared() -> float:
    return fdecl()


@guppy
def w_nat_to_int(n: nat) -> int:
    return fn(n)


@guppy
def w_higher_order(f: Callable[[], int]) -> float:
    return f()


# ---- narrowing: must stay rejected ------------------------------------------------------------
@guppy
def takes_nat(n: nat) -> nat:
    return n


@guppy
def n_return() -> nat:
    return fi()


@guppy
def n_argument() -> nat:
    return takes_nat(fi())


def accepted(f) -> bool:
    try:
        f.check()
        return True
    except Exception as e:  # noqa: BLE001
        err = getattr(e, "error", None)
        print(f"    {f.wrapped.name if hasattr(f, 'wrapped') else f}: {type(e).__name__}"
              f" {type(err).__name__ if err else ''}"
              f" expected={getattr(err, 'expected', None)} actual={getattr(err, 'actual', None)}")
        return False


def main() -> int:
    bad = False
    for name, f in [("y = fi(); return y", ctrl_via_var), ("1.0 + fi()", ctrl_operand)]:
        ok = accepted(f)
        print(f"control  {name!r:32} accepted={ok}")
        if not ok:
            print("control unexpectedly rejected; environment problem")
            return 2
    for name, f in [
        ("return fi()  [-> float]", w_return),
        ("x: float = fi()", w_annassign),
        ("takes_float(fi())", w_argument),
        ("return fdecl()  [declared]", w_declared),
        ("return fn(n)  [nat -> int]", w_nat_to_int),
        ("return f()  [Callable[[], int]]", w_higher_order),
    ]:
        ok = accepted(f)
        print(f"widening {name!r:32} accepted={ok}" + ("" if ok else "   <-- C16 VIOLATION"))
        bad |= not ok
    for name, f in [("return fi()  [-> nat]", n_return), ("takes_nat(fi())", n_argument)]:
        ok = accepted(f)
        print(f"narrowing {name!r:31} accepted={ok}" + ("   <-- C16 VIOLATION" if ok else ""))
        bad |= ok
    print("RESULT:", "property C16 violated" if bad else "ok")
    return 1 if bad else 0


if __name__ == "__main__":
    sys.exit(main())
