"""C16 violation 2: array element assignment `xs[i] = e` never widens `e`.

Property C16 quantifies over "assignments": an int/nat expression assigned where int/float is
expected must be converted implicitly (nat->int->float).

Expected: for `xs: array[float, 3]`, `n: nat`, `i: int`
      xs[0] = 2        xs[0] = i        xs[0] = n        (and `ys[0] = n` for ys: array[int, 3])
   are accepted with a convert_s / convert_u (or no-op) inserted on the right-hand side -- exactly
   like `x: float = n`, like `array(n, i)` checked against `array[float, 2]`, and like
   `xs[0] += n`, which ARE accepted and lowered to `set(xs, 0, fadd(get(xs, 0), convert_u(n)))`.

Observed: GuppyTypeError AssignSubscriptTypeMismatchError ("cannot assign expression of type `int`
   to array element of type `float`"), even for the literal `xs[0] = 2`.

Responsible code: guppylang-internals/src/guppylang_internals/checker/stmt_checker.py,
   `StmtChecker._check_subscript_assign`, lines ~194-199:

        element_ty = get_element_type(container_ty)
        if element_ty != rhs_ty:
            raise GuppyTypeError(AssignSubscriptTypeMismatchError(to_span(lhs), rhs_ty, element_ty))

   The RHS was synthesized by `visit_Assign` and is compared with `!=`; neither
   `check_type_against` nor `try_coerce_to` is consulted, so no coercion can ever happen here.

Exit status 1 = property violated (a widening element assignment is rejected, or a narrowing one is
accepted); 0 on a correct implementation.
"""

import sys

from guppylang import guppy
from guppylang.std.builtins import array, nat, owned


# ---- controls (accepted today) ---------------------------------------------------------------
@guppy
def ctrl_same_type(xs: array[float, 3] @ owned) -> array[float, 3]:
    xs[0] = 2.0
    return xs


@guppy
def ctrl_augassign(xs: array[float, 3] @ owned, n: nat) -> array[float, 3]:
    xs[0] += n
    return xs


@guppy
def ctrl_array_ctor(n: nat, i: int) -> array[float, 2]:
    return array(n, i)


# ---- widening element assignments --------------------------------------------------------------
@guppy
def w_lit(xs: array[float, 3] @ owned) -> array[float, 3]:
    xs[0] = 2
    return xs


@guppy
def w_int(xs: array[float, 3] @ owned, i: int) -> array[float, 3]:
    xs[0] = i
    return xs


@guppy
def w_nat(xs: array[float, 3] @ owned, n: nat) -> array[float, 3]:
    xs[0] = n
    return xs


@guppy
def w_nat_int(ys: array[int, 3] @ owned, n: nat) -> array[int, 3]:
    ys[0] = n
    return ys


# ---- narrowing: must stay rejected ------------------------------------------------------------
@guppy
def n_float_into_int(ys: array[int, 3] @ owned, x: float) -> array[int, 3]:
    ys[0] = x
    return ys


@guppy
def n_int_into_nat(zs: array[nat, 3] @ owned, i: int) -> array[nat, 3]:
    zs[0] = i
    return zs


def accepted(f) -> bool:
    try:
        f.check()
        return True
    except Exception as e:  # noqa: BLE001
        err = getattr(e, "error", None)
        print(f"    {type(e).__name__} {type(err).__name__ if err else e!r}"
              f" expected={getattr(err, 'expected', None)} actual={getattr(err, 'actual', None)}")
        return False


def main() -> int:
    for name, f in [("xs[0] = 2.0", ctrl_same_type), ("xs[0] += n", ctrl_augassign),
                    ("array(n, i) : array[float,2]", ctrl_array_ctor)]:
        ok = accepted(f)
        print(f"control   {name!r:36} accepted={ok}")
        if not ok:
            print("control unexpectedly rejected; environment problem")
            return 2
    bad = False
    for name, f in [("xs[0] = 2     (float elems)", w_lit), ("xs[0] = i     (float elems)", w_int),
                    ("xs[0] = n     (float elems)", w_nat), ("ys[0] = n     (int elems)", w_nat_int)]:
        ok = accepted(f)
        print(f"widening  {name!r:36} accepted={ok}" + ("" if ok else "   <-- C16 VIOLATION"))
        bad |= not ok
    for name, f in [("ys[0] = x (float into int elems)", n_float_into_int),
                    ("zs[0] = i (int into nat elems)", n_int_into_nat)]:
        ok = accepted(f)
        print(f"narrowing {name!r:36} accepted={ok}" + ("   <-- C16 VIOLATION" if ok else ""))
        bad |= ok
    print("RESULT:", "property C16 violated" if bad else "ok")
    return 1 if bad else 0


if __name__ == "__main__":
    sys.exit(main())
