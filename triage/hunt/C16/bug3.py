"""C16 violation 3: compile-time values are never widened in a checking position.

Property C16: an expression of type nat/int used where int/float is expected (assignment, argument,
return, operand) is converted implicitly in the widening direction.

3a. `comptime(...)` expressions
    Expected: `x: float = comptime(1)`, `return comptime(N)` (function `-> float`),
       `takes_float(comptime(1))` are accepted (convert_s on the int constant), like the literal
       spellings `x: float = 1` / `takes_float(1)` and like `1.0 + comptime(1)` or
       `y = comptime(1); x: float = y`, which ARE accepted.
    Observed: GuppyTypeError "Expected expression of type `float`, got `int`".
    Responsible code: guppylang-internals/src/guppylang_internals/checker/expr_checker.py,
       `ExprChecker.visit_ComptimeExpr`, lines ~354-359:

            if act := python_value_to_guppy_type(python_val, node.value, self.ctx.globals, ty):
                subst = unify(ty, act, {})
                if subst is None:
                    self._fail(ty, act, node)

       Only `unify` is used; `ExprChecker.visit_Constant` (the literal case, line ~262) goes through
       `check_type_against` and therefore coerces.

3b. literal / generic arguments of `@comptime` parameters
    Expected: for `def cf(x: float @comptime)`, the call `cf(1)` is accepted like `cf(1.0)`; for
       `def ci(x: int @comptime)`, the call `ci(n)` with `n: nat @comptime` in scope is accepted like
       `ci(m)` with `m: int @comptime`.
    Observed: GuppyError ComptimeUnknownError ("value of this argument must be known at
       compile-time") although the argument is the literal `1`.
    Responsible code: same file, `type_check_args` + `check_comptime_arg`, lines ~960-993 and
       ~1075-1096: the argument is first checked against the parameter type, where
       `try_coerce_to` wraps the `ast.Constant` / `GenericParamValue` into a `nat.__float__` /
       `int.__float__` / `nat.__int__` call node; `check_comptime_arg` then only recognises bare
       `ast.Constant` / `ComptimeVariable` / `GenericParamValue` nodes and reports the coerced
       node as "not known at compile time".

Exit status 1 = property violated; 0 on a correct implementation.  Narrowing controls are checked too.
"""

import sys

from guppylang import guppy
from guppylang.std.builtins import comptime, nat

N = 3


@guppy
def takes_float(x: float) -> float:
    return x


# ---- controls (accepted today) ---------------------------------------------------------------
@guppy
def ctrl_literal() -> float:
    x: float = 1
    return takes_float(1) + x


@guppy
def ctrl_operand() -> float:
    return 1.0 + comptime(1)


@guppy
def ctrl_via_var() -> float:
    y = comptime(N)
    x: float = y
    return x


# ---- 3a: widening of comptime expressions ----------------------------------------------------
@guppy
def w_annassign() -> float:
    x: float = comptime(1)
    return x


@guppy
def w_return() -> float:
    return comptime(N)


@guppy
def w_argument() -> float:
    return takes_float(comptime(1))


# ---- 3b: comptime parameters -----------------------------------------------------------------
@guppy
def cf(x: float @ comptime) -> float:
    return x


@guppy
def ci(x: int @ comptime) -> int:
    return x


@guppy
def ctrl_cf() -> float:
    return cf(1.0)


@guppy
def ctrl_ci(m: int @ comptime) -> int:
    return ci(m)


@guppy
def w_cf_lit() -> float:
    return cf(1)


@guppy
def w_ci_nat(n: nat @ comptime) -> int:
    return ci(n)


# ---- narrowing: must stay rejected ------------------------------------------------------------
@guppy
def n_comptime_float_to_int() -> int:
    x: int = comptime(1.5)
    return x


@guppy
def n_comptime_neg_to_nat() -> nat:
    x: nat = comptime(-1)
    return x


def accepted(f) -> bool:
    try:
        f.check()
        return True
    except Exception as e:  # noqa: BLE001
        err = getattr(e, "error", None)
        print(f"    {type(e).__name__} {type(err).__name__ if err else e!r}"
              f" expected={getattr(err, 'expected', None)} actual={getattr(err, 'actual', None)}")
        return False


def main() -> int:
    for name, f in [("x: float = 1; takes_float(1)", ctrl_literal), ("1.0 + comptime(1)", ctrl_operand),
                    ("y = comptime(N); x: float = y", ctrl_via_var), ("cf(1.0)", ctrl_cf),
                    ("ci(m)  [m: int @comptime]", ctrl_ci)]:
        ok = accepted(f)
        print(f"control   {name!r:38} accepted={ok}")
        if not ok:
            print("control unexpectedly rejected; environment problem")
            return 2
    bad = False
    for name, f in [("3a x: float = comptime(1)", w_annassign), ("3a return comptime(N) [-> float]", w_return),
                    ("3a takes_float(comptime(1))", w_argument),
                    ("3b cf(1)  [x: float @comptime]", w_cf_lit),
                    ("3b ci(n)  [n: nat @comptime -> int @comptime]", w_ci_nat)]:
        ok = accepted(f)
        print(f"widening  {name!r:38} accepted={ok}" + ("" if ok else "   <-- C16 VIOLATION"))
        bad |= not ok
    for name, f in [("x: int = comptime(1.5)", n_comptime_float_to_int),
                    ("x: nat = comptime(-1)", n_comptime_neg_to_nat)]:
        ok = accepted(f)
        print(f"narrowing {name!r:38} accepted={ok}" + ("   <-- C16 VIOLATION" if ok else ""))
        bad |= ok
    print("RESULT:", "property C16 violated" if bad else "ok")
    return 1 if bad else 0


if __name__ == "__main__":
    sys.exit(main())
