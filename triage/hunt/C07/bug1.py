"""C07 violation: in a comptime function, `barrier(...)` and `state_result(tag, ...)` do not
give their borrowed qubits back to the caller.

`barrier` and `state_result` BORROW their arguments: their checkers (BarrierChecker,
std/_internal/checker.py:411-423; StateResultChecker, std/_internal/debug.py:78-95) build a function
type whose inputs all carry `InputFlags.Inout`, and in an ordinary `@guppy` function

    barrier(q)
    h(q)

is accepted and lowered so that `h` acts on the qubit coming out of the barrier (control below).

Expected: the same two lines in a `@guppy.comptime` function behave the same way - after the call
the caller still holds `q` (property C07: "Passing a non-copyable value ... to a parameter without
@owned lends it to the callee. After the call the caller holds the same value").

Observed: tracing fails with
    GuppyComptimeError: Value with non-copyable type `qubit` was already used
    Previous use occurred in ... as an argument to `barrier`
i.e. the lent qubit was consumed.  The same happens for `state_result("tag", q)` and for whole arrays /
array elements (`barrier(qs)`, `barrier(qs[0], qs[1])`).

Responsible code: guppylang-internals/src/guppylang_internals/tracing/function.py, trace_call():

    line 160   state.dfg[var] = obj._use_wire(func)          # marks every argument object as used
    line 176   if len(func.ty.inputs) != 0:                  # <-- guard
    line 177       for inp, arg, var in zip(func.ty.inputs, args, arg_vars, strict=True):
    line 178           if InputFlags.Inout in inp.flags:     #     write the inout wire back / un-use

`barrier` and `state_result` are `CustomFunctionDef`s without a signature (`has_signature == False`,
`func.ty == () -> None`), so the guard skips the write-back although the synthesized call node
(`BarrierExpr` / `StateResultExpr`) has a `func_ty` with Inout inputs and `ExprCompiler._update_inout_ports`
has already put the returned wires into `state.dfg[var]`.  The Python-side objects are never updated.

Run:  PYTHONPATH=/tmp/shim:<wt>/guppylang/src:<wt>/guppylang-internals/src /venv/bin/python bug1.py
Exit status 1 = property violated (unmodified tree), 0 = all comptime variants compile.
"""

import sys
import traceback
import warnings

warnings.filterwarnings("ignore")

import hugr.build.function as hf
from hugr import tys

from guppylang import guppy
from guppylang.std.builtins import array, barrier
from guppylang.std.debug import state_result
from guppylang.std.quantum import h, qubit
from guppylang_internals.compiler.core import CompilerContext
from guppylang_internals.engine import ENGINE


def lower(fn):
    defn = fn.wrapped if hasattr(fn, "wrapped") else fn
    ENGINE.check(defn.id)
    mod = hf.Module()
    CompilerContext(mod).compile(ENGINE.checked[defn.id])
    return mod


def nonlinear_ports(mod):
    """Value out-ports of non-copyable type that are not used exactly once."""
    hh = mod.hugr
    bad = []
    for node in hh.descendants(hh.module_root):
        for i in range(hh.num_out_ports(node)):
            try:
                ty = hh.port_type(node.out(i))
            except Exception:
                ty = None
            if ty is None:
                continue
            n = len(list(hh.linked_ports(node.out(i))))
            if ty.type_bound() != tys.TypeBound.Copyable and n != 1:
                bad.append((node, i, str(ty), n))
    return bad


# ---- control: ordinary guppy function, and a comptime function lending to an ordinary function


@guppy.declare
def f(q: qubit) -> None: ...


@guppy
def control_plain(q: qubit, qs: array[qubit, 2]) -> None:
    barrier(q)
    h(q)
    state_result("t", q)
    h(q)
    barrier(qs[0], qs[1])
    h(qs[0])


@guppy.comptime
def control_comptime(q: qubit) -> None:
    f(q)
    h(q)


# ---- the inputs of interest


@guppy.comptime
def ct_barrier(q: qubit) -> None:
    barrier(q)
    h(q)


@guppy.comptime
def ct_state_result(q: qubit) -> None:
    state_result("t", q)
    h(q)


@guppy.comptime
def ct_barrier_array(qs: array[qubit, 2]) -> None:
    barrier(qs)
    h(qs[0])


@guppy.comptime
def ct_barrier_nothing_after(q: qubit) -> None:
    # Even without a later use: `q` is borrowed by this function, so it must be handed back
    barrier(q)


violations = 0
for name, fn, is_control in [
    ("control_plain", control_plain, True),
    ("control_comptime", control_comptime, True),
    ("ct_barrier", ct_barrier, False),
    ("ct_state_result", ct_state_result, False),
    ("ct_barrier_array", ct_barrier_array, False),
    ("ct_barrier_nothing_after", ct_barrier_nothing_after, False),
]:
    try:
        mod = lower(fn)
    except BaseException as e:  # noqa: BLE001
        first = str(e).strip().splitlines()
        print(f"{name}: FAILED with {type(e).__name__}: {' / '.join(l for l in first if l)}")
        if is_control:
            print("  (control failed - environment problem, not the bug)")
            traceback.print_exc()
            sys.exit(2)
        violations += 1
        continue
    bad = nonlinear_ports(mod)
    print(f"{name}: lowered, non-copyable ports not used exactly once: {bad}")
    if bad and not is_control:
        violations += 1

if violations:
    print(
        f"\nC07 VIOLATED: {violations} comptime function(s) lost a value they had only lent to "
        "barrier/state_result"
    )
    sys.exit(1)
print("\nok: borrowed arguments of barrier/state_result are given back in comptime functions")
sys.exit(0)
