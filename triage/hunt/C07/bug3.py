"""C07 violation (accepts what must be rejected, ill-formed Hugr): inside a comprehension, LENDING an
outer qubit to a function licenses CONSUMING it in every iteration afterwards.

Program:

    @guppy.declare
    def b(q: qubit) -> bool: ...                 # borrows q
    @guppy.declare
    def g(x: bool, q: qubit @ owned) -> int: ... # consumes q

    @guppy
    def main(q: qubit @ owned) -> array[int, 3]:
        xs = array(g(b(q), q) for _ in range(3))   # q lent to b, then MOVED into g - three times
        discard(q)                                 # ... and the caller still "holds" q afterwards
        return xs

Expected: rejected.  `q` is defined outside the comprehension and has a non-copyable type; the body
runs three times, so it may at most be *borrowed* there (that is what the dedicated
`ComprAlreadyUsedError` is for, and `array(g(mk(), q) for _ in range(3))` is indeed rejected with it -
control below).  Property C07 says that after the lending call `b(q)` - and after the whole
comprehension that only lends `q` - the caller holds the same value; here the value the caller "holds"
and discards has been consumed by `g` up to three times.

Observed: `main.check()` succeeds, and lowering produces a Hugr in which the Qubit inout output of the
call of `b` is wired to TWO consumers (the call of `g` and the loop-carried output): a linear wire is
duplicated.

Responsible code: guppylang-internals/src/guppylang_internals/checker/linearity_checker.py,
`BBLinearityChecker._check_comprehension`:

    578  for x, use in inner_scope.used_parent.items():
    581      if use.kind == UseKind.BORROW:
    582-590      # "Since `x` was borrowed, we know that is now also assigned in the inner scope ..."
                 inner_scope.use(leaf.id, InoutReturnSentinel(leaf), UseKind.RETURN)   # overwrites the MOVE
    ...
    607  for x, use in inner_scope.used_parent.items():
    611      if use.kind == UseKind.BORROW:
    612          self._reassign_single_inout_arg(place, use.node)    # outer `q` is declared alive again

After the borrow `b(q)`, `_reassign_inout_args` (line 338ff.) re-assigns `q` in the INNER scope, so the
following move into `g` is recorded as a use of an inner variable (`used_local`) and never reaches
`used_parent`; `used_parent[q]` keeps saying BORROW.  The code above then assumes "borrowed, hence still
there at the end of the body" without checking `inner_scope.used(x)`, marks the place as returned and
re-assigns it in the outer scope.

Run:  PYTHONPATH=/tmp/shim:<wt>/guppylang/src:<wt>/guppylang-internals/src /venv/bin/python bug3.py
Exit status 1 = property violated (unmodified tree), 0 = program rejected.
"""

import builtins
import sys
import warnings

warnings.filterwarnings("ignore")

import hugr.build.function as hf
from hugr import tys

from guppylang import guppy
from guppylang.std.builtins import array, owned, range  # noqa: A004
from guppylang.std.quantum import discard, qubit
from guppylang_internals.compiler.core import CompilerContext
from guppylang_internals.engine import ENGINE
from guppylang_internals.error import GuppyError


@guppy.declare
def b(q: qubit) -> bool: ...


@guppy.declare
def g(x: bool, q: qubit @ owned) -> int: ...


@guppy.declare
def mk() -> bool: ...


@guppy
def control_only_borrow(q: qubit @ owned) -> array[bool, 3]:
    xs = array(b(q) for _ in range(3))  # fine: q is only lent in the body
    discard(q)
    return xs


@guppy
def control_only_move(q: qubit @ owned) -> array[int, 3]:
    xs = array(g(mk(), q) for _ in range(3))  # must be (and is) rejected
    return xs


@guppy
def main(q: qubit @ owned) -> array[int, 3]:
    xs = array(g(b(q), q) for _ in range(3))
    discard(q)
    return xs


def check(fn):
    try:
        fn.check()
    except GuppyError as e:
        return type(e.error).__name__
    return None


r = check(control_only_borrow)
print("control_only_borrow:", "accepted" if r is None else f"rejected ({r})")
if r is not None:
    sys.exit(2)
r = check(control_only_move)
print("control_only_move:  ", "accepted" if r is None else f"rejected ({r})")
if r is None:
    sys.exit(2)

r = check(main)
print("main:               ", "accepted" if r is None else f"rejected ({r})")
if r is not None:
    print("\nok: consuming an outer qubit inside a comprehension is rejected even after lending it")
    sys.exit(0)

# Show what the accepted program is lowered to
try:
    # The sandbox shim of the `tket.bool` extension declares only the type; add the op declarations
    # in-process so that the comprehension loop can be lowered (illustration only, exit status does
    # not depend on it).
    from hugr.ext import OpDef, OpDefSig

    from guppylang_internals.std._internal.compiler.tket_exts import BOOL_EXTENSION

    _B = tys.ExtType(BOOL_EXTENSION.get_type("bool"))
    for _name, _ins, _outs in [
        ("read", [_B], [tys.Bool]),
        ("make_opaque", [tys.Bool], [_B]),
        ("not", [_B], [_B]),
    ]:
        if _name not in BOOL_EXTENSION.operations:
            BOOL_EXTENSION.add_op_def(OpDef(_name, OpDefSig(tys.FunctionType(_ins, _outs))))

    mod = hf.Module()
    CompilerContext(mod).compile(ENGINE.checked[main.wrapped.id])
    hh = mod.hugr
    for node in hh.descendants(hh.module_root):
        for i in builtins.range(hh.num_out_ports(node)):
            try:
                ty = hh.port_type(node.out(i))
            except Exception:  # noqa: BLE001
                ty = None
            if ty is None or ty.type_bound() == tys.TypeBound.Copyable:
                continue
            users = [(p.node, type(hh[p.node].op).__name__) for p in hh.linked_ports(node.out(i))]
            if len(users) != 1:
                print(
                    f"  ill-formed Hugr: out-port {i} of {node} ({type(hh[node].op).__name__}) has "
                    f"linear type {ty} but {len(users)} users: {users}"
                )
except BaseException as e:  # noqa: BLE001
    print("  lowering failed:", type(e).__name__, str(e)[:200])

print(
    "\nC07 VIOLATED: after lending q to b(q) the comprehension body may move q into g on every "
    "iteration, and the caller is still considered to hold q afterwards"
)
sys.exit(1)
