"""C07 violation (evaluation order): lending a NESTED array element `a[i][j]` evaluates the index
expressions right-to-left, so the callee's in-place updates land in the wrong element.

Program (accepted by the checker):

    @guppy.declare
    def nxt(c: array[int, 1]) -> int: ...        # borrows a counter, e.g. returns c[0] and increments it

    @guppy
    def main(a: array[array[qubit, 2], 3], c: array[int, 1]) -> None:
        f(a[nxt(c)][nxt(c)])                     # f borrows the qubit and updates it in place

Expected (Python reference semantics, left-to-right evaluation): the first call of `nxt` (the one
that receives `c` as passed to `main`) yields the index into the OUTER array, the second call the index
into the INNER array.  With a counter starting at 0, `f` updates `a[0][1]`, and that is the element the
caller must see updated afterwards.

Observed: in the lowered Hugr the first `nxt` call feeds the `borrow`/`return` ops of the INNER
`array[qubit, 2]`, and the second `nxt` call (whose `c` input is the first call's inout output) feeds
the `borrow`/`return` ops of the OUTER array: `f` is applied to `a[1][0]` and the update is written back
there.  The element the caller observes as updated is not the one Python semantics designates (and for
non-square shapes the swapped indices can panic out-of-bounds on an in-bounds program).

Responsible code: guppylang-internals/src/guppylang_internals/compiler/expr_compiler.py

    258  def visit_PlaceNode(self, node):
    259      if subscript := contains_subscript(node.place):      # rightmost subscript, i.e. `[j]`
    260          if subscript.item not in self.dfg:
    261              self.dfg[subscript.item] = self.visit(subscript.item_expr)   # j evaluated FIRST
    262          self.dfg[subscript] = self.visit(subscript.getitem_call)         # -> visits a[i], evaluates i

(the linearity checker, checker/linearity_checker.py:266-278, walks in the same reversed order).  The
write-back in `_update_inout_ports` (lines 356-363) re-uses the cached item wires, so the whole
borrow/return pair is applied to the wrong element consistently.

Borderline note: the root cause is an operand-evaluation-order bug of nested subscript places in general
(it also affects plain reads such as `x = a[nxt(c)][nxt(c)]`); it is reported under C07 because the
property explicitly covers array elements and nested borrows and "the caller holds the same value with
all of the callee's in-place updates applied" fails for the element Python designates.

Run:  PYTHONPATH=/tmp/shim:<wt>/guppylang/src:<wt>/guppylang-internals/src /venv/bin/python bug2.py
Exit status 1 = property violated (unmodified tree), 0 = indices evaluated left-to-right, 2 = could not analyse.
"""

import sys
import warnings

warnings.filterwarnings("ignore")

import hugr.build.function as hf

from guppylang import guppy
from guppylang.std.builtins import array
from guppylang.std.quantum import qubit
from guppylang_internals.compiler.core import CompilerContext
from guppylang_internals.engine import ENGINE


@guppy.declare
def nxt(c: array[int, 1]) -> int: ...


@guppy.declare
def f(q: qubit) -> None: ...


@guppy
def main(a: array[array[qubit, 2], 3], c: array[int, 1]) -> None:
    f(a[nxt(c)][nxt(c)])


ENGINE.check(main.wrapped.id)
mod = hf.Module()
CompilerContext(mod).compile(ENGINE.checked[main.wrapped.id])
hh = mod.hugr


def opname(n):
    op = hh[n].op
    s = type(op).__name__
    try:
        s += ":" + op.op_def().name
    except Exception:  # noqa: BLE001
        pass
    return s


def src(node, i):
    """(node, offset) feeding in-port i of node"""
    [p] = list(hh.linked_ports(node.inp(i)))
    return p.node, p.offset


nodes = list(hh.descendants(hh.module_root))
decl_nxt = [n for n in nodes if opname(n).startswith("FuncDecl") and hh[n].op.f_name == "nxt"]
if len(decl_nxt) != 1:
    print("could not find declaration of nxt")
    sys.exit(2)
[decl_nxt] = decl_nxt

calls = [
    n
    for n in nodes
    if type(hh[n].op).__name__ == "Call" and src(n, hh.num_in_ports(n) - 1)[0] == decl_nxt
]
if len(calls) != 2:
    print("expected two calls of nxt, found", calls)
    sys.exit(2)

# The call executed first is the one whose borrowed `c` comes straight from the function input; the
# second one receives the `c` handed back by the first (inout output, port 1).
first = [n for n in calls if opname(src(n, 0)[0]).startswith("Input")]
second = [n for n in calls if src(n, 0)[0] in calls]
if len(first) != 1 or len(second) != 1 or src(second[0], 0) != (first[0], 1):
    print("could not order the two calls of nxt")
    sys.exit(2)
first, second = first[0], second[0]
print(f"first  nxt(c) call: {first}  (c from function input)")
print(f"second nxt(c) call: {second} (c from the first call's inout output)")


def index_origin(node):
    """Follows the index operand (in-port 1) of a borrow op back to a call of nxt."""
    n, _ = src(node, 1)
    for _ in range(8):
        if n in calls:
            return n
        n, _ = src(n, 0)
    return None


verdict = {}
for n in nodes:
    if opname(n) != "ExtOp:borrow":
        continue
    arr_ty = str(hh.port_type(src(n, 0)[0].out(src(n, 0)[1])))
    which = "outer" if arr_ty.count("borrow_array") >= 2 else "inner"
    origin = index_origin(n)
    print(f"borrow on {which} array ({arr_ty}) at {n}: index comes from {origin}")
    verdict.setdefault(which, set()).add(origin)

if "outer" not in verdict or "inner" not in verdict or None in verdict["outer"] | verdict["inner"]:
    print("could not analyse the lowered code")
    sys.exit(2)

if verdict["outer"] == {first} and verdict["inner"] == {second}:
    print("\nok: a[nxt(c)][nxt(c)] uses the first call for the outer and the second for the inner index")
    sys.exit(0)

print(
    "\nC07 VIOLATED: the FIRST nxt(c) call indexes the inner array and the SECOND one the outer array; "
    "with nxt returning 0 then 1 the callee's update is applied to a[1][0] instead of a[0][1]"
)
sys.exit(1)
