"""C14 (borderline, see report.md): a value whose type is COPYABLE but NOT DROPPABLE (a type
variable with bound `copyable=True, droppable=False`, PEP-695 spelling `T: Copy`) is lost
on a CFG edge -- the lowered HUGR is mis-wired.

The property quantifies over "type variables of every copy/drop bound".  For three of
the four bounds the basic-block compiler is fine; for (copyable, not droppable) it is
not, because compiler/cfg_compiler.py equates "not droppable" with "linear, hence live
in EVERY successor":

    compiler/cfg_compiler.py:131-150 (compile_bb, branching block whose successors need
    different variables)
        output_vars=[[v for v in sort_vars(row) if v.ty.droppable] for row in ...]   # -> branch Sum
        outputs = [v for v in first if not v.ty.droppable]                           # -> shared outputs

A non-droppable variable is taken from the FIRST successor's row only and handed to all
successors.  That is right for non-copyable non-droppable values (the linearity checker
forces them to be live in all successors or in none).  A copyable non-droppable value
may already have been used in this block (which satisfies "must be used") and be used
again in only ONE branch -- then it is live in one successor only:

    def f(x: C, b: bool, a: array[int, 2] @owned) -> int:
        use(x)              # x is used: nothing leaks
        y = 1
        if b:
            use(x)          # second use, allowed because C is copyable
            y = a[0]
        return y

Expected: well-formed HUGR: the `if` block hands `x` to the then-block (which declares
it as an input) and not to the join block.
Observed: the program type-checks, the then-block is declared with inputs [array, C],
but its predecessor passes only [array] along that edge -- `x` is dropped from the edge
(first row = the else/join row, which does not contain x).  Ill-formed HUGR (signature
of a CFG edge does not match the successor block).

Sandbox note: the `tket.bool` extension of the installed tket_exts has no operations,
so `read`/`make_opaque`/`not` are added to it below; this only makes lowering of an
`if` possible at all and does not touch the code under test.

Run:  PYTHONPATH=/tmp/shim:<wt>/guppylang/src:<wt>/guppylang-internals/src python bug2.py
Exits 1 when the violation is observed, 0 on a correct implementation.
"""

import sys

import hugr.build.function as hf
from hugr import ops
from hugr import tys as ht

from guppylang import guppy
from guppylang.std.builtins import array, owned
from guppylang_internals.compiler.core import CompilerContext
from guppylang_internals.engine import ENGINE


def patch_bool_ops() -> None:
    from hugr.ext import OpDef, OpDefSig

    from guppylang_internals.std._internal.compiler.tket_bool import OpaqueBool
    from guppylang_internals.std._internal.compiler.tket_exts import BOOL_EXTENSION

    sigs = {
        "read": ht.FunctionType([OpaqueBool], [ht.Bool]),
        "make_opaque": ht.FunctionType([ht.Bool], [OpaqueBool]),
        "not": ht.FunctionType([OpaqueBool], [OpaqueBool]),
    }
    for name, sig in sigs.items():
        if name not in BOOL_EXTENSION.operations:
            BOOL_EXTENSION.add_op_def(OpDef(name, OpDefSig(sig)))


patch_bool_ops()

C = guppy.type_var("C", copyable=True, droppable=False)
A = guppy.type_var("A", copyable=False, droppable=True)
L = guppy.type_var("L", copyable=False, droppable=False)
T = guppy.type_var("T", copyable=True, droppable=True)


@guppy.declare
def use_c(x: C) -> None: ...


@guppy.declare
def use_a(x: A) -> None: ...


@guppy.declare
def use_l(x: L) -> None: ...


@guppy.declare
def use_t(x: T) -> None: ...


@guppy
def f_copy_nodrop(x: C, b: bool, a: array[int, 2] @ owned) -> int:
    use_c(x)
    y = 1
    if b:
        use_c(x)
        y = a[0]
    return y


@guppy
def f_copy_nodrop_min(x: C, b: bool) -> None:
    use_c(x)
    if b:
        use_c(x)


# The same shape for the other three bounds (controls)
@guppy
def f_copy_drop(x: T, b: bool, a: array[int, 2] @ owned) -> int:
    use_t(x)
    y = 1
    if b:
        use_t(x)
        y = a[0]
    return y


@guppy
def f_affine(x: A @ owned, b: bool, a: array[int, 2] @ owned) -> int:
    use_a(x)
    y = 1
    if b:
        use_a(x)
        y = a[0]
    return y


@guppy
def f_linear(x: L, b: bool, a: array[int, 2] @ owned) -> int:
    use_l(x)
    y = 1
    if b:
        use_l(x)
        y = a[0]
    return y


def bad_cfg_edges(f) -> list[str]:
    """For every edge `block --i--> succ` of every CFG check that the row carried by the
    edge (i-th variant of the branch sum ++ other outputs) is the input row of `succ`."""
    ENGINE.check(f.wrapped.id)
    ctx = CompilerContext(hf.Module())
    ctx.compile(ENGINE.checked[f.wrapped.id])
    h = ctx.module.hugr
    bad = []
    for n in h:
        op = h[n].op
        if not isinstance(op, ops.DataflowBlock):
            continue
        for i, row in enumerate(op.sum_ty.variant_rows):
            [succ_port] = list(h.linked_ports(n.out(i)))
            sop = h[succ_port.node].op
            carried = [str(t) for t in [*row, *op.other_outputs]]
            if isinstance(sop, ops.DataflowBlock):
                expected = [str(t) for t in sop.inputs]
            else:
                assert isinstance(sop, ops.ExitBlock)
                expected = [str(t) for t in sop.cfg_outputs]
            if carried != expected:
                bad.append(
                    f"edge {n} --{i}--> {succ_port.node}: carries {carried}, "
                    f"successor block expects {expected}"
                )
    return bad


violated = False
for f in (f_copy_drop, f_affine, f_linear, f_copy_nodrop, f_copy_nodrop_min):
    bad = bad_cfg_edges(f)
    print(f"{f.wrapped.name}: type-checks; mis-wired CFG edges: {bad if bad else 'none'}")
    violated |= bool(bad)

if violated:
    print(
        "VIOLATION: a copyable, non-droppable value that is live in only one successor "
        "is not passed along the CFG edge"
    )
    sys.exit(1)
print("ok")
sys.exit(0)
