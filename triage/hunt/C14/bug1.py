"""C14 (borderline, see report.md): a droppable-but-not-copyable ("affine") argument type
falls between the two halves of the copy/drop classification in function types.

Arrays are never copyable but are droppable, so `array[int, 3].linear` is False
(`linear` == neither copyable nor droppable).  Three places have to agree on what the
borrow/owned flag of such an argument means:

  * tys/parsing.py:277-280 (check_function_arg): every NON-COPYABLE argument without
    `@owned` is a borrow (gets InputFlags.Inout) -- arrays included;
  * tys/ty.py:511-519 (FunctionType._to_hugr_function_type): every Inout argument is an
    additional OUTPUT of the lowered HUGR function type -- arrays included;
  * tys/ty.py:806-808 (unify, FunctionType case):
        if a.ty.linear and b.ty.linear and a.flags != b.flags: return None
    compares the flags only for LINEAR argument types -- arrays (and every other
    droppable non-copyable type: structs/tuples/options of arrays, `Drop`-bounded type
    variables) are excluded.

Expected: `Callable[[array[int, 3]], None]` (borrows, lowers to `arr -> arr`) and
`Callable[[array[int, 3] @owned], None]` (consumes, lowers to `arr -> ()`) are different
types; passing a borrowing function where a consuming one is expected is a type error,
exactly as it is for `qubit` (control experiment below).

Observed: the checker accepts the program, and the lowered HUGR wires a function value
of type `borrow_array -> borrow_array` into a port of type `borrow_array -> ()` (and the
other way round): ill-typed HUGR.

Run:  PYTHONPATH=/tmp/shim:<wt>/guppylang/src:<wt>/guppylang-internals/src python bug1.py
Exits 1 when the violation is observed, 0 on a correct implementation.
"""

import sys
from collections.abc import Callable

import hugr.build.function as hf
from hugr import tys as ht

from guppylang import guppy
from guppylang.std.builtins import array, owned
from guppylang.std.quantum import qubit
from guppylang_internals.compiler.core import CompilerContext
from guppylang_internals.engine import ENGINE
from guppylang_internals.error import GuppyError

A = guppy.type_var("A", copyable=False, droppable=True)


# ---- affine argument: array --------------------------------------------------------
@guppy
def borrow(a: array[int, 3]) -> None:
    pass


@guppy
def consume(a: array[int, 3] @ owned) -> None:
    pass


@guppy
def apply_owned(
    f: Callable[[array[int, 3] @ owned], None], a: array[int, 3] @ owned
) -> None:
    f(a)


@guppy
def apply_borrow(
    f: Callable[[array[int, 3]], None], a: array[int, 3] @ owned
) -> array[int, 3]:
    f(a)
    return a


@guppy
def main_borrow_as_owned() -> None:
    apply_owned(borrow, array(1, 2, 3))


@guppy
def main_owned_as_borrow() -> None:
    apply_borrow(consume, array(1, 2, 3))


# ---- affine argument: `Drop`-bounded type variable -----------------------------------
@guppy
def gapply_owned(f: Callable[[A @ owned], None], a: A @ owned) -> None:
    f(a)


@guppy
def main_generic(b: Callable[[A], None], a: A @ owned) -> None:
    # `b` borrows its argument, `gapply_owned` wants a function that consumes it
    gapply_owned(b, a)


# ---- control: the same with a linear argument is (rightly) rejected ------------------
@guppy
def qborrow(q: qubit) -> None:
    pass


@guppy
def qapply_owned(f: Callable[[qubit @ owned], None], q: qubit @ owned) -> None:
    f(q)


@guppy
def qmain() -> None:
    qapply_owned(qborrow, qubit())


def accepted(f) -> bool:
    try:
        ENGINE.check(f.wrapped.id)
        return True
    except GuppyError as e:
        print(f"  {f.wrapped.name}: rejected with {type(e.error).__name__}")
        return False


def ill_typed_edges(f) -> list[str]:
    """Lower `f` and list all value edges whose two ends have different HUGR types."""
    ctx = CompilerContext(hf.Module())
    ctx.compile(ENGINE.checked[f.wrapped.id])
    h = ctx.module.hugr
    bad = []
    for n in h:
        for i in range(h.num_in_ports(n)):
            inp = n.inp(i)
            try:
                kind = h.port_kind(inp)
            except Exception:  # noqa: BLE001
                continue
            if not isinstance(kind, ht.ValueKind):
                continue
            for src in h.linked_ports(inp):
                src_kind = h.port_kind(src)
                if isinstance(src_kind, ht.ValueKind) and src_kind.ty != kind.ty:
                    bad.append(
                        f"{h[src.node].op.name()} : {src_kind.ty}   ==>   "
                        f"{h[n].op.name()} port {i} : {kind.ty}"
                    )
    return bad


violated = False
print("control (linear argument type, flags differ):")
if accepted(qmain):
    print("  qmain unexpectedly accepted")

for f in (main_borrow_as_owned, main_owned_as_borrow, main_generic):
    print(f"{f.wrapped.name}:")
    if not accepted(f):
        continue
    print("  ACCEPTED by the checker although borrow/owned flags of the affine argument differ")
    violated = True
    for line in ill_typed_edges(f):
        print("  ill-typed HUGR edge:", line)

if violated:
    print("VIOLATION: borrowed and owned affine arguments are identified by unify()")
    sys.exit(1)
print("ok")
sys.exit(0)
