"""C23 / finding 2: a trace that raises leaves the global tracing state switched on.

`set_tracing_state` (tracing/state.py:64-69) is one of the two mechanisms the property
names.  It is a generator context manager without try/finally:

        token = _STATE.set(state)
        yield
        _STATE.reset(token)        # skipped when the with-body raises

`trace_function` (tracing/function.py:60) runs the user's Python function inside it.
If that function raises (any user exception, or a GuppyError such as a return type
mismatch), `_STATE` keeps pointing at the TracingState of the failed compilation, and
nothing ever calls `reset_state()`.  (`mock_builtins` does use try/finally, so the
`int`/`float`/`len` names themselves are restored correctly.)

Expected ("this holds ... when it raises"): after the failed compilation everything is
as before: `tracing_active()` is False and calling a Guppy function of the user's module
from plain Python raises GuppyComptimeError("... may only be called in a Guppy context").

Observed: `tracing_active()` stays True for the rest of the process (a later successful
comptime compilation "restores" the stale state again), and `h(1)` at module level
silently returns a GuppyObject after inserting a call node into the Hugr of the
abandoned compilation.

Nested variant (same root cause, "nested comptime compilations where any step may
raise"): a comptime function `outer` starts a nested compilation of comptime `inner`
inside try/except; `inner` raises.  Back in `outer`, `get_tracing_state()` is now the
state of the dead inner compilation, so the rest of `outer` is emitted into the wrong
Hugr and the compilation of `outer` dies with an internal `KeyError: Node(..)`.

Borderline note: what is left modified is the tracer's process-global state, not a key of
the module's `__dict__`; the observable consequence is in the user's module though (its
Guppy definitions behave differently from Python afterwards).

Exit 1 = violated, exit 0 on a correct implementation.
"""

import sys

import hugr.build.function as hf

from guppylang import guppy
from guppylang_internals.compiler.core import CompilerContext
from guppylang_internals.engine import ENGINE
from guppylang_internals.error import GuppyComptimeError, GuppyError
from guppylang_internals.tracing.state import tracing_active


def lower(d):
    ENGINE.check(d.id)
    m = hf.Module()
    CompilerContext(m).compile(ENGINE.checked[d.id])
    return m


@guppy
def h(x: int) -> int:
    return x + 1


@guppy.comptime
def bad_user_exc(x: int) -> int:
    raise ValueError("boom")


@guppy.comptime
def bad_return(x: int) -> int:
    return 1.5  # GuppyError: return type mismatch


@guppy.comptime
def good(x: int) -> int:
    return h(x)


def call_from_python():
    try:
        r = h(1)
    except GuppyComptimeError as e:
        return f"raised GuppyComptimeError: {e}"
    return f"returned {type(r).__name__}"


violations = []
snapshot = dict(globals())

print("tracing_active() at start:", tracing_active())
print("h(1) from Python at start:", call_from_python())

lower(good)
print("after successful trace   : tracing_active() =", tracing_active())
if tracing_active():
    violations.append("state active after successful trace")

for d, exc in ((bad_user_exc, ValueError), (bad_return, GuppyError)):
    # start each experiment from a clean state so that they are independent
    from guppylang_internals.tracing.state import reset_state

    reset_state()
    try:
        lower(d)
    except exc as e:
        print(f"compiling {d.wrapped.name} raised {type(e).__name__}")
    print("   tracing_active() afterwards:", tracing_active())
    print("   h(1) from Python afterwards:", call_from_python())
    if tracing_active():
        violations.append(f"tracing state still active after {d.wrapped.name} raised")
    # sequence: failed trace, then successful one -> stale state is re-installed
    lower(good)
    print("   after a later successful trace, tracing_active() =", tracing_active())

# ---- nested variant -------------------------------------------------------------
from guppylang_internals.tracing.state import get_tracing_state, reset_state

reset_state()
nested_obs = {}


@guppy.comptime
def inner(x: int) -> int:
    raise ValueError("inner fails")


@guppy.comptime
def outer(x: int) -> int:
    s0 = get_tracing_state()
    try:
        lower(inner)  # nested comptime compilation that raises
    except ValueError:
        pass
    nested_obs["same_state"] = get_tracing_state() is s0
    return x + 1


try:
    lower(outer)
    print("nested: outer compiled")
except Exception as e:  # noqa: BLE001
    print(f"nested: compiling outer raised {type(e).__name__}: {e}")
    violations.append(f"nested: outer crashed with {type(e).__name__}")
print("nested: outer still sees its own tracing state after inner raised:",
      nested_obs.get("same_state"))
if not nested_obs.get("same_state"):
    violations.append("nested: outer's tracing state replaced by the failed inner one")
reset_state()

scratch = {"snapshot", "e", "d", "exc"}
same_ns = all(
    globals().get(k) is v for k, v in snapshot.items() if k not in scratch
) and not ({"int", "float", "len"} & set(globals()))
print("module __dict__ itself unchanged:", same_ns)
if not same_ns:
    violations.append("module namespace changed")

if violations:
    print("VIOLATION:", "; ".join(violations))
    sys.exit(1)
print("ok")
