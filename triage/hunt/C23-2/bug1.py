"""C23 / finding 1 (borderline w.r.t. the wording, real mis-compilation):
the tracer's temporary shadowing of `len` (and `int`, `float`) in the user's module is
observed by the *checker* of sibling Guppy functions that are checked lazily while the
trace is running, so a user binding for a shadowed name is silently ignored.

Setup: the user's module binds `len` to its own Guppy function (a "user binding for a
shadowed name", which the property explicitly quantifies over).  A regular `@guppy`
function `h` calls `len(xs)`; a `@guppy.comptime` function `f` calls `h`.

Expected: `h` means the same thing no matter who triggers its compilation, i.e. it calls
the user's `len` (returning 42).  Compiling `h` directly does exactly that.

Observed: when `h` is reached through the comptime function `f`, `h` is parsed/checked
for the first time from inside the trace (tracing/object.py:505
`ENGINE.get_checked(self.wrapped.id)`, engine.py:184/205 build
`Globals(DEF_STORE.frames[id])`, which reads the *live* module dict).  At that moment
builtins_mock.py:69-71 (`f.__globals__.update(mock)`) has replaced the user's
`len` GuppyDefinition in the module by the mock Python function, so
checker/core.py:432-440 no longer sees a GuppyDefinition and falls back to
`builtin_defs()["len"]`.  `h` is compiled against the builtin `len` (array `__len__`,
result 3) and the user's `len` is not even part of the emitted module.  No error, no
warning; the module namespace is restored afterwards, which hides the cause.

Run: PYTHONPATH=/tmp/shim:<wt>/guppylang/src:<wt>/guppylang-internals/src python bug1.py
Exit 1 = property violated (user's module was not "untouched" as far as the rest of
the compilation is concerned), exit 0 on a correct implementation.
"""

import sys

import hugr.build.function as hf
from hugr import ops

from guppylang import guppy
from guppylang.std.builtins import array
from guppylang_internals.compiler.core import CompilerContext
from guppylang_internals.engine import ENGINE


def lower(d):
    ENGINE.check(d.id)
    m = hf.Module()
    CompilerContext(m).compile(ENGINE.checked[d.id])
    return m


def func_names(m):
    return sorted(
        m.hugr[n].op.f_name
        for n in m.hugr
        if isinstance(m.hugr[n].op, ops.FuncDefn | ops.FuncDecl)
    )


@guppy
def len(xs: array[int, 3]) -> int:  # user binding for a name the tracer shadows
    return 42


@guppy
def h(xs: array[int, 3]) -> int:
    return len(xs)  # must be the user's `len` above


@guppy.comptime
def f(xs: array[int, 3]) -> int:
    return h(xs)


user_len = globals()["len"]

direct = func_names(lower(h))
print("functions emitted when compiling h directly   :", direct)
via = func_names(lower(f))
print("functions emitted when compiling comptime f->h:", via)
print("module binding of `len` restored afterwards   :", globals()["len"] is user_len)

ok = "len" in via and "__len__" not in via
if not ok:
    print(
        "VIOLATION: inside the trace, h was checked against the tracer's shadowed "
        "namespace: it calls the builtin len (__len__) instead of the user's `len`."
    )
    sys.exit(1)
print("ok")
