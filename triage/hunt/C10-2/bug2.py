"""C10 violation: identifiers that are drawn from never-reset global counters DURING
CHECKING are embedded in function names of the HUGR, so compiling THE SAME program twice
does not give a byte-identical HUGR (and `f.check(); f.compile()` gives a different HUGR
than `f.compile()` alone, because every check/compile starts with `ENGINE.reset()` and
re-checks everything).

Expected (property C10): "Checking or compiling the same program always has the same
outcome. On success the HUGR is byte-identical."  Lowering the functions below several
times in one interpreter must give identical serialisations, in particular identical
names of the function definitions in the module.

Observed, two independent sites:

(a) a struct constructor used as a first-class function value: the module contains a
    function `S.__new__.<n>` whose `<n>` grows with every lowering
    (`S.__new__.6`, `S.__new__.7`, `S.__new__.8`).
      * guppylang_internals/definition/struct.py:289-296,
        `CheckedStructDef.generated_methods`:
            constructor_def = CustomFunctionDef(
                id=DefId.fresh(), ...,
                higher_order_func_id=GlobalConstId.fresh(f"{self.name}.__new__"), ...)
        called from `CompilationEngine.get_checked` (engine.py:210-213) EVERY time the
        struct is checked;
      * guppylang_internals/compiler/core.py:86-94: `GlobalConstId.fresh` draws from a
        class-level `itertools.count()`, `GlobalConstId.name` is `f"{base_name}.{id}"`;
      * definition/custom.py:256-257 (`ctx.declare_global_func(
        self.higher_order_func_id, ...)`) and compiler/core.py:289-290
        (`define_function(name=const_id.name, ...)`) put that name into the HUGR.
    (All other `GlobalConstId`s are drawn once at import / decoration time and are stable
    for a given definition; only this one is drawn at check time.)

(b) every `with dagger: / control(...): / power(...):` block (an experimental feature,
    enabled with `guppylang.enable_experimental_features()`): its body is outlined into a
    function called `__WithBlock__(DefId(id=<n>))` where `<n>` is a fresh `DefId` drawn
    by the checker, so the name changes with every lowering.
      * guppylang_internals/checker/modifier_checker.py:67  `def_id = DefId.fresh()`
      * guppylang_internals/nodes.py:537-539
            def __str__(self): return f"__WithBlock__({self.def_id})"
      * guppylang_internals/compiler/modifier_compiler.py:57-59
            func_builder = ...define_function(str(modified_block), ...)
    (Nested function definitions also get a fresh `DefId` per check, func_checker.py:208,
    but are named after the user's function, func_compiler.py:47, and are stable.)

The script exits 1 if the lowerings differ, 0 otherwise.  No branching is involved, so the
sandbox' incomplete `tket.bool` shim is not a problem here.
"""

import sys

import hugr.build.function as hf
from hugr import ops

import guppylang
from guppylang import guppy
from guppylang_internals.compiler.core import CompilerContext
from guppylang_internals.engine import ENGINE

guppylang.enable_experimental_features()  # modifiers, site (b), are behind this flag

dagger = object()  # only to keep linters quiet, `with dagger:` is Guppy syntax


@guppy.struct
class S:
    x: int


@guppy
def ctor_value() -> S:
    f = S
    return f(1)


@guppy
def with_block() -> None:
    with dagger:
        pass


def lower(defn):
    ENGINE.check(defn.id)
    module = hf.Module()
    CompilerContext(module).compile(ENGINE.checked[defn.id])
    return module.hugr


def func_names(h):
    return [
        h[n].op.f_name
        for n in h.descendants()
        if isinstance(h[n].op, ops.FuncDefn | ops.FuncDecl)
    ]


violated = False
for defn, label in [(ctor_value, "(a) ctor_value"), (with_block, "(b) with_block")]:
    hugrs = [lower(defn) for _ in range(3)]
    texts = [h.to_str() for h in hugrs]
    for i, h in enumerate(hugrs):
        print(f"{label}, lowering {i}: functions in module = {func_names(h)}")
    same = [t == texts[0] for t in texts]
    print(f"{label}: lowering i identical to lowering 0: {same}")
    if not all(same):
        violated = True

if violated:
    print("VIOLATION of C10: the same function lowered twice gives different HUGRs")
    sys.exit(1)
print("all lowerings byte-identical")
sys.exit(0)
