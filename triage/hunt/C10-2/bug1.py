"""C10 violation: the lowered HUGR of a function depends on a process-global counter
of temporary variable names, so compiling THE SAME program repeatedly (or after some
unrelated function has been checked) does not give a byte-identical HUGR.

Expected (property C10): "Checking or compiling the same program always has the same
outcome. On success the HUGR is byte-identical."  Lowering `tern` below N times in one
interpreter must give N identical serialisations.

Observed: the 4th lowering differs from the first three.  Every `ENGINE.check` rebuilds
the CFG and draws fresh names `%tmp<i>` from the module-level generator

    guppylang_internals/cfg/builder.py:53
        tmp_vars: Iterator[str] = (f"%tmp{i}" for i in itertools.count())

that is never reset.  The CFG compiler then orders the outputs of every basic block (and
the rows of the branch TupleSum) by the *string* of the place name:

    guppylang_internals/compiler/cfg_compiler.py:226-235
        def compare_var(p1, p2):
            return -1 if (p1.ty.linear, str(p1)) < (p2.ty.linear, str(p2)) else 1
        def sort_vars(row): return sorted(row, key=functools.cmp_to_key(compare_var))

String order is not counter order: "%tmp10" < "%tmp9" but "%tmp1" < "%tmp2".  `tern`
uses three temporaries per check, so the checks draw (0,1,2), (3,4,5), (6,7,8),
(9,10,11): in the fourth one the two temporaries that are live together at the merge of
the second/third conditional expression swap their positions in the block signatures
(`[int, float]` becomes `[float, int]`), and the HUGR is different.  The same happens for
the hidden iterator variables of nested `for` loops (`%tmp8.next` vs `%tmp10.next`), so
the effect is not limited to conditional expressions.  The result of compiling a
function therefore depends on how many temporaries were drawn before, i.e. on which other
functions were checked earlier in the interpreter session.

The script exits 1 if not all lowerings are identical, 0 otherwise.

(The sandbox' `tket.bool` shim extension has no ops, which makes lowering of any branch
fail at `read_bool()`; the first lines below only complete that stand-in extension and do
not touch guppylang.)
"""

import sys

# --- sandbox workaround only: give the stand-in `tket.bool` extension its ops ---------
import tket_exts
from hugr import tys as _tys
from hugr.ext import OpDef, OpDefSig

_ext = tket_exts.bool()
_B = _tys.ExtType(_ext.get_type("bool"))
for _name, _i, _o in [
    ("read", [_B], [_tys.Bool]),
    ("make_opaque", [_tys.Bool], [_B]),
    ("not", [_B], [_B]),
    ("and", [_B, _B], [_B]),
    ("or", [_B, _B], [_B]),
    ("xor", [_B, _B], [_B]),
    ("eq", [_B, _B], [_B]),
]:
    try:
        _ext.get_op(_name)
    except Exception:
        _ext.add_op_def(
            OpDef(_name, description="", signature=OpDefSig(_tys.FunctionType(_i, _o)))
        )
tket_exts.bool = lambda: _ext
# ---------------------------------------------------------------------------------------

import hugr.build.function as hf
from hugr import ops

from guppylang import guppy
from guppylang_internals.compiler.core import CompilerContext
from guppylang_internals.engine import ENGINE


@guppy
def tern(a: bool, b: bool, c: bool) -> float:
    return (1 if a else 2) + (3.0 if b else 4.0) + (5.0 if c else 6.0)


def lower(defn):
    ENGINE.check(defn.id)
    module = hf.Module()
    CompilerContext(module).compile(ENGINE.checked[defn.id])
    return module.hugr


def block_sigs(h):
    return [
        [str(t) for t in h[n].op.inputs]
        for n in h.descendants()
        if isinstance(h[n].op, ops.DataflowBlock)
    ]


N = 6
hugrs = [lower(tern) for _ in range(N)]
texts = [h.to_str() for h in hugrs]
same = [t == texts[0] for t in texts]
print("lowering i identical to lowering 0:", same)
bad = [i for i, s in enumerate(same) if not s]
if bad:
    i = bad[0]
    print(f"basic block input signatures, lowering 0: {block_sigs(hugrs[0])}")
    print(f"basic block input signatures, lowering {i}: {block_sigs(hugrs[i])}")
    print("VIOLATION of C10: the same function lowered twice gives different HUGRs")
    sys.exit(1)
print("all lowerings byte-identical")
sys.exit(0)
