"""C10 violation (borderline, see below): the rendered diagnostic for an invalid comptime
type argument embeds `str()` of the offending Python object, so for the SAME rejected
program it differs between interpreter runs: with the string hash seed if the object is a
set, with the heap layout if the object has the default `<... object at 0x...>` repr.

Expected (property C10): "on failure the rendered diagnostic is identical. This holds
regardless of memory layout, string hash seed or interpreter run."

Observed: checking

    SIZES = {"rows", "cols", "depth"}
    @guppy
    def f(xs: array[int, comptime(SIZES)]) -> None: ...

renders  "Comptime expression evaluating to `{'cols', 'rows', 'depth'}` is not a valid
type argument"  under one PYTHONHASHSEED and  "... `{'rows', 'cols', 'depth'}` ..."  under
another; with an instance of a plain class the message contains its memory address.

Responsible code:
  * guppylang_internals/tys/parsing.py:131-140 (`arg_from_ast`):
        v = eval_comptime_expr(...)
        ...
        raise GuppyError(IllegalComptimeTypeArgError(node, v))
  * guppylang_internals/tys/errors.py:46-52
        span_label = "Comptime expression evaluating to `{obj}` is not a valid type argument"
        obj: object
The sibling diagnostic for unsupported comptime *values*
(`IllegalComptimeExpressionError`, checker/errors/comptime_errors.py:10-13) prints only
`type(v)` and is stable.

Borderline: the variation comes from the repr of a user-supplied Python object, not from
an iteration order inside the compiler; but it is the compiler that chooses to format the
value into the diagnostic, and the property statement explicitly promises identical
rendered diagnostics across hash seeds, memory layouts and interpreter runs.

The script runs the same check in fresh interpreters with PYTHONHASHSEED=1..6 and exits 1
if the rendered diagnostics are not all identical, 0 otherwise.
"""

import os
import subprocess
import sys

CHILD = r"""
from guppylang import guppy
from guppylang.std.builtins import array, comptime
from guppylang_internals.diagnostic import DiagnosticsRenderer
from guppylang_internals.engine import DEF_STORE, ENGINE
from guppylang_internals.error import GuppyError

SIZES = {"rows", "cols", "depth"}

@guppy
def f(xs: array[int, comptime(SIZES)]) -> None:
    pass

try:
    ENGINE.check(f.id)
    print("ACCEPTED")
except GuppyError as e:
    r = DiagnosticsRenderer(DEF_STORE.sources)
    r.render_diagnostic(e.error)
    print("\n".join(r.buffer))
"""

if __name__ == "__main__":
    import tempfile

    with tempfile.TemporaryDirectory() as d:
        path = os.path.join(d, "prog.py")  # same path for every run
        with open(path, "w") as fh:
            fh.write(CHILD)
        outs = {}
        for seed in range(1, 7):
            env = dict(os.environ, PYTHONHASHSEED=str(seed))
            res = subprocess.run(
                [sys.executable, path], env=env, capture_output=True, text=True
            )
            if res.returncode != 0:
                print(res.stderr)
                sys.exit(2)
            outs[seed] = res.stdout
    distinct = sorted(set(outs.values()))
    for i, o in enumerate(distinct):
        seeds = [s for s, v in outs.items() if v == o]
        print(f"--- rendering {i} (PYTHONHASHSEED in {seeds}) ---")
        print(o)
    if len(distinct) > 1:
        print(
            f"VIOLATION of C10: {len(distinct)} different rendered diagnostics for the "
            "same rejected program"
        )
        sys.exit(1)
    print("diagnostic identical under all hash seeds")
    sys.exit(0)
