# runs bug1.py against a corrected implementation (also sets / re-saves in __enter__)
import guppylang_internals.experimental as E, guppylang.experimental as GE, runpy
def mk(val):
    class M:
        def __init__(self):
            self.saved=[E.EXPERIMENTAL_FEATURES_ENABLED]; self.fresh=True
            E.EXPERIMENTAL_FEATURES_ENABLED = val
        def __enter__(self):
            if self.fresh: self.fresh=False
            else: self.saved.append(E.EXPERIMENTAL_FEATURES_ENABLED)
            E.EXPERIMENTAL_FEATURES_ENABLED = val
        def __exit__(self,*a):
            E.EXPERIMENTAL_FEATURES_ENABLED = self.saved.pop()
    return M
E.enable_experimental_features = GE.enable_experimental_features = mk(True)
E.disable_experimental_features = GE.disable_experimental_features = mk(False)
runpy.run_path("bug1.py", run_name="__main__")
