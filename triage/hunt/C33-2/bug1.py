"""C33 finding 1: the enable/disable managers act at CONSTRUCTION, not at ENTRY.

Code responsible
----------------
guppylang-internals/src/guppylang_internals/experimental.py

    class enable_experimental_features:
        def __init__(self):                       # lines 20-23
            global EXPERIMENTAL_FEATURES_ENABLED
            self.original = EXPERIMENTAL_FEATURES_ENABLED   # saved when the object is BUILT
            EXPERIMENTAL_FEATURES_ENABLED = True            # set when the object is BUILT
        def __enter__(self):                      # lines 25-26
            pass                                            # entering does nothing
        def __exit__(...):                        # lines 28-35
            EXPERIMENTAL_FEATURES_ENABLED = self.original   # restores the BUILD-time value

(and the mirror image in disable_experimental_features, lines 44-59).

Saving and setting in `__init__` is what makes the plain call form
`enable_experimental_features()` work, but `__enter__` never re-saves / re-sets.  As soon
as the construction of a manager and its `with` are separated by any other enable/disable
(a manager stored in a variable, a list of pre-built managers handed to a parametrised
test or an ExitStack, a manager object that is entered twice) the context-manager
protocol of the object is wrong in both directions:

  S1  `with <enable manager>:` does not enable: a list program checked INSIDE the block is
      rejected with the experimental-feature error (managers built ahead of time, e.g. as
      parameters of a parametrised test, then entered).
  S2  a manager object used for a second `with` block is a no-op: the second block runs
      with features disabled.
  S3  `with <disable manager>:` does not disable: a list program checked INSIDE the block
      (left by an exception) is ACCEPTED, although it must be rejected while features are
      disabled.
  S4  one manager object nested in itself: the exit of the INNER block throws the setting
      back to the build-time value, so the rest of the OUTER `with <enable manager>:` block
      runs disabled -- the inner exit did not restore the setting that held before the
      inner block.

Expected (property C33: lists are "rejected ... unless experimental features are enabled
when the program is checked", "the enable and disable context managers restore the
previous setting on exit, including nested and exceptional exits", quantified over "all
sequences and nestings of enable/disable (as calls and as context managers, with
exceptions)"): inside `with m:` the setting is the one m stands for, and leaving an inner
block gives back the setting of the enclosing block.  An implementation that also sets
(and, on re-entry, saves) in `__enter__` passes every scenario and this script exits 0.

BORDERLINE.  For the one-line spelling `with enable_experimental_features(): ...`
construction and entry coincide and everything is fine; the violation needs a manager
object whose construction and entry are separated by another enable/disable, or one that
is entered more than once.  That is legal use of a context-manager object and lies inside
"all sequences and nestings ... as calls and as context managers", but the property text
does not say in so many words that the managers must take effect on ENTRY.  Note also
that `e = enable_experimental_features(); with e: pass` necessarily restores the value
from before the construction (it is the same program as the one-liner), so this script
deliberately only asserts (a) the setting INSIDE the blocks and (b) the setting after a
block in the cases where "before construction" and "before entry" agree.

Run:
  PYTHONPATH=/tmp/shim:/tmp/wt/C33-2/guppylang/src:/tmp/wt/C33-2/guppylang-internals/src \
      /venv/bin/python bug1.py
"""

import sys

import guppylang_internals.experimental as E
from guppylang import guppy
from guppylang.experimental import (
    disable_experimental_features,
    enable_experimental_features,
)
from guppylang_internals.error import GuppyError


@guppy
def uses_lists() -> int:
    xs = [1, 2, 3]
    return xs[0]


def flag() -> bool:
    return E.EXPERIMENTAL_FEATURES_ENABLED


def accepted() -> bool:
    """Checks the list program under the current setting."""
    try:
        uses_lists.check()
        return True
    except GuppyError as err:
        assert isinstance(err.error, E.ExperimentalFeatureError), err.error
        return False


failures: list[str] = []


def expect(cond: bool, msg: str) -> None:
    print(("ok    " if cond else "WRONG ") + msg)
    if not cond:
        failures.append(msg)


def reset() -> None:
    E.EXPERIMENTAL_FEATURES_ENABLED = False


# sanity: the ordinary spellings behave
reset()
expect(not accepted(), "baseline: lists rejected while disabled")
with enable_experimental_features():
    expect(accepted(), "baseline: lists accepted in `with enable_experimental_features():`")
expect(not flag(), "baseline: setting restored after the one-line `with`")

# S1: pre-built managers (e.g. parameters of a parametrised test), entered later
print("\nS1: managers built first, entered later")
reset()
managers = {"on": enable_experimental_features(), "off": disable_experimental_features()}
before = flag()
with managers["on"]:
    expect(flag(), "S1: setting is True inside `with <enable manager>:`")
    expect(accepted(), "S1: list program accepted inside `with <enable manager>:`")
expect(flag() == before, f"S1: setting after the block equals the one before it ({before})")

# S2: a manager object used for two consecutive blocks
print("\nS2: the same enable manager used for a second block")
reset()
e = enable_experimental_features()
with e:
    expect(accepted(), "S2: list program accepted in the first `with e:` block")
expect(not flag(), "S2: disabled again after the first block")
with e:
    expect(flag(), "S2: setting is True inside the second `with e:` block")
    expect(accepted(), "S2: list program accepted in the second `with e:` block")
expect(not flag(), "S2: disabled again after the second block")

# S3: disable manager entered later, block left by an exception
print("\nS3: `with <disable manager>:` left by an exception")
reset()
enable_experimental_features()  # call form: on
d = disable_experimental_features()  # built while on ...
enable_experimental_features()  # ... and switched on again before d is entered
before = flag()
inside_flag = inside_accepted = None
try:
    with d:
        inside_flag = flag()
        inside_accepted = accepted()
        raise RuntimeError("boom")
except RuntimeError:
    pass
expect(inside_flag is False, "S3: setting is False inside `with <disable manager>:`")
expect(
    inside_accepted is False,
    "S3: list program REJECTED inside `with <disable manager>:` (it must not be accepted)",
)
expect(flag() == before, f"S3: setting after the exceptional exit is the one from before ({before})")

# S4: the same manager object nested in itself
print("\nS4: one enable manager nested in itself")
reset()
m = enable_experimental_features()
with m:
    inner_before = flag()
    with m:
        pass
    expect(
        flag() == inner_before,
        f"S4: inner exit restores the setting from before the inner block ({inner_before})",
    )
    expect(accepted(), "S4: list program accepted in the rest of the outer `with m:` block")
expect(not flag(), "S4: disabled after both blocks")

reset()
print()
if failures:
    print(f"PROPERTY C33 VIOLATED: {len(failures)} expectation(s) failed")
    sys.exit(1)
print("all expectations hold")
sys.exit(0)
