"""C29 violation (BORDERLINE): the snippet and span label of a sub-diagnostic are
silently dropped when the parent diagnostic has no span.

`DiagnosticsRenderer.render_diagnostic` (diagnostic.py, lines 236-242) renders only
the message/title when `diag.span is None`; the loop that renders the sub-diagnostics
that carry a span (lines 258-266) sits in the `else` branch, so for a span-less parent
those children contribute nothing: neither their source line nor a single word of
their span label reaches the output.  The guard that is meant to exclude the situation,
`Diagnostic.__post_init__` (lines 121-126, "Span-less diagnostics can't have children
(FIXME)"), is dead code: `children` is `field(init=False, default_factory=list)`, hence
always empty when `__post_init__` runs, and `add_sub_diagnostic` (lines 133-145), the
only way to attach children, does not repeat the check.  So the input is accepted
and part of it is dropped without any error.

Expected (property C29: "... shows the spanned source lines ... and every word of
every label and message", quantified over "sub-diagnostics with and without spans"):
the child's source line, markers and label are rendered (or the combination is
rejected where it is constructed).  Observed: output is just the parent's message.

Borderline because the maintainers flag the combination as unsupported (FIXME) and
no diagnostic in the compiler currently builds it; it is reachable only through the
public Diagnostic API.  Exits 1 if the label words are missing from the output.
"""

import sys
from dataclasses import dataclass
from typing import ClassVar

from guppylang_internals.diagnostic import DiagnosticsRenderer, Error, Note
from guppylang_internals.span import Loc, SourceMap, Span


@dataclass(frozen=True)
class NoSpanError(Error):
    title: ClassVar[str] = "Something global went wrong"
    message: ClassVar[str] = "Explanation of the global problem"


@dataclass(frozen=True)
class DefinedHere(Note):
    span_label: ClassVar[str] = "culprit defined here"


sm = SourceMap()
sm.add_file("<f>", "def foo():\n    pass\n")
err = NoSpanError(None)  # accepted: __post_init__ sees no children yet
err.add_sub_diagnostic(DefinedHere(Span(Loc("<f>", 1, 4), Loc("<f>", 1, 7))))  # accepted
r = DiagnosticsRenderer(sm)
r.render_diagnostic(err)
out = "\n".join(r.buffer)
print(out)

missing = [w for w in "culprit defined here".split() if w not in out]
if missing or "def foo():" not in out:
    print(f"\nVIOLATION: sub-diagnostic span dropped silently; label words missing: "
          f"{missing}; source line shown: {'def foo():' in out}")
    sys.exit(1)
sys.exit(0)
