"""C29 violation: UTF-8 byte columns are used as character columns.

`span.to_span` (guppylang-internals/src/guppylang_internals/span.py, lines 116-121)
copies `ast` `col_offset` / `end_col_offset` into `Loc.column`.  Those offsets are
UTF-8 *byte* offsets, but `DiagnosticsRenderer.render_snippet` (diagnostic.py, lines
349-352 and 366) uses them as *character* columns: `" " * span.start.column` and
`len(first)` (a character count of the source line).  As soon as a non-ASCII
character (legal in Python/Guppy identifiers and string literals) precedes the
spanned text on its line,

(a) single-line span: the highlight markers are shifted to the right by one column
    per extra UTF-8 byte, i.e. they are NOT under the spanned columns;
(b) multi-line span: `Span(span.start, Loc(file, line, len(first)))` at
    diagnostic.py:349 is built with start.column (bytes) > len(first) (characters)
    and `Span.__post_init__` raises InternalGuppyError("Span: Start after end"):
    rendering is not total.  Through the normal user path this surfaces as
    "Error in sys.excepthook" and the pretty diagnostic is lost.

Expected (property C29): rendering terminates without error and the markers sit
exactly under the spanned text.  This script exits 1 if either is violated.
"""

import sys

from guppylang import guppy
from guppylang_internals.diagnostic import DiagnosticsRenderer
from guppylang_internals.engine import DEF_STORE
from guppylang_internals.error import GuppyError


@guppy
def single() -> int:
    ééééééééé = 1; return ééééééééé + undefined


@guppy
def multi() -> int:
    ééééééééééééééééééééééééé = 1; return (1,
        2)


def render(fn) -> list[str]:
    try:
        fn.check()
    except GuppyError as e:
        r = DiagnosticsRenderer(DEF_STORE.sources)
        r.render_diagnostic(e.error)
        return r.buffer
    raise RuntimeError("expected a GuppyError")


bad = False

# (a) misplaced markers
buf = render(single)
print("\n".join(buf))
src_idx = next(i for i, l in enumerate(buf) if "undefined" in l and "|" in l[:6])
src_line, mark_line = buf[src_idx], buf[src_idx + 1]
want = src_line.index("undefined")
got = mark_line.index("^")
n = len(mark_line) - len(mark_line.replace("^", ""))
print(f"\n(a) `undefined` starts at output column {want}, markers start at {got} "
      f"(count {n})")
if got != want or n != len("undefined"):
    print("    VIOLATION: highlight markers are not under the spanned columns")
    bad = True

# (b) crash on a multi-line span
print()
try:
    buf = render(multi)
    print("\n".join(buf))
    print("(b) rendered without error")
except Exception as e:  # noqa: BLE001
    print(f"(b) VIOLATION: rendering raised {type(e).__name__}: {e}")
    bad = True

sys.exit(1 if bad else 0)
