"""C29 violation (minor / somewhat borderline): a blank line among the displayed lines
switches off the removal of excess common indentation.

`DiagnosticsRenderer.render_snippet` (diagnostic.py, line 333) computes

    leading_whitespace = min(len(line) - len(line.lstrip()) for line in all_lines)

over the spanned lines AND the (up to two) preceding context lines.  An empty line
(and `SourceMap.add_file` rstrips every line, so every whitespace-only line is empty)
contributes 0, so `leading_whitespace > MAX_LEADING_WHITESPACE` is never true and
nothing is trimmed, although all non-blank lines share an indentation of 16 > 12
columns.  A blank line carries no indentation, so the *common* indentation of the
displayed lines is still 16 (cf. `textwrap.dedent`, which ignores blank lines).

Expected (property C29: "shows the spanned source lines (minus excess common
indentation)"): the same snippet with and without a blank context line is rendered
with the excess indentation removed (4 columns left).  Observed: with a blank line
directly above (or inside a multi-line span) the full 16 columns are kept, while the
otherwise identical snippet without the blank line is trimmed to 4.

The script demonstrates this (1) through the real pipeline with two nested @guppy
functions that differ only in one blank line, and (2) with a multi-line span passed
directly to the renderer.  Exits 1 if trimming is inconsistent.
"""

import sys
from dataclasses import dataclass
from typing import ClassVar

from guppylang import guppy
from guppylang_internals.diagnostic import DiagnosticsRenderer, Error
from guppylang_internals.engine import DEF_STORE
from guppylang_internals.error import GuppyError
from guppylang_internals.span import Loc, SourceMap, Span


def make():
    class A:
        class B:
            @guppy
            def no_blank() -> int:
                x = 1
                y = 2
                return x + y + undefined

            @guppy
            def blank() -> int:
                x = 1

                return x + undefined

    return A.B.no_blank, A.B.blank


def render(fn) -> list[str]:
    try:
        fn.check()
    except GuppyError as e:
        r = DiagnosticsRenderer(DEF_STORE.sources)
        r.render_diagnostic(e.error)
        return r.buffer
    raise RuntimeError("expected a GuppyError")


def indent_of(buf: list[str], needle: str) -> int:
    line = next(l for l in buf if needle in l and " | " in l)
    code = line.split(" | ", 1)[1]
    return len(code) - len(code.lstrip())


bad = False
f, g = make()
b1, b2 = render(f), render(g)
print("\n".join(b1), "\n")
print("\n".join(b2), "\n")
i1, i2 = indent_of(b1, "return"), indent_of(b2, "return")
print(f"(1) indentation shown: without blank context line {i1}, with blank line {i2}")
if i1 != i2:
    print("    VIOLATION: excess common indentation (16 cols) not removed "
          "when a blank line is displayed")
    bad = True


# (2) multi-line span with a blank line inside, direct call
@dataclass(frozen=True)
class MyError(Error):
    title: ClassVar[str] = "Some error"
    span_label: ClassVar[str] = "here"


src = " " * 20 + "foo(a,\n\n" + " " * 20 + "    b)\n"
sm = SourceMap()
sm.add_file("<f>", src)
r = DiagnosticsRenderer(sm)
r.render_diagnostic(MyError(Span(Loc("<f>", 1, 20), Loc("<f>", 3, 26))))
print()
print("\n".join(r.buffer))
i3 = indent_of(r.buffer, "foo(a,")
print(f"\n(2) indentation shown for a 20-column-indented multi-line span: {i3}")
if i3 > DiagnosticsRenderer.MAX_LEADING_WHITESPACE:
    print("    VIOLATION: excess common indentation not removed")
    bad = True

sys.exit(1 if bad else 0)
