"""C13 violation: a bound method of a generic struct forgets the receiver's type arguments.

Property C13: using a generic struct must behave exactly like using a copy of the struct
with the inferred arguments substituted textually.

Setup
    @guppy.struct
    class S[T: (Copy, Drop)]:          class M:                  # textual copy, T := int
        y: T                               y: int
        def plain(self, k: float)          def plain(self, k: float)
              -> tuple[T, float]                 -> tuple[int, float]

For `s: S[int]` the attribute `s.plain` must have the type `float -> (int, float)`, exactly
like `m.plain` for `m: M`.

Observed on the unmodified tree: `ExprSynthesizer.visit_Attribute`
(guppylang-internals/src/guppylang_internals/checker/expr_checker.py, lines 501-508) builds
the type of the bound method as

    result_ty = FunctionType(func.ty.inputs[1:], func.ty.output, func.ty.params)

i.e. it drops the `self` input but keeps *all* quantifiers, including the struct's own
parameter `T` (there is a `# TODO: Try to infer some type args based on self`).  The link
between the receiver type `S[int]` and `T` is lost, so `s.plain : forall T. float -> (T, float)`.
Consequences (each one differs from the textual copy `M`):

 (a) UNSOUND ACCEPTANCE.  `g: Callable[[float], tuple[float, float]] = s.plain` with
     `s: S[int]` passes `.check()` with the instantiation T := float although self is
     `S[int]`.  The copy `m.plain` is (correctly) rejected with a type mismatch.
 (b) UNSOUND ACCEPTANCE.  `s.plain[float]` on `s: S[int]` passes `.check()`; lowering then
     dies with an AssertionError in PartialOp.from_closure because plain[float] expects an
     `S[float]` but gets an `S[int]`.
 (c) INTERNAL ERROR ON VALID INPUT.  The *correct* program
     `g: Callable[[float], tuple[int, float]] = s.plain` passes `.check()` but lowering
     raises InternalGuppyError("Dynamic TypeApply not supported yet!"), because
     `ExprChecker.generic_visit` (expr_checker.py line 373) wraps the PartialApply node in a
     TypeApply instead of instantiating the inner function (as `instantiate_poly` would).
     The copy `m.plain` lowers fine.
 (d) REJECTS VALID INPUT.  `g = s.plain; g(1.5)` is rejected ("cannot infer T"); the copy
     is accepted.

Expected (correct implementation): (a) and (b) rejected by the type checker, (c) and (d)
accepted and lowered, exactly as for `M`.  The script exits 1 if any of these differ.
"""

import sys
from collections.abc import Callable  # noqa: F401  (used inside guppy functions)

import hugr.build.function
from guppylang import guppy
from guppylang.std.lang import Copy, Drop  # noqa: F401
from guppylang_internals.compiler.core import CompilerContext
from guppylang_internals.engine import ENGINE
from guppylang_internals.error import GuppyError


@guppy.struct
class S[T: (Copy, Drop)]:
    y: T

    @guppy
    def plain(self, k: float) -> tuple[T, float]:
        return self.y, k


@guppy.struct
class M:  # textual copy of S with T := int
    y: int

    @guppy
    def plain(self, k: float) -> tuple[int, float]:
        return self.y, k


def outcome(f) -> str:
    """'rejected' (user-level type error), 'ok' (checked and lowered), or a description
    of an internal failure."""
    try:
        f.check()
    except GuppyError as e:
        return f"rejected ({type(e.args[0]).__name__})"
    try:
        ENGINE.check(f.id)
        CompilerContext(hugr.build.function.Module()).compile(ENGINE.checked[f.id])
    except GuppyError as e:
        return f"checked, then user error in lowering ({type(e.args[0]).__name__})"
    except BaseException as e:  # noqa: BLE001
        return f"checked, then INTERNAL {type(e).__name__}: {e}"
    return "ok"


# ---- (a) wrong instantiation through an expected type --------------------------------
@guppy
def a_generic() -> float:
    s = S(4)  # S[int]
    g: Callable[[float], tuple[float, float]] = s.plain  # would need self: S[float]
    return g(1.5)[0]


@guppy
def a_copy() -> float:
    m = M(4)
    g: Callable[[float], tuple[float, float]] = m.plain
    return g(1.5)[0]


# ---- (b) wrong explicit instantiation ------------------------------------------------
@guppy
def b_generic() -> float:
    s = S(4)  # S[int]
    g = s.plain[float]
    return g(1.5)[0]


# ---- (c) correct instantiation through an expected type ------------------------------
@guppy
def c_generic() -> int:
    s = S(4)
    g: Callable[[float], tuple[int, float]] = s.plain
    return g(1.5)[0]


@guppy
def c_copy() -> int:
    m = M(4)
    g: Callable[[float], tuple[int, float]] = m.plain
    return g(1.5)[0]


# ---- (d) no annotation at all ---------------------------------------------------------
@guppy
def d_generic() -> int:
    s = S(4)
    g = s.plain
    return g(1.5)[0]


@guppy
def d_copy() -> int:
    m = M(4)
    g = m.plain
    return g(1.5)[0]


def main() -> int:
    bad = 0
    rows = [
        ("(a) S[int].plain used as float -> (float, float)", a_generic, a_copy, "rejected"),
        ("(b) S[int].plain[float]", b_generic, None, "rejected"),
        ("(c) S[int].plain used as float -> (int, float)", c_generic, c_copy, "ok"),
        ("(d) g = S[int].plain; g(1.5)", d_generic, d_copy, "ok"),
    ]
    for title, gen, copy, expected in rows:
        o_gen = outcome(gen)
        o_copy = outcome(copy) if copy is not None else "(n/a)"
        good = o_gen.startswith(expected)
        print(title)
        print(f"    generic struct S[int] : {o_gen}")
        print(f"    textual copy M        : {o_copy}")
        print(f"    expected              : {expected}   -> {'as expected' if good else 'VIOLATION'}")
        if copy is not None and not o_copy.startswith(expected):
            print("    (note: the textual copy itself does not behave as expected)")
        bad += not good
    if bad:
        print(f"\nC13 violated in {bad} of {len(rows)} scenarios: the bound method of a "
              "generic struct does not behave like the one of its textual copy.")
        return 1
    print("\nno violation observed")
    return 0


if __name__ == "__main__":
    sys.exit(main())
