"""C13 violation: a closure inside a generic function that captures a value whose type
mentions the function's type parameter is lowered outside the function's (partial)
monomorphization -> ill-formed HUGR or an internal crash.

(Needs `guppylang.enable_experimental_features()` because capturing closures are still an
experimental feature.  Related to, but different from, the already known "nested function
inside a function monomorphized twice loses one body": here ONE instantiation is enough and
the symptom is an unbound type variable / IndexError, not a lost body.)

Program
    @guppy
    def foo[T: (Copy, Drop)](x: T) -> T:
        def inner(k: int) -> int:
            y = x            # captures x: T
            return k
        inner(1)
        return x
    main: foo(2)

Expected (C13): same behaviour as the textual copy with T := int, which lowers to a
well-formed HUGR (every FuncDefn only mentions type variables it declares, the module can
be serialised).

Observed on the unmodified tree
 (1) `T` stays a HUGR type parameter of `foo`.  `compile_local_func_def`
     (guppylang-internals/src/guppylang_internals/compiler/func_compiler.py, lines 38-49)
     computes `captured_types = [v.ty.to_hugr(ctx)]` in the context of `foo` (-> `$0`) and
     defines `inner` with `module_root_builder().define_function(name, inputs, outputs)` -
     a *module level* FuncDefn with NO type parameters whose signature is `($0, int) -> int`.
     The type variable is unbound: `Package.to_bytes()` fails with "unknown var: ?_0".
 (2) If the closure body needs the type itself (e.g. calls `ident(x)`), the body is compiled
     later from the worklist under `mono_args = ()` (func_compiler.py lines 51-52:
     "Nested functions are not generic, so no need to worry about monomorphization") and
     `CompilerContext.type_var_to_hugr` (compiler/core.py line 309) does
     `self.current_mono_args[var.idx]` -> IndexError: tuple index out of range.
 (3) The same IndexError happens when `T` is monomorphized by Guppy (T occurs in the type of
     a @comptime argument), i.e. with partial monomorphization.

The script exits 1 if the generic program does not behave like its textual copy.
"""

import dataclasses
import sys

import guppylang

guppylang.enable_experimental_features()

import hugr.build.function  # noqa: E402
from guppylang import guppy  # noqa: E402
from guppylang.std.lang import Copy, Drop, comptime  # noqa: E402, F401
from guppylang_internals.compiler.core import CompilerContext  # noqa: E402
from guppylang_internals.engine import ENGINE  # noqa: E402
from guppylang_internals.std._internal.compiler.tket_exts import (  # noqa: E402
    GUPPY_EXTENSION,
)
from hugr import ext as he  # noqa: E402
from hugr import ops  # noqa: E402
from hugr import tys as ht  # noqa: E402
from hugr.package import Package  # noqa: E402


def var_indices(obj):
    """All de Bruijn indices of HUGR type/arg variables occurring in `obj`."""
    if isinstance(obj, ht.Variable | ht.VariableArg):
        yield obj.idx
    elif isinstance(obj, he.TypeDef | he.Extension | he.OpDef):
        return
    elif isinstance(obj, list | tuple):
        for x in obj:
            yield from var_indices(x)
    elif dataclasses.is_dataclass(obj) and not isinstance(obj, type):
        for f in dataclasses.fields(obj):
            yield from var_indices(getattr(obj, f.name))


def analyse(f) -> list[str]:
    """Lowers `f`; returns a list of problems (empty = well-formed as far as we check)."""
    try:
        ENGINE.check(f.id)
        mod = hugr.build.function.Module()
        CompilerContext(mod).compile(ENGINE.checked[f.id])
    except BaseException as e:  # noqa: BLE001
        return [f"lowering crashed with {type(e).__name__}: {e}"]
    problems = []
    h = mod.hugr
    for n in h:
        op = h[n].op
        if isinstance(op, ops.FuncDefn):
            used = set(var_indices(op.signature.body))
            unbound = sorted(i for i in used if i >= len(op.params))
            if unbound:
                problems.append(
                    f"FuncDefn `{op.f_name}` declares {len(op.params)} type params but its "
                    f"signature {op.signature.body} uses variable(s) {unbound}"
                )
    try:
        Package([h], [GUPPY_EXTENSION]).to_bytes()
    except BaseException as e:  # noqa: BLE001
        problems.append(f"module cannot be serialised: {type(e).__name__}: {e}")
    return problems


@guppy
def ident[A: (Copy, Drop)](a: A) -> A:
    return a


# (1) generic, closure only moves the captured value around
@guppy
def foo1[T: (Copy, Drop)](x: T) -> T:
    def inner(k: int) -> int:
        y = x
        return k

    inner(1)
    return x


@guppy
def main1() -> int:
    return foo1(2)


# textual copy of (1) with T := int
@guppy
def foo1_int(x: int) -> int:
    def inner(k: int) -> int:
        y = x
        return k

    inner(1)
    return x


@guppy
def main1_copy() -> int:
    return foo1_int(2)


# (2) closure body needs the captured type
@guppy
def foo2[T: (Copy, Drop)](x: T) -> T:
    def inner(k: int) -> int:
        y = ident(x)
        return k

    inner(1)
    return x


@guppy
def main2() -> int:
    return foo2(2)


@guppy
def foo2_int(x: int) -> int:
    def inner(k: int) -> int:
        y = ident(x)
        return k

    inner(1)
    return x


@guppy
def main2_copy() -> int:
    return foo2_int(2)


# (3) T is monomorphized by Guppy (it types a @comptime argument), single instantiation
@guppy
def foo3[T: (Copy, Drop)](c: T @ comptime, x: T) -> T:
    def inner(k: int) -> int:
        y = ident(x)
        return k

    inner(1)
    return x


@guppy
def main3() -> int:
    return foo3(7, 2)


@guppy
def foo3_int(x: int) -> int:  # copy: T := int, c := 7 (unused in the body)
    def inner(k: int) -> int:
        y = ident(x)
        return k

    inner(1)
    return x


@guppy
def main3_copy() -> int:
    return foo3_int(2)


def main() -> int:
    bad = 0
    for title, gen, copy in [
        ("(1) closure captures x: T, T kept generic in HUGR", main1, main1_copy),
        ("(2) closure calls ident(x) on the captured x: T", main2, main2_copy),
        ("(3) as (2), but T monomorphized by Guppy (T types a @comptime arg)", main3, main3_copy),
    ]:
        p_gen, p_copy = analyse(gen), analyse(copy)
        print(title)
        print("    textual copy :", "well-formed" if not p_copy else p_copy)
        if p_gen:
            print("    generic      : VIOLATION")
            for p in p_gen:
                print("        -", p)
        else:
            print("    generic      : well-formed")
        if p_gen and not p_copy:
            bad += 1
    if bad:
        print(f"\nC13 violated in {bad} scenario(s): the generic function does not lower "
              "like its textual copy.")
        return 1
    print("\nno violation observed")
    return 0


if __name__ == "__main__":
    sys.exit(main())
