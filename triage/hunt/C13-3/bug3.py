"""C13 violation: a `with dagger:` / `with control(..):` block inside a generic function is
lowered to a module-level FuncDefn WITHOUT the enclosing function's type parameters, so a
block that captures a value of generic type yields an ill-formed HUGR.

(Needs `guppylang.enable_experimental_features()`: modifiers are an experimental feature.
Same family as bug2 (helper function hoisted out of a generic function), but a different
construct and different code: compiler/modifier_compiler.py instead of func_compiler.py.)

Program
    @guppy(dagger=True)
    def bar[n: nat](qs: array[qubit, n]) -> None: ...

    @guppy
    def foo[n: nat](qs: array[qubit, n]) -> None:
        with dagger:
            bar(qs)                      # block captures qs: array[qubit, n]

    main(qs: array[qubit, 3]):  foo(qs)

Expected (C13): identical to the textual copy with n := 3, which lowers to a HUGR that
passes validation.  `n` is a nat parameter, so it is *not* monomorphized by Guppy but kept
as a HUGR type parameter of `foo` ("the rest remain generic in the HUGR").

Observed on the unmodified tree: `compile_modified_block`
(guppylang-internals/src/guppylang_internals/compiler/modifier_compiler.py, lines 39-59)

    # TODO: Shouldn't this be `to_hugr_poly` since it can contain
    # a variable with a generic type?
    hugr_ty = body_ty.to_hugr(ctx)
    ...
    func_builder = dfg.builder.module_root_builder().define_function(
        str(modified_block), hugr_ty.input, hugr_ty.output)

translates the block's type in the context of `foo` (so `n` becomes the HUGR variable #0)
but defines the block as a module-level function with no type parameters.  The resulting
FuncDefn mentions an unbound variable; `Package.to_bytes()` fails with
"unknown var: ?_0".  The same happens for a type parameter `T` captured by a
`with control(c):` block.

The script exits 1 if the generic program does not lower like its textual copy.
"""

import dataclasses
import sys

import guppylang

guppylang.enable_experimental_features()

import hugr.build.function  # noqa: E402
from guppylang import array, guppy  # noqa: E402, F401
from guppylang.std.num import nat  # noqa: E402, F401
from guppylang.std.quantum import qubit  # noqa: E402, F401
from guppylang_internals.compiler.core import CompilerContext  # noqa: E402
from guppylang_internals.engine import ENGINE  # noqa: E402
from hugr import ext as he  # noqa: E402
from hugr import ops  # noqa: E402
from hugr import tys as ht  # noqa: E402
from hugr.package import Package  # noqa: E402

dagger = object()
control = object()


def var_indices(obj):
    """All de Bruijn indices of HUGR type/arg variables occurring in `obj`."""
    if isinstance(obj, ht.Variable | ht.VariableArg):
        yield obj.idx
    elif isinstance(obj, he.TypeDef | he.Extension | he.OpDef):
        return
    elif isinstance(obj, list | tuple):
        for x in obj:
            yield from var_indices(x)
    elif dataclasses.is_dataclass(obj) and not isinstance(obj, type):
        for f in dataclasses.fields(obj):
            yield from var_indices(getattr(obj, f.name))


def analyse(f) -> list[str]:
    """Lowers `f`; returns a list of problems (empty = well-formed as far as we check)."""
    try:
        ENGINE.check(f.id)
        mod = hugr.build.function.Module()
        CompilerContext(mod).compile(ENGINE.checked[f.id])
    except BaseException as e:  # noqa: BLE001
        return [f"lowering crashed with {type(e).__name__}: {e}"]
    problems = []
    h = mod.hugr
    for n in h:
        op = h[n].op
        if isinstance(op, ops.FuncDefn):
            used = set(var_indices(op.signature.body))
            unbound = sorted(i for i in used if i >= len(op.params))
            if unbound:
                problems.append(
                    f"FuncDefn `{op.f_name}` declares {len(op.params)} type params but its "
                    f"signature {op.signature.body} uses variable(s) {unbound}"
                )
    try:
        data = Package([h], []).to_bytes()
    except BaseException as e:  # noqa: BLE001
        problems.append(f"module cannot be serialised: {type(e).__name__}: {e}")
        return problems
    try:  # full validation, if the validator shipped with selene is available
        import selene_hugr_qis_compiler as shq

        try:
            shq.check_hugr(data)
        except BaseException as e:  # noqa: BLE001
            problems.append("validation failed: " + str(e).split("Stack backtrace")[0])
    except ImportError:
        pass
    return problems


# ---- dagger block capturing array[qubit, n] -------------------------------------------
@guppy(dagger=True)
def bar[n: nat](qs: array[qubit, n]) -> None:
    pass


@guppy
def foo[n: nat](qs: array[qubit, n]) -> None:
    with dagger:
        bar(qs)


@guppy
def main_gen(qs: array[qubit, 3]) -> None:
    foo(qs)


@guppy(dagger=True)
def bar3(qs: array[qubit, 3]) -> None:
    pass


@guppy
def foo3(qs: array[qubit, 3]) -> None:  # textual copy, n := 3
    with dagger:
        bar3(qs)


@guppy
def main_copy(qs: array[qubit, 3]) -> None:
    foo3(qs)


# ---- control block capturing a value of type T ----------------------------------------
@guppy(control=True)
def cbar[T](t: T, q: qubit) -> None:
    pass


@guppy
def cfoo[T](t: T, c: qubit, q: qubit) -> None:
    with control(c):
        cbar(t, q)


@guppy
def cmain_gen(a: qubit, c: qubit, q: qubit) -> None:
    cfoo(a, c, q)


@guppy(control=True)
def cbar_q(t: qubit, q: qubit) -> None:
    pass


@guppy
def cfoo_q(t: qubit, c: qubit, q: qubit) -> None:  # textual copy, T := qubit
    with control(c):
        cbar_q(t, q)


@guppy
def cmain_copy(a: qubit, c: qubit, q: qubit) -> None:
    cfoo_q(a, c, q)


def main() -> int:
    bad = 0
    for title, gen, copy in [
        ("(1) `with dagger:` block captures qs: array[qubit, n]", main_gen, main_copy),
        ("(2) `with control(c):` block captures t: T", cmain_gen, cmain_copy),
    ]:
        p_gen, p_copy = analyse(gen), analyse(copy)
        print(title)
        print("    textual copy :", "well-formed / valid" if not p_copy else p_copy)
        if p_gen:
            print("    generic      : VIOLATION")
            for p in p_gen:
                print("        -", p)
        else:
            print("    generic      : well-formed / valid")
        if p_gen and not p_copy:
            bad += 1
    if bad:
        print(f"\nC13 violated in {bad} scenario(s): the generic function does not lower "
              "like its textual copy.")
        return 1
    print("\nno violation observed")
    return 0


if __name__ == "__main__":
    sys.exit(main())
