"""C05 hunt, finding 3 (borderline): calling an object through `__call__` silently drops the
callee expression - a function call written in the source is never executed.

Program:

    @guppy.struct
    class S:
        n: int
        @guppy
        def __call__(self: "S") -> int:
            result("called_on", self.n); return self.n

    @guppy
    def mk_s() -> S:
        result("mk_s", 1); return S(3)

    @guppy
    def main() -> int:
        return mk_s()(S(2))

Expected: Python evaluates the callee expression `mk_s()` first (side effect "mk_s"), then the
argument, then calls `type(obj).__call__(obj, S(2))`.  So either the program is rejected (one
positional argument too many for `__call__(self)`), or - if it is accepted - the call `mk_s()`
must be executed exactly once (property C05: "side-effecting operations execute as often ... as
Python's evaluation of the source").

Observed on the unmodified tree: the program is ACCEPTED, the lowered `main` contains a single
call, `S.__call__(S(2))`; the call `mk_s()` has vanished (executed 0 times) and `__call__` runs
on the ARGUMENT instead of on the receiver.  Conversely the well-formed spelling
`s(1)` for `__call__(self, x: int)` is rejected with WrongNumberOfArgsError (expected 2, got 1),
so there is no way to use `__call__` correctly.

Responsible code: guppylang-internals/src/guppylang_internals/checker/expr_checker.py
  * ExprSynthesizer.visit_Call l.758-759  `elif f := ...get_instance_func(ty, "__call__"):
                                             return f.synthesize_call(node.args, node, self.ctx)`
  * ExprChecker.visit_Call     l.345-346  (same with check_call)
    `node.func` (the already synthesized receiver expression) is not passed as the `self`
    argument; it is simply discarded together with whatever side effects it has.

Borderline note: the accepted program is one Python itself would abort with a TypeError (after
having executed `mk_s()`), because the receiver is not passed; it is reported because the property
quantifies over *accepted* programs and a call present in the source disappears without any
diagnostic.

Exit status: 1 if the program is accepted and `mk_s` is not called exactly once, else 0.
"""
import sys
import warnings

warnings.simplefilter("ignore")

import hugr.build.function
from hugr import ops

from guppylang import guppy
from guppylang.std.builtins import result
from guppylang_internals.compiler.core import CompilerContext
from guppylang_internals.engine import ENGINE
from guppylang_internals.error import GuppyError


@guppy.struct
class S:
    n: int

    @guppy
    def __call__(self: "S") -> int:
        result("called_on", self.n)
        return self.n


@guppy.struct
class T:
    n: int

    @guppy
    def __call__(self: "T", x: int) -> int:
        return self.n + x


@guppy
def mk_s() -> S:
    result("mk_s", 1)
    return S(3)


@guppy
def main() -> int:
    return mk_s()(S(2))


@guppy
def wellformed() -> int:
    t = T(1)
    return t(41)


def called_functions(defn, fname):
    ENGINE.check(defn.id)
    mod = hugr.build.function.Module()
    CompilerContext(mod).compile(ENGINE.checked[defn.id])
    h = mod.hugr
    fn = next(n for n in h if isinstance(h[n].op, ops.FuncDefn) and h[n].op.f_name == fname)
    calls, todo = [], [fn]
    while todo:
        p = todo.pop()
        for c in h.children(p):
            todo.append(c)
            if isinstance(h[c].op, ops.Call):
                for i in range(h.num_in_ports(c) + 1):
                    for prt in h.linked_ports(c.inp(i)):
                        tgt = h[prt.node].op
                        if isinstance(tgt, ops.FuncDefn | ops.FuncDecl):
                            calls.append((c.idx, tgt.f_name))
    return [name for _, name in sorted(calls)]


try:
    wellformed.check()
    print("well-formed `t(41)` with `__call__(self, x)`: accepted")
except GuppyError as e:
    print(f"well-formed `t(41)` with `__call__(self, x)`: REJECTED ({type(e.error).__name__}, "
          f"expected={getattr(e.error, 'expected', '?')} actual={getattr(e.error, 'actual', '?')})")

try:
    calls = called_functions(main, "main")
except GuppyError as e:
    print(f"`mk_s()(S(2))` rejected with {type(e.error).__name__}: fine")
    sys.exit(0)

print("`mk_s()(S(2))` accepted; functions called by the lowered `main`, in order:", calls)
n = calls.count("mk_s")
if n != 1:
    print(f"\nVIOLATION: the source calls mk_s() once, the compiled program calls it {n} times "
          "(callee expression of a `__call__` invocation is dropped)")
    sys.exit(1)
print("\nok")
sys.exit(0)
