"""C05 hunt, finding 1: a control-flow expression inside an ASSIGNMENT TARGET crashes the checker.

Program (valid Python, valid Guppy types):

    xs[f() if c else g()] = k()          # also: xs[int(c and f() > 0)] = k()
                                         #       xs[int(0 < f() < 3)] = k()
                                         #       xs[(i := f())] = k()
                                         #       xs[f() if c else g()] += 1

Expected (property C05): the program is accepted; Python evaluates `k()` first, then exactly one
of `f()` / `g()` (the conditional expression evaluates only the operand Python evaluates), then
stores.  The equivalent spelling `i = f() if c else g(); xs[i] = k()` IS accepted.

Observed on the unmodified tree: `.check()` dies with
    InternalGuppyError: BB contains `IfExp`. Should have been removed during CFG construction
(resp. `BoolOp`, "chained comparison").  No side effect is ever scheduled, the valid program is
rejected with an internal error.  (The walrus variant is rejected too, but with a - misleading -
user-facing `VarNotDefinedError` for `i`; it is printed but not counted.)

Responsible code: guppylang-internals/src/guppylang_internals/cfg/builder.py
  * CFGBuilder._build_node_value (l.160-172), used by visit_Assign / visit_AugAssign /
    visit_AnnAssign (l.174-181): only `node.value` is run through `ExprBuilder.build`; the
    expressions nested in `node.targets` / `node.target` (subscript indices) are never lifted, so
    the short-circuit / conditional nodes survive into the basic block and hit
    ExprSynthesizer.visit_IfExp / visit_BoolOp / visit_Compare / visit_NamedExpr
    (checker/expr_checker.py l.641-648, l.816-832), which raise InternalGuppyError.

Exit status: 1 if any variant crashes with a non-user-facing error, 0 if all variants are
accepted (or cleanly rejected with an ordinary GuppyError diagnostic).
"""
import sys

from guppylang import guppy
from guppylang.std.builtins import array, owned, result
from guppylang_internals.error import GuppyError, InternalGuppyError


@guppy
def f() -> int:
    result("f", 1)
    return 1


@guppy
def g() -> int:
    result("g", 1)
    return 2


@guppy
def k() -> int:
    result("k", 1)
    return 3


@guppy
def ok_spelling(xs: array[int, 4] @ owned, c: bool) -> array[int, 4]:
    i = f() if c else g()
    xs[i] = k()
    return xs


@guppy
def target_ifexp(xs: array[int, 4] @ owned, c: bool) -> array[int, 4]:
    xs[f() if c else g()] = k()
    return xs


@guppy
def target_ifexp_pure(xs: array[int, 4] @ owned, c: bool) -> array[int, 4]:
    xs[0 if c else 1] = 5
    return xs


@guppy
def target_boolop(xs: array[int, 4] @ owned, c: bool) -> array[int, 4]:
    xs[int(c and f() > 0)] = k()
    return xs


@guppy
def target_chain(xs: array[int, 4] @ owned) -> array[int, 4]:
    xs[int(0 < f() < 3)] = k()
    return xs


@guppy
def target_walrus(xs: array[int, 4] @ owned) -> array[int, 4]:
    xs[(i := f())] = k()
    return xs


@guppy
def target_augassign(xs: array[int, 4] @ owned, c: bool) -> array[int, 4]:
    xs[f() if c else g()] += 1
    return xs


bad = 0
for fn in [
    ok_spelling,
    target_ifexp,
    target_ifexp_pure,
    target_boolop,
    target_chain,
    target_walrus,
    target_augassign,
]:
    name = fn.wrapped.python_func.__name__ if hasattr(fn, "wrapped") else str(fn)
    try:
        fn.check()
        print(f"{name:20s} accepted")
    except InternalGuppyError as e:
        bad += 1
        print(f"{name:20s} INTERNAL ERROR: {e}")
    except GuppyError as e:
        print(f"{name:20s} rejected with a user-facing diagnostic: {type(e.error).__name__}")
    except Exception as e:  # any other crash
        bad += 1
        print(f"{name:20s} CRASH {type(e).__name__}: {e}")

if bad:
    print(f"\nVIOLATION: {bad} valid program(s) with a control-flow expression in an assignment "
          "target crash with an internal error")
    sys.exit(1)
print("\nok")
sys.exit(0)
