"""C05 hunt, additional BORDERLINE observation (not counted as a bug<N>): operations that panic
implicitly are not ordered w.r.t. result reports.

    result("before", 1)
    c = a // b            # arithmetic.int.idiv_s - the Hugr op traps when b == 0
    result("after", 2)

Python: with b == 0 the division raises, "after" is never reported.  Lowered Hugr: `idiv_s`
(also imod_s, trunc_s/trunc_u of `int(float)`, ...) is a plain dataflow op without any state-order
edge (may_have_side_effect -> False, compiler/core.py l.574-595), so nothing orders it between
the two result ops: a scheduler may emit "after" before the trap ("nothing after a panic runs").
Borderline because the property enumerates explicit `panic` calls; explicit panics (bounds
checks, unwrap, panic()/exit()) ARE ordered correctly.

Exit status: 1 if the trapping division is unordered w.r.t. the following result op, else 0.
"""
import sys
import warnings

warnings.simplefilter("ignore")

import hugr.build.function
from hugr import ops

from guppylang import guppy
from guppylang.std.builtins import result
from guppylang_internals.compiler.core import CompilerContext
from guppylang_internals.engine import ENGINE


@guppy
def main(a: int, b: int) -> int:
    result("before", 1)
    c = a // b
    result("after", 2)
    return c


ENGINE.check(main.id)
mod = hugr.build.function.Module()
CompilerContext(mod).compile(ENGINE.checked[main.id])
h = mod.hugr


def succ(n):
    out = set(h.outgoing_order_links(n))
    for i in range(h.num_out_ports(n)):
        out.update(p.node for p in h.linked_ports(n.out(i)))
    return out


def reaches(a, b):
    seen, todo = set(), [a]
    while todo:
        n = todo.pop()
        if n == b:
            return True
        if n not in seen:
            seen.add(n)
            todo.extend(succ(n))
    return False


div = after = None
for n in h:
    op = h[n].op
    if isinstance(op, ops.ExtOp):
        nm = op.op_def().qualified_name()
        if nm.endswith("idiv_s"):
            div = n
        if nm.endswith("result_int") and "after" in str(op.args[0]):
            after = n
print("idiv_s node", div, "result('after') node", after)
if div is not None and after is not None and not reaches(div, after):
    print("BORDERLINE VIOLATION: the trapping division is not ordered before result('after')")
    sys.exit(1)
print("ok")
sys.exit(0)
