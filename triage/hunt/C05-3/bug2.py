"""C05 hunt, finding 2: qsystem measurement / qubit release are not ordered w.r.t. qubit allocation.

Program (public API `guppylang.std.qsystem.measure` - "Measure a qubit destructively" - and
`guppylang.std.qsystem.qfree`):

    q  = qubit()
    m  = qsystem.measure(q)      # tket.qsystem.Measure : consumes (releases) q
    q2 = qubit()                 # tket.quantum.QAlloc
    qsystem.qfree(q2)            # tket.qsystem.QFree   : releases q2
    q3 = qubit()                 # tket.quantum.QAlloc
    discard(q3)
    return m

Expected (property C05: "side-effecting operations execute ... in the same order as Python's
evaluation of the source; these are function calls, result reports, panics, and qubit allocation
and MEASUREMENT"): the lowered dataflow graph forces
    QAlloc -> Measure -> QAlloc -> QFree -> QAlloc -> QFree,
exactly as it does for the same program written with `guppylang.std.quantum.measure` / `discard`
(ops tket.quantum.MeasureFree / tket.quantum.QFree); core.py itself states the reason: "Qubit
allocation and deallocation have the side-effect of changing the number of available free qubits".

Observed on the unmodified tree: the nodes `tket.qsystem.Measure` and `tket.qsystem.QFree` get NO
state-order edge at all; the order chain is QAlloc -> QAlloc -> QAlloc -> QFree and there is no
path (data or order) from the measurement / the release to the allocation that follows it in the
source.  Hugr semantics therefore allow all three allocations to run before the first qubit is
measured/released (3 live qubits instead of 1: the program fails on a 1- or 2-qubit device although
the source never holds more than one qubit).

Responsible code: guppylang-internals/src/guppylang_internals/compiler/core.py
  * EXTENSION_OPS_WITH_SIDE_EFFECTS (l.559-571) lists only the tket.quantum spellings
    (QAlloc, TryQAlloc, QFree, MeasureFree); the qsystem ops emitted by
    guppylang/std/qsystem/__init__.py l.116 (`Measure`) and l.141 (`QFree`) are missing, so
    may_have_side_effect (l.574-595) answers False and track_hugr_side_effects (l.599-664)
    never links them.

Sandbox note: the installed tket-exts (0.14) no longer ships the op `tket.qsystem.Measure` that
this source tree (pinned to tket-exts ~0.12) uses, which makes `import guppylang.std.qsystem` fail
for an unrelated reason; the script registers that one op definition if (and only if) it is missing.
`tket.qsystem.QFree` exists natively, so the `qfree` half of the finding needs no shim at all.

Exit status: 1 if a qsystem measurement / release is unordered w.r.t. the following QAlloc, else 0.
"""
import sys
import warnings

warnings.simplefilter("ignore")

import hugr.build.function
from hugr import ops
from hugr import tys as ht
from hugr.ext import OpDef, OpDefSig

from guppylang_internals.std._internal.compiler.tket_exts import QSYSTEM_EXTENSION

if "Measure" not in QSYSTEM_EXTENSION.operations:  # sandbox only, see docstring
    QSYSTEM_EXTENSION.add_op_def(
        OpDef("Measure", OpDefSig(ht.FunctionType([ht.Qubit], [ht.Bool])))
    )
try:  # sandbox only: the shimmed tket.bool extension has no ops
    from guppylang_internals.std._internal.compiler.tket_bool import OpaqueBool
    from guppylang_internals.std._internal.compiler.tket_exts import BOOL_EXTENSION

    for nm, sig in {
        "read": ht.FunctionType([OpaqueBool], [ht.Bool]),
        "make_opaque": ht.FunctionType([ht.Bool], [OpaqueBool]),
    }.items():
        if nm not in BOOL_EXTENSION.operations:
            BOOL_EXTENSION.add_op_def(OpDef(nm, OpDefSig(sig)))
except Exception:
    pass

from guppylang import guppy
from guppylang.std import qsystem
from guppylang.std.quantum import discard, measure, qubit
from guppylang_internals.compiler.core import CompilerContext, may_have_side_effect
from guppylang_internals.engine import ENGINE


@guppy
def with_quantum() -> bool:
    q = qubit()
    m = measure(q)
    q2 = qubit()
    discard(q2)
    q3 = qubit()
    discard(q3)
    return m


@guppy
def with_qsystem() -> bool:
    q = qubit()
    m = qsystem.measure(q)
    q2 = qubit()
    qsystem.qfree(q2)
    q3 = qubit()
    discard(q3)
    return m


def lower(defn):
    ENGINE.check(defn.id)
    mod = hugr.build.function.Module()
    CompilerContext(mod).compile(ENGINE.checked[defn.id])
    return mod.hugr


def qname(op):
    if isinstance(op, ops.ExtOp):
        return op.op_def().qualified_name()
    if isinstance(op, ops.Custom):
        return f"{op.extension}.{op.op_name}"
    return None


def successors(h, n):
    out = set(h.outgoing_order_links(n))
    for i in range(h.num_out_ports(n)):
        for p in h.linked_ports(n.out(i)):
            out.add(p.node)
    return out


def reaches(h, src, dst):
    seen, todo = set(), [src]
    while todo:
        n = todo.pop()
        if n == dst:
            return True
        if n in seen:
            continue
        seen.add(n)
        todo.extend(successors(h, n))
    return False


def analyse(defn, label):
    h = lower(defn)
    fn = next(n for n in h if isinstance(h[n].op, ops.FuncDefn) and h[n].op.f_name == label)
    # qubit ops of the (single) basic block, in insertion = source order
    nodes = []
    todo = [fn]
    while todo:
        p = todo.pop()
        for c in h.children(p):
            nm = qname(h[c].op)
            if nm and nm.split(".")[-1] in ("QAlloc", "Measure", "MeasureFree", "QFree"):
                nodes.append((c, nm))
            todo.append(c)
    nodes.sort(key=lambda t: t[0].idx)
    print(f"--- {label}")
    bad = 0
    for i, (n, nm) in enumerate(nodes):
        order_out = [x.idx for x in h.outgoing_order_links(n)]
        print(f"  node {n.idx:3d} {nm:28s} may_have_side_effect={may_have_side_effect(h[n].op)!s:5s} "
              f"order edges to {order_out}")
        if nm.endswith(("Measure", "MeasureFree", "QFree")):
            nxt = next(((m, mn) for m, mn in nodes[i + 1:] if mn.endswith("QAlloc")), None)
            if nxt and not reaches(h, n, nxt[0]):
                bad += 1
                print(f"      !! nothing orders node {n.idx} ({nm}) before the following "
                      f"QAlloc node {nxt[0].idx}")
    return bad


ref = analyse(with_quantum, "with_quantum")
bad = analyse(with_qsystem, "with_qsystem")
assert ref == 0, "reference program (tket.quantum ops) is expected to be fully ordered"
if bad:
    print(f"\nVIOLATION: {bad} qsystem measurement/release op(s) are not ordered before the qubit "
          "allocation that follows them in the source")
    sys.exit(1)
print("\nok")
sys.exit(0)
