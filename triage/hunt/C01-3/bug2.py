"""C01 violation: a comptime argument whose value is (or contains) a list crashes the
compiler with `TypeError: unhashable type: 'list'`.

Inputs (both accepted by `check()`):

    def foo(xs: frozenarray[int, 3] @ comptime) -> int:  return xs[0]
    def main1() -> int:  return foo(comptime([1, 2, 3]))

    T = guppy.type_var("T", copyable=True, droppable=True)
    def ident(x: T @ comptime) -> T:  return x
    def main2() -> int:  return ident(comptime([1, 2, 3]))[0]

Expected: the checker accepts these programs (a Python list is the comptime
representation of a `frozenarray`; `python_value_to_hugr` even knows how to lower it), so
lowering must succeed -- or the checker must reject them with a `GuppyError`.

Observed: `CompilerContext.compile` raises `TypeError: unhashable type: 'list'`, an
internal error, not a diagnostic.

Cause: guppylang_internals/compiler/core.py, `CompilerContext.build_compiled_def`, line
210 (`if (def_id, mono_args) not in self.compiled:`) and 211-212. Non-nat const
arguments are monomorphized (`partially_monomorphize_args`, line 533-534), and the
resulting `ConstArg(ConstValue(ty, value=[1, 2, 3]))` is used as part of a dict key. The
frozen dataclasses hash their `value` field, which is the raw Python list.
"""
import sys

# --- sandbox preamble: the stub `tket.bool` extension of /tmp/shim lacks its ops --------
import semver
import tket_exts
from hugr import tys
from hugr.ext import ExplicitBound, Extension, OpDef, OpDefSig, TypeDef


def _bool_ext() -> Extension:
    e = Extension("tket.bool", semver.Version(0, 1, 0))
    td = e.add_type_def(
        TypeDef("bool", description="", params=[], bound=ExplicitBound(tys.TypeBound.Copyable))
    )
    ob = tys.ExtType(td)
    for name, i, o in [("read", [ob], [tys.Bool]), ("make_opaque", [tys.Bool], [ob]),
                       ("not", [ob], [ob]), ("and", [ob, ob], [ob]), ("or", [ob, ob], [ob]),
                       ("xor", [ob, ob], [ob]), ("eq", [ob, ob], [ob])]:
        e.add_op_def(OpDef(name, OpDefSig(tys.FunctionType(i, o))))
    return e


_E = _bool_ext()
tket_exts.bool = lambda: _E
# -----------------------------------------------------------------------------------------

import hugr.build.function as hf  # noqa: E402

from guppylang import guppy  # noqa: E402
from guppylang.std.builtins import comptime, frozenarray  # noqa: E402
from guppylang_internals.compiler.core import CompilerContext  # noqa: E402
from guppylang_internals.engine import ENGINE  # noqa: E402
from guppylang_internals.error import GuppyError  # noqa: E402

T = guppy.type_var("T", copyable=True, droppable=True)


@guppy
def foo(xs: frozenarray[int, 3] @ comptime) -> int:
    return xs[0]


@guppy
def main1() -> int:
    return foo(comptime([1, 2, 3]))


@guppy
def ident(x: T @ comptime) -> T:
    return x


@guppy
def main2() -> int:
    return ident(comptime([1, 2, 3]))[0]


@guppy
def bar(t: tuple[int, frozenarray[float, 2]] @ comptime) -> float:
    return t[1][0]


@guppy
def main3() -> float:
    return bar(comptime((1, [1.0, 2.0])))


bad = 0
for name, defn in [("main1", main1), ("main2", main2), ("main3", main3)]:
    try:
        ENGINE.check(defn.id)
    except GuppyError as e:
        # A correct implementation may also decide to reject such arguments up front
        print(f"{name}: rejected by the checker ({type(e.error).__name__}) - fine")
        continue
    print(f"{name}: check(): accepted")
    try:
        CompilerContext(hf.Module()).compile(ENGINE.checked[defn.id])
        print(f"{name}: lowered without an exception")
    except GuppyError as e:
        print(f"{name}: user-facing error while lowering: {type(e.error).__name__}")
    except Exception as e:  # noqa: BLE001
        import traceback

        fr = traceback.extract_tb(e.__traceback__)
        where = next(
            (f for f in reversed(fr) if "guppylang_internals" in f.filename), fr[-1]
        )
        print(f"{name}: INTERNAL ERROR {type(e).__name__}: {e}  "
              f"(at {where.filename.split('src/')[-1]}:{where.lineno} in {where.name})")
        bad += 1

if bad:
    print("VIOLATION of C01: an accepted program makes the compiler crash")
    sys.exit(1)
print("ok")
sys.exit(0)
