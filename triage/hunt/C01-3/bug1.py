"""C01 violation: two live variables whose names differ only by leading zeros in a
digit group (`x1` / `x01`) make the block signatures of a CFG disagree.

Input (well-typed, accepted by `check()`):

    def f(b: bool) -> int:
        x1 = 1
        x01 = 2.0
        if b:
            y = x1 + int(x01)      # successor 1 uses x1 first
        else:
            y = int(x01) + x1      # successor 0 uses x01 first
        return y

Expected: the lowered HUGR validates; on every CFG edge the row a block outputs equals
the row its successor takes as input.

Observed: the branching block outputs `[x01: float64, x1: int]` (or the reverse) while
one of its successors was built with the opposite input order, so `hugr validate`
reports "The dataflow signature of two connected basic blocks does not match". With two
places of the *same* type (e.g. qubits `q1`, `q01`) the HUGR still validates but the two
values are silently swapped on that edge.

Cause: guppylang_internals/compiler/cfg_compiler.py, `compare_var` / `_name_key` /
`sort_vars` (lines 221-247). `_name_key` turns the digit groups of a place name into
`int`s, so `x1` and `x01` get the *same* key `['x', 1, '']`. `compare_var` then answers
"greater" for both argument orders, i.e. the order is no longer total, and
`sorted(...)` just keeps the incoming order. That incoming order is the liveness order
of the respective successor (`bb.sig.output_rows[0]` for the outputs in `compile_bb`
line 133-135/157, the successor's own `input_row` at line 98), which differs between
the two successors. Block outputs and block inputs are therefore "sorted" differently.
"""
import os
import subprocess
import sys
import tempfile

# --- sandbox preamble: the stub `tket.bool` extension of /tmp/shim lacks its ops --------
import semver
import tket_exts
from hugr import tys
from hugr.ext import ExplicitBound, Extension, OpDef, OpDefSig, TypeDef


def _bool_ext() -> Extension:
    e = Extension("tket.bool", semver.Version(0, 1, 0))
    td = e.add_type_def(
        TypeDef("bool", description="", params=[], bound=ExplicitBound(tys.TypeBound.Copyable))
    )
    ob = tys.ExtType(td)
    for name, i, o in [("read", [ob], [tys.Bool]), ("make_opaque", [tys.Bool], [ob]),
                       ("not", [ob], [ob]), ("and", [ob, ob], [ob]), ("or", [ob, ob], [ob]),
                       ("xor", [ob, ob], [ob]), ("eq", [ob, ob], [ob])]:
        e.add_op_def(OpDef(name, OpDefSig(tys.FunctionType(i, o))))
    return e


_E = _bool_ext()
tket_exts.bool = lambda: _E
# -----------------------------------------------------------------------------------------

import hugr.build.function as hf  # noqa: E402
from hugr import ops  # noqa: E402
from hugr.package import Package  # noqa: E402

from guppylang import guppy  # noqa: E402
from guppylang_internals.compiler.core import CompilerContext  # noqa: E402
from guppylang_internals.engine import ENGINE  # noqa: E402


@guppy
def f(b: bool) -> int:
    x1 = 1
    x01 = 2.0
    if b:
        y = x1 + int(x01)
    else:
        y = int(x01) + x1
    return y


f.check()  # the checker accepts the program
print("check(): accepted")

ENGINE.check(f.id)
ctx = CompilerContext(hf.Module())
ctx.compile(ENGINE.checked[f.id])
h = ctx.module.hugr
print("lowering: no exception")

# 1. Compare the block signatures along every control-flow edge (pure Python).
bad = 0
for node in h:
    op = h[node].op
    if not isinstance(op, ops.DataflowBlock):
        continue
    for i in range(h.num_out_ports(node)):
        for tgt in h.linked_ports(node.out(i)):
            top = h[tgt.node].op
            if isinstance(top, ops.DataflowBlock):
                expected = list(top.inputs)
            else:
                continue
            got = list(op.nth_outputs(i))
            if got != expected:
                bad += 1
                print(f"edge {node} --{i}--> {tgt.node}: block outputs {[str(t) for t in got]} "
                      f"but successor expects {[str(t) for t in expected]}")

# 2. Ask the HUGR validator, if it is available.
cli = "/venv/bin/hugr"
if os.path.exists(cli):
    from guppylang_internals.compiler.hugr_extension import EXTENSION as GUPPY_EXT

    with tempfile.NamedTemporaryFile(suffix=".hugr", delete=False) as fh:
        fh.write(Package([h], [_E, GUPPY_EXT]).to_bytes())
    r = subprocess.run([cli, "validate", fh.name], capture_output=True, text=True)
    os.unlink(fh.name)
    out = (r.stdout + r.stderr).split("Stack backtrace")[0].strip()
    print(f"hugr validate: rc={r.returncode}\n{out[:900]}")
    if r.returncode != 0:
        bad += 1

if bad:
    print("VIOLATION of C01: an accepted program lowers to an ill-formed HUGR")
    sys.exit(1)
print("ok: all block signatures agree")
sys.exit(0)
