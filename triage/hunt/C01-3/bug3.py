"""BORDERLINE for C01 (the HUGR is valid, but a value is silently dropped): the comptime
float arguments `0.0` and `-0.0` share one monomorphized function body.

Input (accepted by `check()`):

    def foo(x: float @ comptime) -> float:  return x
    def main() -> float:  return 1.0 / foo(comptime(0.0)) + 1.0 / foo(comptime(-0.0))

Expected: non-nat comptime arguments are monomorphized, one function instance per
*distinct* argument value. `0.0` and `-0.0` are distinct IEEE values (1/x is +inf resp.
-inf), so the lowered module must contain the constant `-0.0` in an instance of `foo`
(on its own, `foo(comptime(-0.0))` is lowered to an instance returning `-0.0`).

Observed: only one `foo` instance is emitted, it returns `0.0`, and both calls go to it
(`+inf + +inf` instead of `+inf + -inf`). If the two calls are swapped, both return
`-0.0`. Nothing is reported.

Cause: guppylang_internals/compiler/core.py, `CompilerContext.build_compiled_def`, lines
210-213: the instance cache `self.compiled` is keyed by `(def_id, mono_args)` and
`mono_args` compares the raw Python values of `ConstValue`; `0.0 == -0.0` and
`hash(0.0) == hash(-0.0)`, so the second call finds the instance of the first one.
(Same dictionary key as in bug2.py.)
"""
import math
import sys

# --- sandbox preamble: the stub `tket.bool` extension of /tmp/shim lacks its ops --------
import semver
import tket_exts
from hugr import tys
from hugr.ext import ExplicitBound, Extension, OpDef, OpDefSig, TypeDef


def _bool_ext() -> Extension:
    e = Extension("tket.bool", semver.Version(0, 1, 0))
    td = e.add_type_def(
        TypeDef("bool", description="", params=[], bound=ExplicitBound(tys.TypeBound.Copyable))
    )
    ob = tys.ExtType(td)
    for name, i, o in [("read", [ob], [tys.Bool]), ("make_opaque", [tys.Bool], [ob]),
                       ("not", [ob], [ob]), ("and", [ob, ob], [ob]), ("or", [ob, ob], [ob]),
                       ("xor", [ob, ob], [ob]), ("eq", [ob, ob], [ob])]:
        e.add_op_def(OpDef(name, OpDefSig(tys.FunctionType(i, o))))
    return e


_E = _bool_ext()
tket_exts.bool = lambda: _E
# -----------------------------------------------------------------------------------------

import hugr.build.function as hf  # noqa: E402
from hugr import ops  # noqa: E402
from hugr.std.float import FloatVal  # noqa: E402

from guppylang import guppy  # noqa: E402
from guppylang.std.builtins import comptime  # noqa: E402
from guppylang_internals.compiler.core import CompilerContext  # noqa: E402
from guppylang_internals.engine import ENGINE  # noqa: E402


@guppy
def foo(x: float @ comptime) -> float:
    return x


@guppy
def main() -> float:
    return 1.0 / foo(comptime(0.0)) + 1.0 / foo(comptime(-0.0))


ENGINE.check(main.id)
print("check(): accepted")
ctx = CompilerContext(hf.Module())
ctx.compile(ENGINE.checked[main.id])
h = ctx.module.hugr

instances = [n for n in h if isinstance(h[n].op, ops.FuncDefn) and h[n].op.f_name == "foo"]
zeros = []
for n in h:
    op = h[n].op
    if isinstance(op, ops.Const) and isinstance(op.val, FloatVal) and op.val.v == 0.0:
        zeros.append(op.val.v)
print(f"instances of foo: {len(instances)}")
print(f"zero constants in the module: {zeros}")
has_neg_zero = any(math.copysign(1.0, z) < 0 for z in zeros)
has_pos_zero = any(math.copysign(1.0, z) > 0 for z in zeros)
if not (has_neg_zero and has_pos_zero):
    print("VIOLATION (borderline for C01): foo(0.0) and foo(-0.0) were merged into one "
          "instance, one of the two constants is gone")
    sys.exit(1)
print("ok: both constants are present")
sys.exit(0)
