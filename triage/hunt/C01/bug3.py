"""C01 violation: a non-finite float constant is accepted by the checker and lowered to a `ConstF64` that HUGR does not
admit (the validator aborts on it).

Programs (accepted by the checker):

    @guppy
    def lit() -> float:
        return 1e400                  # a legal Python float literal; its value is `inf`

    @guppy
    def ct() -> float:
        return comptime(math.inf)     # same with `math.nan`

Expected: either the checker rejects the constant (as it does for integers that do not fit the HUGR type:
`_int_bounds_check` in `python_value_to_guppy_type`, checker/expr_checker.py:1383-1385, raises `IntOverflowError`), or
lowering produces a HUGR that validates, e.g. by computing the value at run time.

Observed: `python_value_to_guppy_type` accepts every float (`case float(): return float_type()`,
checker/expr_checker.py:1386-1387) and `python_value_to_hugr` emits it verbatim (`case float(): return
hugr.std.float.FloatVal(v)`, compiler/expr_compiler.py:790-791).  HUGR's `arithmetic.float.types` extension defines
`ConstF64` for finite values only (hugr-core `ConstF64::new`: "ConstF64 must have a finite value"); loading/validating the
package panics in hugr-core (`hugr validate` dies with SIGABRT, exit code -6/134) instead of answering "valid".

Borderline note: the defect is a missing range check on a constant (checker side) rather than a mis-wiring, but the
property statement covers it literally: the program is accepted and the resulting package does not pass HUGR validation.

Exit status: 1 if an accepted program lowers to a HUGR with a non-finite ConstF64 / that does not validate, 0 otherwise.

Run:  PYTHONPATH=/tmp/shim:<wt>/guppylang/src:<wt>/guppylang-internals/src /venv/bin/python bug3.py
"""

import builtins
import shutil
import subprocess
import sys

# ---------------------------------------------------------------------------------------------------------------------
# Sandbox preamble (not part of the finding): the shim's stub `tket.bool` extension has no ops, so nothing with a branch
# can be lowered; and hugr-py here is newer than the worktree expects (`val.Extension` lost the `extensions` keyword).
import tket_exts
from hugr import tys as _ht
from hugr.ext import OpDef as _OpDef, OpDefSig as _OpDefSig

_orig_bool, _cache = tket_exts.bool, []


def _bool():
    if not _cache:
        e = _orig_bool()
        if not e.operations:
            b = _ht.ExtType(e.get_type("bool"))
            for name, sig in {
                "read": _ht.FunctionType([b], [_ht.Bool]),
                "make_opaque": _ht.FunctionType([_ht.Bool], [b]),
                "not": _ht.FunctionType([b], [b]),
                "eq": _ht.FunctionType([b, b], [b]),
                "and": _ht.FunctionType([b, b], [b]),
                "or": _ht.FunctionType([b, b], [b]),
                "xor": _ht.FunctionType([b, b], [b]),
            }.items():
                e.add_op_def(_OpDef(name, _OpDefSig(sig), description=name))
        _cache.append(e)
    return _cache[0]


tket_exts.bool = _bool

import inspect as _inspect
import hugr.val as _hv

if "extensions" not in _inspect.signature(_hv.Extension.__init__).parameters:
    _oi = _hv.Extension.__init__
    _hv.Extension.__init__ = lambda self, name, typ, val, extensions=None: _oi(self, name, typ, val)
# ---------------------------------------------------------------------------------------------------------------------

import hugr.build.function as hf
from hugr import ops
from hugr.package import Package

from guppylang import guppy
from guppylang_internals.compiler.core import CompilerContext
from guppylang_internals.engine import ENGINE
from guppylang_internals.error import GuppyError

print = builtins.print

import math  # noqa: E402

from hugr.std.float import FloatVal  # noqa: E402

from guppylang.std.builtins import comptime  # noqa: E402, F401

INF = math.inf
NAN = math.nan


@guppy
def lit() -> float:
    return 1e400


@guppy
def ct() -> float:
    return comptime(INF)


@guppy
def ct_nan() -> float:
    return comptime(NAN)


@guppy
def control() -> float:
    # Control: a finite constant must come out as valid HUGR, otherwise this script's verdicts mean nothing
    return 1e300


def non_finite_consts(h):
    """Independent of the validator: `Const` nodes holding a ConstF64 that is not finite."""
    bad = []
    for node in h:
        op = h[node].op
        if isinstance(op, ops.Const) and isinstance(op.val, FloatVal) and not math.isfinite(op.val.v):
            bad.append((node, op.val.v))
    return bad


def cli_validate(h):
    exe = shutil.which("hugr") or "/venv/bin/hugr"
    import guppylang_internals.std._internal.compiler.tket_exts as te
    from guppylang_internals.compiler.hugr_extension import EXTENSION as GE

    exts = {GE.name: GE}
    for n in dir(te):
        if n.endswith("_EXTENSION"):
            exts[getattr(te, n).name] = getattr(te, n)
    for n in dir(tket_exts):
        try:
            e = getattr(tket_exts, n)()
            exts.setdefault(e.name, e)
        except Exception:
            pass
    try:
        p = subprocess.run([exe, "validate", "-"], input=Package([h], list(exts.values())).to_bytes(), capture_output=True)
    except OSError as e:
        return None, f"(hugr CLI not available: {e})"
    return p.returncode, p.stderr.decode().split("Stack backtrace")[0].strip()



def lower_and_judge(fn) -> bool:
    """Returns True iff `fn` is accepted and lowers to an invalid HUGR."""
    defn = fn.wrapped
    print(f"--- {defn.name}")
    try:
        ENGINE.check(defn.id)
    except GuppyError as e:
        print("checker REJECTS:", type(e.error).__name__, "-> property not exercised")
        return False
    print("checker ACCEPTS")
    mod = hf.Module()
    try:
        CompilerContext(mod).compile(ENGINE.checked[defn.id])
    except GuppyError as e:
        print("lowering refuses with a user error:", type(e.error).__name__)
        return False
    print("lowered without exception")
    bad = non_finite_consts(mod.hugr)
    for node, v in bad:
        print(f"  {node}: Const(ConstF64 {v}) -- not a HUGR value")
    rc, err = cli_validate(mod.hugr)
    print("hugr validate exit code:", rc)
    if err:
        print("\n".join(err.splitlines()[:4]))
    return bool(bad or rc)


def main() -> int:
    if lower_and_judge(control):
        print("control failed: cannot judge")
        return 2
    results = [lower_and_judge(fn) for fn in (lit, ct, ct_nan)]
    if any(results):
        print("VIOLATION of C01: accepted program lowered to a HUGR that does not validate")
        return 1
    print("ok: valid HUGR")
    return 0


if __name__ == "__main__":
    sys.exit(main())
