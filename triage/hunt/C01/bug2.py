"""C01 violation: passing a function that returns `None` (or a tuple) for a `Callable[..., U]` parameter of a generic
function lowers to mis-typed HUGR (a wire connects two different function types).

Program (accepted by the checker):

    T = guppy.type_var("T"); U = guppy.type_var("U")

    @guppy
    def apply(f: Callable[[T], U], x: T) -> U:
        return f(x)

    @guppy
    def show(x: int) -> None: ...            # any function returning None

    @guppy
    def pair(x: int) -> tuple[int, int]: ... # any function returning a tuple

    @guppy
    def main1() -> None:  apply(show, 1)            # U := None
    @guppy
    def main2() -> int:   a, b = apply(pair, 1) ... # U := tuple[int, int]

Expected: both callers type-check (`int -> None` unifies with `T -> U`), so by C01 they must lower to HUGR that validates.

Observed: Guppy has two HUGR encodings of a function type whose result is `None` / a tuple.
  * `FunctionType._to_hugr_function_type` (tys/ty.py:511-512) flattens the result into a row: `type_to_row(self.output)`
    gives `[]` for `None` and `[int, int]` for `tuple[int, int]`.  This is the type of the `FuncDefn` of `show` / `pair`
    and of the `LoadFunction` that `visit_GlobalName` (compiler/expr_compiler.py:265-276) emits for the argument:
    `[int] -> []` resp. `[int] -> [int, int]`.
  * `FunctionType.instantiate_partial` (tys/ty.py:556-561) marks a `None`/tuple that is substituted for a type variable
    as `preserve=True`, and `type_to_row` (tys/ty.py:759-765) then keeps it as ONE port.  This is the type the call of
    `apply` is instantiated with (`visit_GlobalCall`, expr_compiler.py:440-455 / `compile_call`,
    definition/function.py:256-271): parameter 0 is `[int] -> [Unit]` resp. `[int] -> [Tuple(int, int)]`.
`_compile_call_args` (expr_compiler.py:457-470) wires the one into the other without any conversion, and the checker does
not reject the call (the analogous guard `instantiation_needs_unpacking`, expr_compiler.py:763-768, only looks at the
result type of an explicit `TypeApply`, not at `Callable` arguments).  HUGR validation fails with
"Cannot connect [int(6)] -> [] to [int(6)] -> [Unit]" / "... [int(6)] -> [int(6), int(6)] to [int(6)] -> [[int(6), int(6)]]".

Exit status: 1 if an accepted program lowers to an invalid HUGR (property violated), 0 otherwise.

Run:  PYTHONPATH=/tmp/shim:<wt>/guppylang/src:<wt>/guppylang-internals/src /venv/bin/python bug2.py
"""

import builtins
import shutil
import subprocess
import sys

# ---------------------------------------------------------------------------------------------------------------------
# Sandbox preamble (not part of the finding): the shim's stub `tket.bool` extension has no ops, so nothing with a branch
# can be lowered; and hugr-py here is newer than the worktree expects (`val.Extension` lost the `extensions` keyword).
import tket_exts
from hugr import tys as _ht
from hugr.ext import OpDef as _OpDef, OpDefSig as _OpDefSig

_orig_bool, _cache = tket_exts.bool, []


def _bool():
    if not _cache:
        e = _orig_bool()
        if not e.operations:
            b = _ht.ExtType(e.get_type("bool"))
            for name, sig in {
                "read": _ht.FunctionType([b], [_ht.Bool]),
                "make_opaque": _ht.FunctionType([_ht.Bool], [b]),
                "not": _ht.FunctionType([b], [b]),
                "eq": _ht.FunctionType([b, b], [b]),
                "and": _ht.FunctionType([b, b], [b]),
                "or": _ht.FunctionType([b, b], [b]),
                "xor": _ht.FunctionType([b, b], [b]),
            }.items():
                e.add_op_def(_OpDef(name, _OpDefSig(sig), description=name))
        _cache.append(e)
    return _cache[0]


tket_exts.bool = _bool

import inspect as _inspect
import hugr.val as _hv

if "extensions" not in _inspect.signature(_hv.Extension.__init__).parameters:
    _oi = _hv.Extension.__init__
    _hv.Extension.__init__ = lambda self, name, typ, val, extensions=None: _oi(self, name, typ, val)
# ---------------------------------------------------------------------------------------------------------------------

import hugr.build.function as hf
from hugr import ops
from hugr.package import Package

from guppylang import guppy
from guppylang_internals.compiler.core import CompilerContext
from guppylang_internals.engine import ENGINE
from guppylang_internals.error import GuppyError

print = builtins.print

from collections.abc import Callable  # noqa: E402

T = guppy.type_var("T")
U = guppy.type_var("U")


@guppy
def apply(f: Callable[[T], U], x: T) -> U:
    return f(x)


@guppy
def show(x: int) -> None:
    pass


@guppy
def pair(x: int) -> tuple[int, int]:
    return x, x


@guppy
def main1() -> None:
    apply(show, 1)


@guppy
def main2() -> int:
    a, b = apply(pair, 1)
    return a + b


def mistyped_wires(h):
    """Independent of the validator: every value wire must have the same type at both of its ends."""
    bad = []
    for node in h:
        for i in range(h.num_out_ports(node)):
            out = node.out(i)
            try:
                if not isinstance(h.port_kind(out), _ht.ValueKind):
                    continue
                src_ty = h.port_type(out)
            except Exception:
                continue
            for tgt in h.linked_ports(out):
                try:
                    tgt_ty = h.port_type(tgt)
                except Exception:
                    continue
                if tgt_ty is not None and src_ty != tgt_ty:
                    bad.append((out, h[node].op.name(), src_ty, tgt, h[tgt.node].op.name(), tgt_ty))
    return bad


def cli_validate(h):
    exe = shutil.which("hugr") or "/venv/bin/hugr"
    import guppylang_internals.std._internal.compiler.tket_exts as te
    from guppylang_internals.compiler.hugr_extension import EXTENSION as GE

    exts = {GE.name: GE}
    for n in dir(te):
        if n.endswith("_EXTENSION"):
            exts[getattr(te, n).name] = getattr(te, n)
    for n in dir(tket_exts):
        try:
            e = getattr(tket_exts, n)()
            exts.setdefault(e.name, e)
        except Exception:
            pass
    try:
        p = subprocess.run([exe, "validate", "-"], input=Package([h], list(exts.values())).to_bytes(), capture_output=True)
    except OSError as e:
        return None, f"(hugr CLI not available: {e})"
    return p.returncode, p.stderr.decode().split("Stack backtrace")[0].strip()



def lower_and_judge(fn) -> bool:
    """Returns True iff `fn` is accepted and lowers to an invalid HUGR."""
    defn = fn.wrapped
    print(f"--- {defn.name}")
    try:
        ENGINE.check(defn.id)
    except GuppyError as e:
        print("checker REJECTS:", type(e.error).__name__, "-> property not exercised")
        return False
    print("checker ACCEPTS")
    mod = hf.Module()
    try:
        CompilerContext(mod).compile(ENGINE.checked[defn.id])
    except GuppyError as e:
        print("lowering refuses with a user error:", type(e.error).__name__)
        return True
    print("lowered without exception")
    bad = mistyped_wires(mod.hugr)
    for out, sname, sty, tgt, tname, tty in bad:
        print(f"  wire {out} ({sname}) : {sty}")
        print(f"    -> {tgt} ({tname}) : {tty}")
    rc, err = cli_validate(mod.hugr)
    print("hugr validate exit code:", rc)
    if err:
        print(err)
    return bool(bad or rc)


def main() -> int:
    results = [lower_and_judge(fn) for fn in (main1, main2)]
    if any(results):
        print("VIOLATION of C01: accepted program lowered to mis-typed HUGR")
        return 1
    print("ok: valid HUGR")
    return 0


if __name__ == "__main__":
    sys.exit(main())
