"""C21 violation: borrowed arguments of calls to `barrier(...)` and to `@guppy.overload`ed
functions are NOT handed back to the comptime caller.

Program (identical body in both modes):

    def main(q: qubit, r: qubit) -> None:
        barrier(q, r)            # `barrier` borrows its arguments

    def main2(q: qubit) -> None:
        f(q); f(q)               # f = guppy.overload(f1, f2), f1(q: qubit) borrows q

Expected: as `@guppy` functions both check and lower fine (q, r are only borrowed and
are implicitly returned).  The `@guppy.comptime` versions must behave identically.

Observed: the comptime versions are rejected with
    "Value with non-copyable type `qubit` was already used ... as an argument to `barrier`"
i.e. a call that only borrows its argument consumes it in comptime mode.

Responsible code: guppylang_internals/tracing/function.py, trace_call, lines 173-193:

        # If the input types of the function aren't known, we can't check this.
        if len(func.ty.inputs) != 0:
            for inp, arg, var in zip(func.ty.inputs, args, arg_vars, strict=True):
                if InputFlags.Inout in inp.flags: ... update_packed_value(...)

For callables whose declared `ty` has no inputs (custom-checked varargs functions such as
`barrier`, and `OverloadedFunctionDef`, whose `ty` is a dummy `() -> None`), the whole
"update inouts" step is skipped, although the type checker did mark the arguments as
borrowed (the compiled call reassigns the places `state.dfg[var]`).  The Python-side
GuppyObjects stay flagged as used, so the next use (or the implicit return of a borrowed
parameter in trace_function) fails.  (Later upstream releases fixed exactly this by resolving
the overload / asking the call checker for `compute_input_flags`.)
"""
import sys

import hugr.build.function as hf
from guppylang import guppy
from guppylang.std.builtins import barrier
from guppylang.std.quantum import h, qubit
from guppylang_internals.compiler.core import CompilerContext
from guppylang_internals.engine import ENGINE


def lower(f):
    ENGINE.check(f.id)
    ctx = CompilerContext(hf.Module())
    ctx.compile(ENGINE.checked[f.id])
    return ctx.module.hugr


@guppy
def f1(q: qubit) -> None:
    h(q)


@guppy
def f2(q: qubit, r: qubit) -> None:
    h(q)
    h(r)


@guppy.overload(f1, f2)
def f(): ...


@guppy
def g_barrier(q: qubit, r: qubit) -> None:
    barrier(q, r)


@guppy.comptime
def c_barrier(q: qubit, r: qubit) -> None:
    barrier(q, r)


@guppy
def g_overload(q: qubit) -> None:
    f(q)
    f(q)


@guppy.comptime
def c_overload(q: qubit) -> None:
    f(q)
    f(q)


def outcome(fn):
    try:
        lower(fn)
        return "accepted"
    except Exception as e:  # noqa: BLE001
        return f"REJECTED: {type(e).__name__}: " + " ".join(str(e).split())[:230]


bad = False
for name, g, c in [("barrier", g_barrier, c_barrier), ("overload", g_overload, c_overload)]:
    rg, rc = outcome(g), outcome(c)
    print(f"[{name}] @guppy          : {rg}")
    print(f"[{name}] @guppy.comptime : {rc}")
    if rg == "accepted" and rc != "accepted":
        bad = True

if bad:
    print("VIOLATION of C21: a borrowing call consumes its arguments in comptime mode only")
    sys.exit(1)
print("ok")
