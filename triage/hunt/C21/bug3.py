"""C21 violation: the `int(...)` / `float(...)` builtins crash on struct values in comptime mode.

Program (identical body in both modes):

    @guppy.struct
    class S:
        a: int
        @guppy
        def __int__(self: "S") -> int: return self.a
        @guppy
        def __float__(self: "S") -> float: return 1.5
        @guppy
        def __len__(self: "S") -> int: return 3

    def to_int(s: S) -> int:     return int(s)
    def to_float(s: S) -> float: return float(s)
    def length(s: S) -> int:     return len(s)         # control: works in both modes

Expected: `int(s)` / `float(s)` call `S.__int__` / `S.__float__`, exactly as in the `@guppy`
versions (which check and lower fine) and exactly as `len(s)` does in comptime mode.

Observed: the comptime versions die with a raw Python
    TypeError: __int__ returned non-int (type GuppyObject)
    TypeError: GuppyStructObject.__float__ returned non-float (type GuppyObject)

Responsible code: guppylang_internals/tracing/builtins_mock.py, lines 42-53:

        class float(...):  def __new__(cls, x=0.0, /):
            if isinstance(x, GuppyObject): return x.__float__()
            return builtins.float(x)
        class int(...):    def __new__(cls, x=0, /, *args, **kwargs):
            if isinstance(x, GuppyObject): return x.__int__(*args, **kwargs)
            return builtins.int(x, *args, **kwargs)

A struct value is a `GuppyStructObject`, which is not a `GuppyObject`, so the mocks fall
through to the real builtins; these call `DunderMixin.__int__/__float__`, get a traced
GuppyObject back and raise TypeError.  The `len` mock three lines below tests
`GuppyObject | GuppyStructObject` and therefore works.
"""
import sys

import hugr.build.function as hf
from guppylang import guppy
from guppylang_internals.compiler.core import CompilerContext
from guppylang_internals.engine import ENGINE


def lower(f):
    ENGINE.check(f.id)
    ctx = CompilerContext(hf.Module())
    ctx.compile(ENGINE.checked[f.id])
    return ctx.module.hugr


@guppy.struct
class S:
    a: int

    @guppy
    def __int__(self: "S") -> int:
        return self.a

    @guppy
    def __float__(self: "S") -> float:
        return 1.5

    @guppy
    def __len__(self: "S") -> int:
        return 3


@guppy
def g_int(s: S) -> int:
    return int(s)


@guppy.comptime
def c_int(s: S) -> int:
    return int(s)


@guppy
def g_float(s: S) -> float:
    return float(s)


@guppy.comptime
def c_float(s: S) -> float:
    return float(s)


@guppy
def g_len(s: S) -> int:
    return len(s)


@guppy.comptime
def c_len(s: S) -> int:
    return len(s)


def outcome(fn):
    try:
        lower(fn)
        return "accepted"
    except Exception as e:  # noqa: BLE001
        return f"FAILED: {type(e).__name__}: " + " ".join(str(e).split())[:200]


bad = False
for name, g, c in [("int", g_int, c_int), ("float", g_float, c_float), ("len", g_len, c_len)]:
    rg, rc = outcome(g), outcome(c)
    print(f"[{name}(s)] @guppy          : {rg}")
    print(f"[{name}(s)] @guppy.comptime : {rc}")
    if rg == "accepted" and rc != "accepted":
        bad = True

if bad:
    print("VIOLATION of C21: int()/float() on a struct work in @guppy but crash in @guppy.comptime")
    sys.exit(1)
print("ok")
