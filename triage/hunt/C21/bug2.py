"""C21 violation: after a borrowing call, `update_packed_value` rewires *aliased* Python-side
GuppyObjects, so a plain `int` variable silently changes its value in comptime mode.

Program (identical body in both modes, valid in both):

    @guppy
    def modify(arr: array[int, 2]) -> None:      # borrows arr
        arr[0] = 100

    def main(x: int, y: int) -> int:
        arr = array(0, y)
        arr[0] = x
        modify(arr)
        return x

Expected: both modes return the argument `x` (ints are values; `modify` only changes the
array).  In the traced Hugr the function output must be wired to input port 0.

Observed: in the `@guppy.comptime` version the output is wired to port 0 of the array
`unpack` placed after the call of `modify`, i.e. the function returns arr[0] == 100.
Likewise, with `arr[0] = x; arr[1] = x; modify(arr); return arr[0]` the comptime version
returns element 1 of the array (the old x) instead of element 0 (100), because both list
slots hold the same GuppyObject and the second update overwrites the first.

Responsible code: guppylang_internals/tracing/unpacking.py, update_packed_value,
lines 157-163 (reached from lines 188-196 and from trace_call in tracing/function.py:184):

        case GuppyObject() as v_obj:
            assert v_obj._ty == obj._ty
            v_obj._wire = obj._use_wire(None)      # mutates the shared object in place

During tracing an array is a Python list whose entries are the very GuppyObjects the user
stored there (`arr[0] = x` stores the object bound to `x`).  Updating the wire of that object
in place instead of replacing the list entry (`vs[i] = elem_obj`) changes every other
reference to the object - here the local variable `x`.
"""
import sys

import hugr.build.function as hf
from guppylang import guppy
from guppylang.std.builtins import array
from guppylang_internals.compiler.core import CompilerContext
from guppylang_internals.engine import ENGINE
from hugr import InPort, ops


def lower(f):
    ENGINE.check(f.id)
    ctx = CompilerContext(hf.Module())
    ctx.compile(ENGINE.checked[f.id])
    return ctx.module.hugr


def output_source(h, name):
    """(op name, port) feeding output 0 of function `name`."""
    for n in h.descendants():
        op = h[n].op
        if isinstance(op, ops.FuncDefn) and op.f_name == name:
            out = h.children(n)[1]
            (p,) = h.linked_ports(InPort(out, 0))
            src = h[p.node].op
            nm = type(src).__name__
            if isinstance(src, ops.ExtOp):
                nm = src._op_def.name
            return nm, p.offset
    raise KeyError(name)


@guppy
def modify(arr: array[int, 2]) -> None:
    arr[0] = 100


@guppy
def g_main(x: int, y: int) -> int:
    arr = array(0, y)
    arr[0] = x
    modify(arr)
    return x


@guppy.comptime
def c_main(x: int, y: int) -> int:
    arr = array(0, y)
    arr[0] = x
    modify(arr)
    return x


@guppy
def g_dup(x: int) -> int:
    arr = array(0, 0)
    arr[0] = x
    arr[1] = x
    modify(arr)
    return arr[0]


@guppy.comptime
def c_dup(x: int) -> int:
    arr = array(0, 0)
    arr[0] = x
    arr[1] = x
    modify(arr)
    return arr[0]


g_main.check()
g_dup.check()
print("@guppy versions type-check")

bad = False
src = output_source(lower(c_main), "c_main")
print("comptime `return x`      is wired from", src, "(expected ('Input', 0))")
if src != ("Input", 0):
    bad = True
src = output_source(lower(c_dup), "c_dup")
print("comptime `return arr[0]` is wired from", src, "(expected element 0 of the updated array)")
if src == ("unpack", 1):
    bad = True

if bad:
    print("VIOLATION of C21: the comptime function returns a different value than the @guppy one")
    sys.exit(1)
print("ok")
