import random, sys
from hugr.package import Package
from guppylang.emulator import EmulatorBuilder
from selene_sim.instance import SeleneInstance
from selene_sim.backends.bundled_simulators import Coinflip, Quest, Stim
from selene_sim import DepolarizingErrorModel, IdealErrorModel, SimpleRuntime
try:
    from selene_sim import SoftRZRuntime
except Exception: SoftRZRuntime=None
p = Package.from_bytes(open("/tmp/hunt/C28/2/pkg.hugr","rb").read())
em = EmulatorBuilder().build(p, n_qubits=2)
gc = SeleneInstance._get_component_config
def fp(c):
    return repr((gc(c.simulator,c.seed), gc(c.error_model,c.seed), gc(c.runtime,c.seed), c.n_qubits, c.shots,
       c.shot_offset, c.shot_increment, c.n_processes, c.seed))
def r(x): return [[v for _,v in s.entries] for s in x.run().results]
rng = random.Random(int(sys.argv[1]) if len(sys.argv)>1 else 0)
shared_sims = [Quest(), Stim(), Coinflip(), Quest(random_seed=11), Stim(random_seed=12)]
shared_em = [DepolarizingErrorModel(p_1q=0.2,p_2q=0.2,p_meas=0.2,p_init=0.2), DepolarizingErrorModel(random_seed=5,p_1q=0.3,p_2q=0.2,p_meas=0.2,p_init=0.2), IdealErrorModel()]
configs = [(em, "em", fp(em), None)]
bad = 0
def derive(c, name):
    k = rng.randrange(12)
    if k==0: v=rng.choice([None,0,1,2,2**40]); return c.with_seed(v), f"{name}.with_seed({v})"
    if k==1: v=rng.choice([1,2,3,5]); return c.with_shots(v), f"{name}.with_shots({v})"
    if k==2: i=rng.randrange(len(shared_sims)); return c.with_simulator(shared_sims[i]), f"{name}.with_simulator(S{i})"
    if k==3: return c.statevector_sim(), name+".sv()"
    if k==4: return c.coinflip_sim(), name+".cf()"
    if k==5: return c.stabilizer_sim(), name+".stab()"
    if k==6: v=rng.choice([0,1,7]); return c.with_shot_offset(v), f"{name}.off({v})"
    if k==7: v=rng.choice([1,2]); return c.with_shot_increment(v), f"{name}.inc({v})"
    if k==8: v=rng.choice([1,2,3]); return c.with_n_processes(v), f"{name}.np({v})"
    if k==9: i=rng.randrange(len(shared_em)); return c.with_error_model(shared_em[i]), f"{name}.em(E{i})"
    if k==10: v=rng.choice([2,3]); return c.with_n_qubits(v), f"{name}.nq({v})"
    if k==11: v=rng.choice([1,4]); return c.with_seed(v), f"{name}.with_seed({v})"
for step in range(int(sys.argv[2]) if len(sys.argv)>2 else 60):
    i = rng.randrange(len(configs))
    c, name, f, res = configs[i]
    if rng.random() < 0.6:
        n, nn = derive(c, name)
        configs.append((n, nn, fp(n), None))
    else:
        out = r(c)
        if c.seed is not None:
            if res is None: configs[i] = (c,name,f,out)
            elif res != out:
                bad += 1; print("RESULT CHANGED", name, res, out)
    for (c2,n2,f2,_) in configs:
        if fp(c2) != f2:
            bad += 1; print("FINGERPRINT CHANGED", n2, f2, fp(c2))
# final rerun of all seeded
for (c,name,f,res) in configs:
    if c.seed is not None and res is not None:
        out = r(c)
        if out != res: bad+=1; print("RESULT CHANGED (final)", name, res, out)
print("configs", len(configs), "bad", bad)
