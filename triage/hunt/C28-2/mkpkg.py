from guppylang import guppy
from guppylang.std.quantum import qubit, h, measure, cx
from guppylang.std.builtins import result
@guppy
def main() -> None:
    for i in range(4):
        q = qubit()
        h(q)
        result("c", measure(q).read())
p = main.compile()
open("/tmp/hunt/C28/2/pkg.hugr","wb").write(p.to_bytes())
print("ok")
