from hugr.package import Package
from guppylang.emulator import EmulatorBuilder
from selene_sim.backends.bundled_simulators import Coinflip, Quest, Stim
from selene_sim import MetricStore
from selene_quantum_replay_plugin import QuantumReplayPlugin
from selene_classical_replay_plugin import ClassicalReplayPlugin
p = Package.from_bytes(open("/tmp/hunt/C28/2/pkg.hugr","rb").read())
em = EmulatorBuilder().build(p, n_qubits=2)
def r(x): return [[v for _,v in s.entries] for s in x.run().results]
a = em.with_seed(3).with_shots(4)
ra = r(a); print(ra)
# failing run
try: print(r(a.with_n_qubits(0)))
except Exception as e: print("err", type(e).__name__, str(e)[:80])
print(r(a)==ra)
# abandoned stream
g = a._run_instance(); s = next(g); 
print(r(a)==ra)
del g
# replay
qr = QuantumReplayPlugin(simulator=Quest(), measurements=[[True,False]]*4)
b = em.with_simulator(qr).with_shots(4)
c = b.with_seed(5); rc = r(c); print(rc)
d = b.with_seed(6); print(r(d)); print(r(c)==rc, qr.random_seed, c.simulator.random_seed, d.simulator.random_seed)
cr = ClassicalReplayPlugin(measurements=[[True,False,True,True]]*4)
print(r(a.with_simulator(cr)))
ms = MetricStore()
h = a.with_event_hook(ms); print(r(h)==ra, r(h.with_shots(2))==ra[:2], r(h)==ra, r(a)==ra)
