"""C15 violation: an overloaded call crashes with an internal AssertionError instead of
moving on to the next variant, although a later variant accepts the arguments.

Setup:  g1(xs: array[T, n]) -> None        (generic)
        g2(xs: array[int, 0]) -> None
        @guppy.overload(g1, g2) def ov(): ...      @guppy.overload(g2, g1) def ov_rev(): ...

Expected: `ov(array())`: g1 cannot accept the empty array literal (T cannot be inferred), g2
accepts it (`g2(array())` and `ov_rev(array())` type-check), so the call must resolve to g2.

Observed: `ov(array())` dies with a bare AssertionError from the type checker.

Responsible code: guppylang_internals/definition/overloaded.py lines 88 / 100
    with suppress(GuppyError): return defn.synthesize_call(args, node, ctx)
Only GuppyError counts as "this variant does not accept". Trying g1 runs
expr_checker.type_check_args, whose sanity check (expr_checker.py lines 998-1000)
    assert all(set.issubset(inp.ty.unsolved_vars, subst.keys()) for inp in func_ty.inputs)
fails because checking `array()` against `array[?T, ?n]` succeeds without solving ?T. The
AssertionError is not a GuppyError, so it escapes the overload loop and g2 is never tried.

Borderline note: the assertion itself is a defect of plain generic calls (`g1(array())`
crashes the same way instead of reporting "cannot infer T"); what C15 adds is that a VALID
program - one where a listed variant accepts - is not accepted, and that the outcome depends
on the variant order in a way other than "first applicable wins".
"""
import sys

from guppylang import guppy
from guppylang.std.builtins import array

T = guppy.type_var("T")
n = guppy.nat_var("n")


@guppy.declare
def g1(xs: array[T, n]) -> None: ...


@guppy.declare
def g2(xs: array[int, 0]) -> None: ...


@guppy.overload(g1, g2)
def ov(): ...


@guppy.overload(g2, g1)
def ov_rev(): ...


@guppy
def direct_g2() -> None:
    g2(array())


@guppy
def reversed_overload() -> None:
    ov_rev(array())


@guppy
def overload() -> None:
    ov(array())


def checks(f):
    try:
        f.check()
    except Exception as e:  # noqa: BLE001
        print(f"  {f.wrapped.name}: FAILED with {type(e).__name__} {str(e)[:100]!r}")
        return type(e).__name__
    print(f"  {f.wrapped.name}: accepted")
    return None


print("controls (g2 accepts the argument):")
if checks(direct_g2) or checks(reversed_overload):
    print("control failed - inconclusive")
    sys.exit(2)
print("overload (g1, g2):")
res = checks(overload)
if res is None:
    print("OK")
    sys.exit(0)
print(f"VIOLATION: {res} although variant g2 accepts the call")
sys.exit(1)
