"""C15 violation: a call that reaches an overloaded function through an operator protocol
(`s[i]`, truthiness `if s:`) is rejected although a variant accepts the arguments.

Setup:  struct B with methods get_i(self, i: int) -> int and get_b(self, b: bool) -> bool and
        @guppy.overload(get_i, get_b) def __getitem__(self): ...
        (struct A is the control: a plain, non-overloaded __getitem__ with get_i's signature)

Expected: `s[1]` is a call of B.__getitem__ with arguments (s, 1); the first variant get_i
accepts, so the expression type-checks with type int - exactly like `s.__getitem__(1)`
(which IS accepted) and like `a[1]` on the control struct A.

Observed: `s[1]` is rejected with BadProtocolError/BadSignature ("not subscriptable ...
`__getitem__` has signature `() -> None`"), same for `if s:` with an overloaded __bool__.
No variant is ever consulted.

Responsible code: guppylang_internals/checker/expr_checker.py,
ExprSynthesizer.synthesize_instance_func, line 630
    if exp_sig and unify(exp_sig, func.ty.unquantified()[0], {}) is None: raise BadProtocolError
`func` is the OverloadedFunctionDef and `func.ty` is the dummy signature `() -> None`
given to it by _Guppy.overload (guppylang/decorator.py line 365); the pre-check against the
protocol's expected signature therefore always fails before
OverloadedFunctionDef.synthesize_call (line 636) could pick a variant. Affects every protocol
use that passes exp_sig: __getitem__/__setitem__ (subscripts), __bool__ (to_bool),
__iter__/__next__ (for loops). Binary operators (`s + 1`, no exp_sig) work.

Borderline note: the call is implicit (operator syntax), but it is a call of a function
declared with @guppy.overload and it is rejected although a variant accepts.
"""
import sys

from guppylang import guppy


@guppy.struct
class A:
    x: int

    @guppy
    def __getitem__(self: "A", i: int) -> int:
        return self.x + i

    @guppy
    def __bool__(self: "A") -> bool:
        return True


@guppy.struct
class B:
    x: int

    @guppy
    def get_i(self: "B", i: int) -> int:
        return self.x + i

    @guppy
    def get_b(self: "B", b: bool) -> bool:
        return b

    @guppy.overload(get_i, get_b)
    def __getitem__(self): ...

    @guppy
    def truthy(self: "B") -> bool:
        return True

    @guppy
    def truthy2(self: "B", x: int) -> bool:
        return True

    @guppy.overload(truthy, truthy2)
    def __bool__(self): ...

    @guppy.overload(get_i, get_b)
    def __add__(self): ...


@guppy
def control_subscript(a: A) -> int:
    return a[1]


@guppy
def control_bool(a: A) -> int:
    if a:
        return 1
    return 0


@guppy
def explicit_method_call(s: B) -> int:
    return s.__getitem__(1)


@guppy
def binary_operator(s: B) -> int:
    return s + 1


@guppy
def subscript(s: B) -> int:
    return s[1]


@guppy
def truthiness(s: B) -> int:
    if s:
        return 1
    return 0


def checks(f):
    try:
        f.check()
    except Exception as e:  # noqa: BLE001
        err = getattr(e, "error", None)
        print(f"  {f.wrapped.name}: REJECTED with {type(e).__name__} "
              f"{type(err).__name__ if err else ''}")
        return False
    print(f"  {f.wrapped.name}: accepted")
    return True


print("controls (non-overloaded dunder; overloaded dunder called explicitly / via `+`):")
ctrl = [checks(f) for f in
        (control_subscript, control_bool, explicit_method_call, binary_operator)]
if not all(ctrl):
    print("control failed - inconclusive")
    sys.exit(2)
print("overloaded dunder reached through the protocol:")
ok = [checks(subscript), checks(truthiness)]
if all(ok):
    print("OK")
    sys.exit(0)
print("VIOLATION: call rejected although the first variant accepts the arguments")
sys.exit(1)
