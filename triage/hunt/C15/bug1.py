"""C15 violation: an overloaded call with a BORROWED argument inside a @guppy.comptime
function does not behave like the direct call of the selected variant.

Setup:  v1(q: qubit) -> None   (q is borrowed, i.e. implicitly handed back to the caller)
        v2(x: int)   -> None
        @guppy.overload(v1, v2) def ov(): ...

Expected: inside a comptime (traced) function `ov(q)` resolves to v1 and then behaves
exactly as `v1(q)`: q is handed back and stays usable (`v1(q); v1(q)` compiles fine, and a
borrowed parameter q can be returned to the caller at the end of the function).

Observed: after `ov(q)` the qubit stays marked as consumed:
  * `ov(q); ov(q)`  -> GuppyComptimeError "Value with non-copyable type `qubit` was already
                       used ... as an argument to `ov`"
  * a single `ov(q)` on a borrowed parameter -> TracingReturnError "Argument `q` is borrowed,
                       so it is implicitly returned to the caller. Value ... was already used"

Responsible code: guppylang_internals/tracing/function.py, trace_call, lines 176-177
    if len(func.ty.inputs) != 0:
        for inp, arg, var in zip(func.ty.inputs, args, arg_vars, strict=True):
            if InputFlags.Inout in inp.flags: ... update_packed_value(...)
`func` is the OverloadedFunctionDef, whose `.ty` is the dummy signature `() -> None`
installed by _Guppy.overload (guppylang/decorator.py line 365, `dummy_sig`), not the
signature of the variant that OverloadedFunctionDef.synthesize_call selected. Hence the
inout write-back is skipped for every overloaded call.
"""
import sys

import hugr.build.function as hf
from guppylang import guppy, qubit
from guppylang_internals.compiler.core import CompilerContext
from guppylang_internals.engine import ENGINE


@guppy.declare
def v1(q: qubit) -> None: ...


@guppy.declare
def v2(x: int) -> None: ...


@guppy.overload(v1, v2)
def ov(): ...


@guppy.comptime
def direct(q: qubit) -> None:
    v1(q)
    v1(q)


@guppy.comptime
def via_overload_once(q: qubit) -> None:
    ov(q)


@guppy.comptime
def via_overload_twice(q: qubit) -> None:
    ov(q)
    ov(q)


def compiles(f):
    try:
        ENGINE.check(f.id)
        CompilerContext(hf.Module()).compile(ENGINE.checked[f.id])
    except Exception as e:  # noqa: BLE001
        msg = getattr(getattr(e, "error", None), "msg", None) or str(e)
        print(f"  {f.wrapped.name}: FAILED with {type(e).__name__}: "
              + " ".join(str(msg).split())[:220])
        return False
    print(f"  {f.wrapped.name}: compiled")
    return True


print("control (direct calls of the variant):")
if not compiles(direct):
    print("control failed - inconclusive")
    sys.exit(2)
print("same program through the overload:")
ok = [compiles(via_overload_once), compiles(via_overload_twice)]
if all(ok):
    print("OK: overloaded call behaves like the direct call")
    sys.exit(0)
print("VIOLATION: ov(q) resolves to v1 but does not hand the borrowed qubit back")
sys.exit(1)
