from harness import *
from guppylang import guppy
from guppylang.std.builtins import comptime, nat, owned
from guppylang_internals.tracing.state import tracing_active
from guppylang_internals.error import GuppyError, GuppyComptimeError

@guppy
def one() -> int:
    return 1

@guppy.comptime
def bad() -> int:
    raise ValueError("boom")

@guppy.comptime
def bad2() -> int:
    return 1.5

@guppy
def user() -> int:
    return comptime(len([one()]))

def try_check(d):
    try:
        d.check()
        return "ok"
    except BaseException as e:
        return f"{type(e).__name__}: {str(e)[:200]}"

print("fresh:", try_check(user), tracing_active())
try:
    lower(bad2)
except BaseException as e:
    print("bad failed:", type(e).__name__, e)
print("tracing_active after failed compile:", tracing_active())
print("after:", try_check(user))
try:
    print(one())
except BaseException as e:
    print(type(e).__name__, e)
