import random, sys, subprocess, os
from pool import *
names = list(POOL)
base = {}
for n in names:
    r = subprocess.run([sys.executable, "pool.py", n], capture_output=True, text=True, env=os.environ)
    base[n] = r.stdout.strip().split("\n")[-1].split(" ", 1)[1]
    print(n, base[n][:80])
random.seed(int(sys.argv[1]) if len(sys.argv) > 1 else 0)
bad = 0
for i in range(150):
    n = random.choice(names)
    recheck = True
    o = outcome(n, recheck)
    if o != base[n]:
        bad += 1
        print("DIFF at step", i, n, "\n  base:", base[n], "\n  now: ", o)
print("diffs:", bad)
