"""C11 violation (borderline: history *inside one compile*, not across top-level calls):
the Hugr emitted for a nested function depends on whether its enclosing function has been
lowered again before the nested body was processed - the body is then silently dropped.

Run with
    PYTHONPATH=/tmp/shim:/repo/guppylang/src:/repo/guppylang-internals/src \
        /venv/bin/python bug2.py

Property C11: "The HUGR produced for a definition is independent of ... how many times it
was compiled before" (anchor: compile_local_func_def).

Responsible code: guppylang_internals/compiler/func_compiler.py, `compile_local_func_def`,
lines 51-52 and 76-86:

    mono_args = ()                      # "Nested functions are not generic ..."
    ...
    ctx.compiled[func.def_id, mono_args] = CompiledFunctionDef(..., func_builder)
    ctx.worklist[func.def_id, mono_args] = None  # will compile the CFG later

A nested function that is not a capturing recursive closure gets a fresh Hugr `FuncDefn`
(`func_builder`) every time its parent is lowered, but the pending body is remembered under
the key `(func.def_id, ())`, which does not identify the lowering of the parent. When the
parent is lowered a second time (another monomorphic instance of a function with a
`@comptime` argument) while the first entry is still in the work list, the second call
overwrites `ctx.compiled[key]` and the assignment to `ctx.worklist[key]` is a no-op on the
already present key. `CompilerContext.compile` then pops that key once and fills in only
the *last* `FuncDefn`; the `FuncDefn` created for the first lowering keeps its empty body
(Input and Output nodes only, the `int` output port of Output is unconnected), i.e. an
ill-formed Hugr that the first instance of the parent calls.

Program below: `main -> count(1, x) -> helper -> count(0, x)`. `count` defines the nested
function `inner`; `helper` is added to the work list after `inner`, is popped first (LIFO)
and instantiates `count` again.

Expected (correct implementation): two `inner` FuncDefns (one per instance of `count`),
both with a body -> exit 0.
Observed: two `inner` FuncDefns, one of them without a body -> exit 1.
"""

import sys

import hugr.build.function as hf
from hugr import ops, tys as ht

from guppylang import guppy
from guppylang.std.builtins import comptime
from guppylang_internals.compiler.core import CompilerContext
from guppylang_internals.engine import ENGINE


def _sandbox_bool_ops() -> None:
    """The tket_exts of this sandbox has no `tket.bool` ops (see task notes). Declare the
    ones needed to lower an `if`; does nothing when the real extension is available."""
    from hugr.ext import OpDef, OpDefSig

    from guppylang_internals.std._internal.compiler import tket_bool
    from guppylang_internals.std._internal.compiler.tket_exts import BOOL_EXTENSION

    b = tket_bool.OpaqueBool
    for name, sig in {
        "read": ht.FunctionType([b], [ht.Bool]),
        "make_opaque": ht.FunctionType([ht.Bool], [b]),
    }.items():
        if name not in BOOL_EXTENSION.operations:
            BOOL_EXTENSION.add_op_def(OpDef(name, signature=OpDefSig(sig)))


_sandbox_bool_ops()


@guppy
def count(k: int @ comptime, x: int) -> int:
    def inner(y: int) -> int:
        return y + 1

    if x > 0:
        return inner(x) + helper(x - 1)
    return k


@guppy
def helper(x: int) -> int:
    return count(0, x)


@guppy
def main(x: int) -> int:
    return count(1, x)


ENGINE.check(main.id)
module = hf.Module()
CompilerContext(module).compile(ENGINE.checked[main.id])
h = module.hugr

bad = 0
for n in h.children(h.module_root):
    op = h[n].op
    if not isinstance(op, ops.FuncDefn):
        continue
    children = h.children(n)
    out_node = children[1]
    assert isinstance(h[out_node].op, ops.Output)
    n_out = len(op.outputs) if hasattr(op, "outputs") else len(op.signature.body.output)
    unconnected = [
        p for p in range(n_out) if not list(h.linked_ports(out_node.inp(p)))
    ]
    has_body = any(isinstance(h[c].op, ops.CFG) for c in children)
    print(
        f"FuncDefn {op.f_name!r:10} children={len(children)} has_body={has_body} "
        f"unconnected_output_ports={unconnected}"
    )
    if not has_body or unconnected:
        bad += 1

if bad:
    print(f"C11 VIOLATED: {bad} function definition(s) were emitted without a body")
    sys.exit(1)
print("ok")
sys.exit(0)
