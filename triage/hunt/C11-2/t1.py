from harness import *
from guppylang import guppy
from guppylang.std.builtins import comptime, nat, owned

@guppy
def f(b: int @comptime, x: int) -> int:
    if x > b:
        return x + 1
    return x

@guppy
def main(x: int) -> int:
    return f(1, x) + f(2, x)

h = lower(main)
print(dump(h))
