"""C11 violation: a failed compile of a comptime function leaks the tracing state and
changes the outcome of later, unrelated check / compile calls in the same session.

Run with
    PYTHONPATH=/tmp/shim:/repo/guppylang/src:/repo/guppylang-internals/src \
        /venv/bin/python bug1.py

Property C11: "An earlier failed check or compile does not change later outcomes either."

Responsible code: guppylang_internals/tracing/state.py, `set_tracing_state` (lines 64-69)

    token = _STATE.set(state)
    yield
    _STATE.reset(token)          # <- not in a try/finally

`trace_function` (tracing/function.py:60) runs the whole tracing of a `@guppy.comptime`
function inside `with set_tracing_state(state):`. Every way in which tracing can fail (a
Python exception in the user's body, a `GuppyComptimeError`, the `TypeMismatchError` for a
wrong return value, ...) propagates through that `with` and skips `_STATE.reset(token)`.
From then on `tracing_active()` is True for the rest of the interpreter session (a later
successful trace resets the variable to the *stale* state, not to None), and
`TracingDefMixin.__call__` (tracing/object.py:499) - which decides by `tracing_active()`
whether a Guppy definition may be called from Python - traces the call into the dead Hugr
builder of the failed compile instead of raising.

Observable consequences demonstrated here (each exits 1):

 1. `user` contains `comptime(len([one()]))`, i.e. its comptime expression calls the Guppy
    function `one` from plain Python. In a fresh session `user.check()` is rejected
    (ComptimeExprEvalError: "Function `one` may only be called in a Guppy context").
    After `bad.compile()` of an unrelated, failing comptime function has been attempted,
    the very same `user.check()` is accepted.
 2. Calling `one()` from plain Python raises GuppyComptimeError in a fresh session, but
    returns a GuppyObject (and grows the Hugr of the failed compile) afterwards.

Expected (correct implementation): outcomes before and after the failed compile are the
same, exit 0.
"""

import sys

from guppylang import guppy
from guppylang.std.builtins import comptime
from guppylang_internals.tracing.state import tracing_active


@guppy
def one() -> int:
    return 1


@guppy.comptime
def bad() -> int:
    # Ill-typed comptime function: tracing fails with a TypeMismatchError on the return
    return 1.5


@guppy
def user() -> int:
    return comptime(len([one()]))


def outcome(thunk) -> str:
    try:
        r = thunk()
    except BaseException as e:  # noqa: BLE001
        err = getattr(e, "error", None)
        detail = type(err).__name__ if err is not None else str(e)[:60]
        return f"rejected ({type(e).__name__}: {detail})"
    return f"accepted (returned {type(r).__name__})"


before_check = outcome(user.check)
before_call = outcome(one)
print("fresh session:       user.check() ->", before_check)
print("fresh session:       one()        ->", before_call)
print("fresh session:       tracing_active() =", tracing_active())

print("failing compile:     bad.compile() ->", outcome(bad.compile))
print("after failed compile: tracing_active() =", tracing_active())

after_check = outcome(user.check)
after_call = outcome(one)
print("after failed compile: user.check() ->", after_check)
print("after failed compile: one()        ->", after_call)

violated = (before_check != after_check) or (before_call != after_call) or tracing_active()
if violated:
    print("C11 VIOLATED: an earlier failed compile changed later outcomes")
    sys.exit(1)
print("ok")
sys.exit(0)
