import re
import hugr.build.function as hf
from guppylang_internals.engine import ENGINE
from guppylang_internals.compiler.core import CompilerContext

def lower(defn, recheck=True):
    if recheck:
        ENGINE.check(defn.id)
    mod = hf.Module()
    ctx = CompilerContext(mod)
    ctx.compile(ENGINE.checked[defn.id])
    return mod.hugr

def dump(h):
    """Structural dump of a hugr: nodes in hierarchy order with ops and links."""
    out = []
    ids = {}
    def walk(n, depth):
        ids[n] = len(ids)
        for c in h.children(n):
            walk(c, depth + 1)
    walk(h.module_root, 0)
    def walk2(n, depth):
        op = h[n].op
        ins = []
        for p in range(h.num_in_ports(n)):
            for src in h.linked_ports(n.inp(p)):
                ins.append((p, ids.get(src.node), src.offset))
        out.append("  " * depth + f"{ids[n]} {op!r} <- {ins}")
        for c in h.children(n):
            walk2(c, depth + 1)
    walk2(h.module_root, 0)
    return "\n".join(out)

def patch_bool_ext():
    """The sandbox's tket_exts lacks the bool ops; add declarations so lowering of branches works."""
    from hugr import tys as ht
    from hugr.ext import OpDef, OpDefSig
    from guppylang_internals.std._internal.compiler.tket_exts import BOOL_EXTENSION
    from guppylang_internals.std._internal.compiler import tket_bool
    B = tket_bool.OpaqueBool
    sigs = {
        "read": ht.FunctionType([B], [ht.Bool]),
        "make_opaque": ht.FunctionType([ht.Bool], [B]),
        "not": ht.FunctionType([B], [B]),
        "eq": ht.FunctionType([B, B], [B]),
        "and": ht.FunctionType([B, B], [B]),
        "or": ht.FunctionType([B, B], [B]),
        "xor": ht.FunctionType([B, B], [B]),
    }
    for name, sig in sigs.items():
        if name not in BOOL_EXTENSION.operations:
            BOOL_EXTENSION.add_op_def(OpDef(name, signature=OpDefSig(sig)))
patch_bool_ext()
