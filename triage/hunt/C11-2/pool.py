from harness import *
import sys, hashlib, traceback
from typing import Generic
from guppylang import guppy
from guppylang.std.builtins import comptime, nat, owned, array, py
from guppylang.std.quantum import qubit, h, measure, discard
from guppylang.std.option import Option, nothing, some
import guppylang
guppylang.enable_experimental_features()

T = guppy.type_var("T")
n = guppy.nat_var("n")

@guppy.struct
class S:
    a: int
    b: float

    @guppy
    def get(self: "S") -> int:
        return self.a

@guppy.struct
class G(Generic[T]):
    x: T

    @guppy
    def id(self: "G[T]") -> T:
        return self.x

@guppy
def use_struct(x: int) -> int:
    s = S(x, 1.0)
    g = G(s)
    return g.id().get()

@guppy
def generic(x: T) -> T:
    return x

@guppy
def use_generic(x: int, y: float) -> int:
    generic(y)
    return generic(x)

@guppy
def closure(x: int) -> int:
    def inner(y: int) -> int:
        return x + y
    return inner(2)

@guppy
def rec_closure(x: int) -> int:
    def inner(y: int) -> int:
        if y > 10:
            return y
        return inner(y + x)
    return inner(2)

@guppy
def rec_nocap(x: int) -> int:
    def inner(y: int) -> int:
        if y > 10:
            return y
        return inner(y + 1)
    return inner(x)

@guppy
def mono(k: int @comptime, x: int) -> int:
    def inner(y: int) -> int:
        if y > 10:
            return y
        return inner(y + x)
    return inner(2) + k

@guppy
def use_mono(x: int) -> int:
    return mono(1, x) + mono(2, x) + mono(1, x)

@guppy.comptime
def ct(x: int) -> int:
    s = S(x, 2.0)
    return use_struct(s.a) + 1

@guppy
def use_ct(x: int) -> int:
    return ct(x) + closure(x)

@guppy
def arr(xs: array[int, 3] @owned) -> int:
    t = 0
    for x in xs:
        t += x
    return t

@guppy
def arr_generic(xs: array[int, n] @owned) -> int:
    t = 0
    for x in xs:
        t += x
    return t

@guppy
def use_arr() -> int:
    return arr_generic(array(1, 2, 3)) + arr(array(1, 2, 3)) + arr_generic(array(1, 2))

@guppy
def quantum() -> bool:
    q = qubit()
    h(q)
    return measure(q)

@guppy
def bad_ty(x: int) -> qubit:
    return x

@guppy
def bad_lin() -> None:
    q = qubit()

@guppy
def uses_bad(x: int) -> float:
    return bad_ty(x)

@guppy
def opt(x: int) -> int:
    o = some(x)
    return o.unwrap()

@guppy.overload(generic, closure)
def ov(): ...

@guppy
def use_ov(x: int) -> int:
    return ov(x)

@guppy
def compr(xs: array[int, 3] @owned) -> array[int, 3]:
    return array(x + 1 for x in xs)

POOL = dict(use_struct=use_struct, use_generic=use_generic, closure=closure, rec_closure=rec_closure,
            rec_nocap=rec_nocap, use_mono=use_mono, ct=ct, use_ct=use_ct, arr=arr, use_arr=use_arr,
            quantum=quantum, bad_ty=bad_ty, bad_lin=bad_lin, uses_bad=uses_bad, opt=opt, use_ov=use_ov, compr=compr,
            S=S, G=G, generic=generic)

def norm(s):
    s = re.sub(r"0x[0-9a-f]+", "0x", s)
    return s

def outcome(name, recheck=True):
    try:
        hh = lower(POOL[name], recheck)
        d = norm(dump(hh))
        return "OK " + hashlib.md5(d.encode()).hexdigest()
    except BaseException as e:
        return "ERR " + type(e).__name__ + " " + norm(str(e))[:150]

if __name__ == "__main__":
    for name in sys.argv[1:]:
        print(name, outcome(name))
