"""C32 violation (crash flavour): expressions inside assignment *targets* are never run
through the `ExprBuilder`, so conditional / short-circuit / chained-comparison
expressions that are perfectly fine on the right-hand side blow up with an
`InternalGuppyError` when they occur in a subscript on the left-hand side.

Programs (all valid Python, all inside otherwise valid @guppy functions):

    xs[0 if c else 1] = 5            # ast.Assign target
    xs[0 if c else 1] += 5           # ast.AugAssign target
    xs[0 if c else 1]: int = 5       # ast.AnnAssign target
    a, xs[0 if c else 1] = 1, 2      # nested in a tuple pattern
    for xs[0 if c else 1] in range(2): pass      # ast.For target
    xs[int(c and c)] = 5             # BoolOp
    xs[int(0 < x < 2)] = 5           # chained comparison

Expected (C32): each of them either takes effect as in Python (the very same index
expression is accepted in `y = xs[0 if c else 1]`), or is rejected with an
'unsupported' (or other) *compile error*, i.e. a `GuppyError` with a diagnostic.

Observed on the unmodified tree: none of the two.  Checking dies with

    InternalGuppyError: BB contains `IfExp`. Should have been removed during CFG
    construction: `0 if c else 1`

(resp. "BB contains `BoolOp`", "BB contains chained comparison"), i.e. the compiler's
own invariant is broken; the user gets a Python traceback instead of a diagnostic.

Responsible code:
  guppylang-internals/src/guppylang_internals/cfg/builder.py
    * `CFGBuilder._build_node_value` (lines 160-172) / `visit_Assign`, `visit_AugAssign`,
      `visit_AnnAssign` (174-181): only `node.value` is passed to `ExprBuilder.build`,
      `node.targets` / `node.target` are not (the comment in `generic_visit`, line 397,
      "we have to remember to use the ExprBuilder to transform all included
      expressions!" states the invariant that is violated here);
    * `visit_For` (231-257): `node.target` is spliced into the template unbuilt.
  The crash is then raised in checker/expr_checker.py `ExprSynthesizer.visit_IfExp`
  (828-832), `visit_BoolOp` (822-826), `visit_Compare` (641-646).

The script exits 1 if any of the programs ends in an internal error (anything that is
not a `GuppyError`), 0 if all of them are accepted or properly rejected.
"""

import sys

from guppylang import guppy
from guppylang.std.builtins import array, owned
from guppylang_internals.error import GuppyError


def value_position():
    @guppy
    def f(xs: array[int, 2] @ owned, c: bool) -> int:
        return xs[0 if c else 1]

    return f


def assign():
    @guppy
    def f(xs: array[int, 2] @ owned, c: bool) -> array[int, 2]:
        xs[0 if c else 1] = 5
        return xs

    return f


def aug_assign():
    @guppy
    def f(xs: array[int, 2] @ owned, c: bool) -> array[int, 2]:
        xs[0 if c else 1] += 5
        return xs

    return f


def ann_assign():
    @guppy
    def f(xs: array[int, 2] @ owned, c: bool) -> array[int, 2]:
        xs[0 if c else 1]: int = 5
        return xs

    return f


def tuple_pattern():
    @guppy
    def f(xs: array[int, 2] @ owned, c: bool) -> array[int, 2]:
        a, xs[0 if c else 1] = 1, 2
        return xs

    return f


def for_target():
    @guppy
    def f(xs: array[int, 2] @ owned, c: bool) -> array[int, 2]:
        for xs[0 if c else 1] in range(2):
            pass
        return xs

    return f


def bool_op():
    @guppy
    def f(xs: array[int, 2] @ owned, c: bool) -> array[int, 2]:
        xs[int(c and c)] = 5
        return xs

    return f


def chained_compare():
    @guppy
    def f(xs: array[int, 2] @ owned, x: int) -> array[int, 2]:
        xs[int(0 < x < 2)] = 5
        return xs

    return f


def main() -> int:
    crashes = 0
    for mk in (
        value_position,
        assign,
        aug_assign,
        ann_assign,
        tuple_pattern,
        for_target,
        bool_op,
        chained_compare,
    ):
        try:
            mk().check()
            print(f"{mk.__name__:16}: accepted")
        except GuppyError as e:
            print(f"{mk.__name__:16}: compile error {type(e.error).__name__} (fine)")
        except Exception as e:  # noqa: BLE001
            crashes += 1
            print(f"{mk.__name__:16}: INTERNAL ERROR {type(e).__name__}: {e}")
    if crashes:
        print(
            f"C32 VIOLATED: {crashes} accepted-syntax programs neither take effect nor "
            "produce a compile error (internal compiler error instead)"
        )
        return 1
    print("ok")
    return 0


if __name__ == "__main__":
    sys.exit(main())
