"""C32 violation (borderline, see report): an assignment expression `(x := e)` that is
not the *first* thing evaluated in its statement does not take effect as in Python --
silently, without any diagnostic.

Programs:

    def f(x: int) -> tuple[int, int]:
        return (x, (x := x + 1))          # Python: (x, x + 1)

    def g() -> tuple[int, int]:
        return (first(), (y := second())) # Python: first() runs before second()

Expected (C32: "every ... expression inside a @guppy function either takes effect as in
Python or causes a compile error"): Python evaluates tuple elements / call arguments /
operands left to right, so in `f` the first component is the *old* value of `x`, and in
`g` the side effects of `first()` happen before those of `second()`.  Otherwise the
construct has to be rejected.

Observed on the unmodified tree: both functions are accepted; the checked basic block
of `f` is

    x = x + 1
    return (x, x)          # -> (x + 1, x + 1), the read of the old `x` is lost

and the one of `g` calls `second()` before `first()`.

Responsible code:
  guppylang-internals/src/guppylang_internals/cfg/builder.py
  `ExprBuilder.visit_NamedExpr` (lines 431-441): the walrus is turned into an
  `ast.Assign` that is appended to the current BB immediately, i.e. *before* the
  enclosing statement and therefore before all sub-expressions of that statement that
  Python evaluates earlier (they stay inside the statement; they are not bound to
  temporaries first, as `BranchBuilder._bind_to_tmp` does for chained comparisons).

The script exits 1 if the mis-ordering is observed, 0 if the programs are rejected or
ordered as in Python.
"""

import ast
import sys

from guppylang import guppy
from guppylang.std.builtins import result
from guppylang_internals.engine import ENGINE
from guppylang_internals.error import GuppyError
from guppylang_internals.nodes import GlobalCall, PlaceNode


@guppy
def first() -> int:
    result("first", 1)
    return 1


@guppy
def second() -> int:
    result("second", 2)
    return 2


@guppy
def f(x: int) -> tuple[int, int]:
    return (x, (x := x + 1))


@guppy
def g() -> tuple[int, int]:
    return (first(), (y := second()))


def walk(node):
    """Pre-order, left-to-right walk (also through custom Guppy nodes)."""
    if isinstance(node, ast.AST):
        yield node
        for v in vars(node).values():
            yield from walk(v)
    elif isinstance(node, list | tuple):
        for v in node:
            yield from walk(v)


def statements(fn):
    ENGINE.check(fn.id)
    out = []
    for bb in ENGINE.checked[fn.id].cfg.bbs:
        out.append(list(bb.statements))
    return out


def check_f() -> bool:
    """True iff the old value of `x` is lost in `f`."""
    try:
        bbs = statements(f)
    except GuppyError as e:
        print(f"f: rejected with compile error {type(e.error).__name__} (fine)")
        return False
    bad = False
    for stmts in bbs:
        assigned_x = False
        for s in stmts:
            if isinstance(s, ast.Return) and isinstance(s.value, ast.Tuple):
                fst = s.value.elts[0]
                reads_x = isinstance(fst, PlaceNode) and str(fst.place) == "x"
                print(
                    "f: return tuple components:",
                    [str(e.place) if isinstance(e, PlaceNode) else type(e).__name__
                     for e in s.value.elts],
                    "| `x` reassigned earlier in the same BB:", assigned_x,
                )
                if reads_x and assigned_x:
                    bad = True
            if isinstance(s, ast.Assign):
                for t in s.targets:
                    if isinstance(t, PlaceNode) and str(t.place) == "x":
                        print("f: statement `x = ...` emitted before the return")
                        assigned_x = True
    return bad


def check_g() -> bool:
    """True iff `second()` is evaluated before `first()` in `g`."""
    try:
        bbs = statements(g)
    except GuppyError as e:
        print(f"g: rejected with compile error {type(e.error).__name__} (fine)")
        return False
    order = [
        ENGINE.get_parsed(n.def_id).name
        for stmts in bbs
        for s in stmts
        for n in walk(s)
        if isinstance(n, GlobalCall)
    ]
    print("g: order in which the calls are evaluated:", order, "(Python: first, second)")
    return order == ["second", "first"]


def main() -> int:
    bad_f = check_f()
    bad_g = check_g()
    if bad_f or bad_g:
        print(
            "C32 VIOLATED: the walrus expression is accepted but does not take effect "
            "as in Python (evaluated before the operands to its left), no diagnostic"
        )
        return 1
    print("ok")
    return 0


if __name__ == "__main__":
    sys.exit(main())
