"""C32 violation: the argument expression of `callable(...)` is silently dropped.

Program (inside a @guppy function):

    return callable(side())        # `side()` has an observable effect (`result(...)`)

Expected (property C32: "every statement, clause and expression inside a @guppy
function either takes effect as in Python or causes a compile error"):
  * Python evaluates the argument of `callable(...)` before calling it, so `side()`
    must run (its `result("side", 1)` must be emitted), OR
  * Guppy must reject the program with a compile error.

Observed on the unmodified tree: the program is accepted and the checked function body
is literally `return False` -- the call `side()` has disappeared, nothing of it is left
in the checked CFG that is handed to the Hugr compiler.  The same happens for
`callable(panic("boom"))` (the panic never happens) and for any other effectful
argument.

Responsible code:
  guppylang-internals/src/guppylang_internals/std/_internal/checker.py
  `CallableChecker.synthesize` (lines 132-141): the argument is synthesized only to
  look at its type, then the whole call node is replaced by
  `ast.Constant(value=is_callable)`; the synthesized argument `arg` is thrown away.

The script exits 1 if the violation is observed, 0 otherwise.
"""

import ast
import sys

from guppylang import guppy
from guppylang.std.builtins import panic, result
from guppylang_internals.engine import ENGINE
from guppylang_internals.error import GuppyError
from guppylang_internals.nodes import GlobalCall


@guppy
def side() -> int:
    result("side", 1)
    return 1


@guppy
def dropped() -> bool:
    return callable(side())


@guppy
def dropped_panic() -> bool:
    return callable(panic("boom"))


@guppy
def control_case() -> bool:
    # positive control of the detection below: here the call must be found
    side()
    return False


def walk(node):
    """All AST nodes reachable from `node` (also through custom Guppy nodes)."""
    seen = set()
    todo = [node]
    while todo:
        n = todo.pop()
        if id(n) in seen:
            continue
        seen.add(id(n))
        if isinstance(n, ast.AST):
            yield n
            todo.extend(v for v in vars(n).values())
        elif isinstance(n, list | tuple):
            todo.extend(n)


def calls_in_checked_body(fn):
    """Names of all global functions called in the checked body of `fn`."""
    ENGINE.check(fn.id)
    checked = ENGINE.checked[fn.id]
    names = []
    stmts = []
    for bb in checked.cfg.bbs:
        for stmt in bb.statements:
            stmts.append(ast.dump(stmt) if type(stmt).__module__ == "ast" else repr(stmt))
            for n in walk(stmt):
                if isinstance(n, GlobalCall):
                    names.append(ENGINE.get_parsed(n.def_id).name)
        if bb.branch_pred is not None:
            for n in walk(bb.branch_pred):
                if isinstance(n, GlobalCall):
                    names.append(ENGINE.get_parsed(n.def_id).name)
    return names, stmts


def main() -> int:
    names, _ = calls_in_checked_body(control_case)
    print("control case: calls in checked body:", names)
    assert "side" in names, "detection is broken"

    violated = False
    for fn, callee in ((dropped, "side"), (dropped_panic, "panic")):
        try:
            names, stmts = calls_in_checked_body(fn)
        except GuppyError as e:
            print(f"{fn.wrapped.name}: rejected with a compile error "
                  f"({type(e.error).__name__}) -> fine")
            continue
        print(f"{fn.wrapped.name}: ACCEPTED; checked body = {stmts}")
        print(f"{fn.wrapped.name}: global calls left in the checked body: {names}")
        # `panic` is not a GlobalCall but a PanicExpr; look for any node at all
        if callee == "panic":
            from guppylang_internals.nodes import PanicExpr

            ENGINE.check(fn.id)
            found = any(
                isinstance(n, PanicExpr)
                for bb in ENGINE.checked[fn.id].cfg.bbs
                for s in bb.statements
                for n in walk(s)
            )
        else:
            found = callee in names
        if not found:
            print(f"  -> the argument expression `{callee}(...)` was silently dropped")
            violated = True

    if violated:
        print("C32 VIOLATED: argument of callable(...) neither evaluated nor rejected")
        return 1
    print("ok")
    return 0


if __name__ == "__main__":
    sys.exit(main())
