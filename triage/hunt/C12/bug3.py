"""C12 violation: function types whose non-copyable inputs DISAGREE on ownership unify.

    consume : (array[int, 3] @owned) -> None      # takes ownership, Hugr: [array] -> []
    apply_b : (Callable[[array[int, 3]], None]) -> None   # expects a *borrowing* function,
                                                          # Hugr: [array] -> [array]
    apply_b(consume)

Expected: unification of `array[int, 3] -> None` (flags Inout) with `array[int, 3] @owned -> None`
fails, exactly as it does for `qubit` (qapply_b(qconsume) is rejected): the ownership flags of an
input that is passed by borrow/ownership must agree, otherwise the two types are not identical
(`FuncInput.__eq__` compares the flags) and they even lower to different Hugr signatures.

Observed: unify returns {} (although s != t), `.check()` accepts apply_b(consume) and apply_o(borrow),
and lowering passes a `[array] -> []` function where a `[array] -> [array]` one is expected.

Responsible code: tys/ty.py, unify, l. 806-808
        if a.ty.linear and b.ty.linear and a.flags != b.flags:
`TypeBase.linear` is `not copyable and not droppable`, so the check is skipped for *affine* types
(arrays, affine structs, non-copyable type variables), although tys/parsing.py l. 279-280 gives the
Inout flag to every non-copyable input (`if not ty.copyable and Owned not in flags`).

Borderline note: the property text says "linear function inputs must agree on ownership flags"; if
"linear" is read in the narrow sense of `.linear` the acceptance is by the letter of the code, but the
clause "the assignment it returns does make them identical" is violated either way (shown below).
"""
import sys
from collections.abc import Callable

from guppylang import guppy
from guppylang.std.builtins import array, owned
from guppylang.std.quantum import qubit
from guppylang_internals.tys.builtin import array_type, int_type
from guppylang_internals.tys.ty import FuncInput, FunctionType, InputFlags, NoneType, unify


@guppy.declare
def consume(xs: array[int, 3] @ owned) -> None: ...


@guppy.declare
def borrow(xs: array[int, 3]) -> None: ...


@guppy.declare
def qconsume(q: qubit @ owned) -> None: ...


@guppy.declare
def apply_b(f: Callable[[array[int, 3]], None]) -> None: ...


@guppy.declare
def apply_o(f: Callable[[array[int, 3] @ owned], None]) -> None: ...


@guppy.declare
def qapply_b(f: Callable[[qubit], None]) -> None: ...


@guppy
def m_owned_as_borrow() -> None:
    apply_b(consume)


@guppy
def m_borrow_as_owned() -> None:
    apply_o(borrow)


@guppy
def m_qubit_control() -> None:
    qapply_b(qconsume)


def accepted(fn) -> bool:
    try:
        fn.check()
    except Exception as e:  # noqa: BLE001
        print(f"{fn.wrapped.name}: rejected with {type(e).__name__}")
        return False
    print(f"{fn.wrapped.name}: ACCEPTED")
    return True


bad = False

# 1. direct call of unify
arr = array_type(int_type(), 3)
s = FunctionType([FuncInput(arr, InputFlags.Owned)], NoneType())
t = FunctionType([FuncInput(arr, InputFlags.Inout)], NoneType())
res = unify(s, t, {})
print(f"unify({s}, {t}) = {res};  s == t: {s == t}")
if res is not None and s.substitute(res) != t.substitute(res):
    print("  -> unifier returned although it does not make the types identical")
    bad = True

# 2. through the checker
accepted(m_qubit_control)  # control: correctly rejected for the strictly linear qubit
bad |= accepted(m_owned_as_borrow)
bad |= accepted(m_borrow_as_owned)

if bad:
    print("VIOLATION: function inputs of affine type with different ownership flags unify")
    sys.exit(1)
print("ok")
sys.exit(0)
