"""C12 violation: a generic call is ACCEPTED although no instantiation of its parameters exists.

    g : forall U, T, V. (U, T) -> tuple[T, U, V]
    f : forall X.       tuple[X, X, int] -> X

    f(g(True, 1.5))

The argument of f forces T = U (both are X), but the arguments of g force U = bool and T = float.
bool and float are different, non-coercible types, so no instantiation exists and the call must be
rejected (it IS rejected as soon as the two parameters of g are swapped: g2(t: T, u: U), which is
irrelevant for the existence of an instantiation).

Observed: `.check()` succeeds.  The checked AST instantiates g with U = T = float and passes the
`bool` argument `True` for the parameter of type U = float (mis-typed call).

Responsible code: checker/expr_checker.py
  * check_call, second attempt (l. 1181-1187): `subst = unify(ty, unquantified.output, {})` yields the
    *triangular* substitution {?X: ?T, ?T: ?U, ?V: int}.
  * type_check_args (l. 981-983):
        a, s = ExprChecker(ctx).check(inp, func_inp.ty.substitute(subst), "argument")
        subst |= s
    `substitute` applies the substitution only once, so after the first argument gave {?U: bool} the
    second input type ?T becomes ?U (not bool).  ExprChecker.check on a bare variable (l. 241-243)
    synthesizes `1.5` and returns {?U: float}, and `subst |= s` silently OVERWRITES the earlier solution
    ?U := bool instead of unifying with it.  (The fix 55a4e04 only resolves the chains at the end of
    check_call; it does not cover this.)
"""
import ast
import sys

from guppylang import guppy
from guppylang_internals.ast_util import get_type_opt
from guppylang_internals.engine import ENGINE
from guppylang_internals.nodes import GlobalCall

T = guppy.type_var("T")
U = guppy.type_var("U")
V = guppy.type_var("V")
X = guppy.type_var("X")


@guppy.declare
def g(u: U, t: T) -> tuple[T, U, V]: ...


@guppy.declare
def g2(t: T, u: U) -> tuple[T, U, V]: ...


@guppy.declare
def f(x: tuple[X, X, int]) -> X: ...


@guppy
def main() -> float:
    return f(g(True, 1.5))


@guppy
def main_swapped() -> float:
    return f(g2(True, 1.5))


def accepted(fn) -> bool:
    try:
        fn.check()
    except Exception as e:  # noqa: BLE001
        print(f"{fn.wrapped.name}: rejected with {type(e).__name__}")
        return False
    print(f"{fn.wrapped.name}: ACCEPTED")
    return True


ok_swapped = accepted(main_swapped)  # control: correctly rejected
ok = accepted(main)

if ok:
    for bb in ENGINE.checked[main.id].cfg.bbs:
        for stmt in bb.statements:
            for n in ast.walk(stmt):
                if isinstance(n, GlobalCall) and n.def_id == g.id:
                    print("  g instantiated with", [str(a.ty) for a in n.type_args],
                          "but argument types are", [str(get_type_opt(a)) for a in n.args])
    print("VIOLATION: f(g(True, 1.5)) has no instantiation (needs bool == float) but type-checks")
    sys.exit(1)
print("ok: call rejected")
sys.exit(0)
