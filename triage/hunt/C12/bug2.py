"""C12 violation: a generic call that HAS an instantiation crashes with an internal AssertionError.

    k : forall T. (T, T) -> T
    h : forall X. (Callable[[X, int], X]) -> X

    h(k)

X = int, T = int makes the argument fit (Callable[[int, int], int]), so the call must type-check.
The mirrored signature h2(f: Callable[[int, X], X]) is accepted, which shows the intended behaviour.

Observed: `.check()` dies with `AssertionError` in synthesize_call
(`assert all(not t.unsolved_vars for t in subst.values())`, expr_checker.py l. 1121).

Responsible code: checker/expr_checker.py, check_type_against, l. 856-873.
    subst = unify(exp, unquantified, {})       # exp = (?X, int) -> ?X, unquantified = (?T, ?T) -> ?T
gives the triangular substitution {?X: ?T, ?T: int}.  The instantiation [int] for k is read off
correctly, but
    subst = {v: t for v, t in subst.items() if v in exp.unsolved_vars}
returns {?X: ?T} WITHOUT resolving ?T := int first: the caller receives a solution that mentions a
private inference variable of the (already discarded) unquantified type of k, and the variable ?X of
the outer call is never really solved.  (55a4e04 fixed the same kind of omission in check_call only.)
"""
import sys
import traceback
from collections.abc import Callable

from guppylang import guppy

T = guppy.type_var("T")
X = guppy.type_var("X")


@guppy.declare
def k(a: T, b: T) -> T: ...


@guppy.declare
def h(f: Callable[[X, int], X]) -> X: ...


@guppy.declare
def h2(f: Callable[[int, X], X]) -> X: ...


@guppy
def main() -> int:
    return h(k)


@guppy
def main_mirrored() -> int:
    return h2(k)


main_mirrored.check()
print("main_mirrored: h2(k) accepted (control)")
try:
    main.check()
except Exception as e:  # noqa: BLE001
    traceback.print_exc(limit=-2)
    print(f"VIOLATION: h(k) has the instantiation X = T = int but checking raised {type(e).__name__}")
    sys.exit(1)
print("ok: h(k) accepted")
sys.exit(0)
