"""C24 bug 2: the arguments of `barrier(...)` / `state_result(...)` are not checked at all.

Expected: `barrier` and `state_result` THEMSELVES are exempt from the unitary check, but the
expressions passed to them are ordinary code of the unitary context:
  (a) a call that hands qubits to a non-unitary function must be rejected "wherever the call
      occurs" - also when it occurs inside an argument of barrier/state_result, e.g. as the index
      expression in `barrier(qs[idx(q)])` (`idx` takes a qubit, resets it, has no flags);
  (b) under dagger, subscripted places must be rejected - also in `barrier(qs[0])` /
      `state_result("t", qs[0])`.
The very same expressions are rejected when the outer function is `h` instead of `barrier`
(shown below as reference).

Observed: all of these are accepted.

Responsible code: checker/unitary_checker.py:108-114

    def visit_BarrierExpr(self, node): pass
    def visit_StateResultExpr(self, node): pass

The visitor stops at the node instead of skipping only the flag test; `node.args` (and their
`PlaceNode`s, whose subscript index expressions live in `place.item_expr`) are never visited, so
neither `_check_call` nor `visit_PlaceNode` runs for anything below a barrier/state_result.
"""

import sys

import guppylang
from guppylang import guppy
from guppylang.std.builtins import array, barrier
from guppylang.std.debug import state_result
from guppylang.std.quantum import h, qubit, reset

guppylang.enable_experimental_features()


@guppy
def idx(q: qubit) -> int:
    """Not unitary: no flags, resets the qubit it is given."""
    reset(q)
    return 0


# ---- reference: same argument expression below a unitary gate -> rejected ------------
@guppy(control=True)
def ref_call_in_h(q: qubit, qs: array[qubit, 3]) -> None:
    h(qs[idx(q)])


@guppy(dagger=True)
def ref_subscript_in_h(qs: array[qubit, 3]) -> None:
    h(qs[0])


# ---- (a) non-unitary call with a qubit argument hidden in the arguments ----------------
@guppy(control=True)
def call_in_barrier(q: qubit, qs: array[qubit, 3]) -> None:
    barrier(qs[idx(q)])


@guppy(power=True)
def call_in_state_result(q: qubit, qs: array[qubit, 3]) -> None:
    state_result("t", qs[idx(q)])


@guppy
def call_in_barrier_with_control(c: qubit, q: qubit, qs: array[qubit, 3]) -> None:
    with control(c):
        barrier(qs[idx(q)])


# ---- (b) subscripted place under dagger ------------------------------------------------
@guppy(dagger=True)
def subscript_in_barrier_dagger(qs: array[qubit, 3]) -> None:
    barrier(qs[0])


@guppy
def subscript_in_state_result_with_dagger(qs: array[qubit, 3]) -> None:
    with dagger:
        state_result("t", qs[0])


def outcome(f) -> str:
    try:
        f.check()
    except Exception as e:  # noqa: BLE001
        err = getattr(e, "error", None)
        return f"REJECTED ({type(e).__name__}: {getattr(err, 'title', e)})"
    return "ACCEPTED"


bad = 0
for f in (ref_call_in_h, ref_subscript_in_h):
    res = outcome(f)
    print(f"{f.wrapped.name:40s} {res}   [reference, expected REJECTED]")
    if res == "ACCEPTED":
        bad += 1
for f in (
    call_in_barrier,
    call_in_state_result,
    call_in_barrier_with_control,
    subscript_in_barrier_dagger,
    subscript_in_state_result_with_dagger,
):
    res = outcome(f)
    print(f"{f.wrapped.name:40s} {res}   [expected REJECTED]")
    if res == "ACCEPTED":
        bad += 1

if bad:
    print(f"\nC24 VIOLATED: {bad} program(s) accepted that must be rejected")
    sys.exit(1)
print("\nC24 holds on these inputs")
sys.exit(0)
