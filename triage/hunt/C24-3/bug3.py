"""C24 bug 3 (false rejection): derived function types lose the unitary flags of the callee.

Expected: a unitary context that passes qubits only to functions whose flags include every
required flag is accepted.  `P.app` and `uo` below are `unitary=True`, i.e. they carry
control, dagger and power.  Calling them with a qubit from a `control=True` function is
therefore fine - and it is accepted when spelled `p.app(q)` / `uo(q1)` (reference cases).

Observed: the same callees are rejected with "Unitary constraint violation - This function
cannot be called in a control context" as soon as the call goes through a derived function type:

    f = p.app; f(q)            # bound method used as a value
    (uo, uo)(q1, q2)           # function tensor of two unitary functions (experimental feature)

Responsible code: the derived `FunctionType`s are built without `unitary_flags`, so they default
to `NoFlags` and `BBUnitaryChecker._check_call` (checker/unitary_checker.py:83-89) rejects them:
  * checker/expr_checker.py:507   result_ty = FunctionType(func.ty.inputs[1:], func.ty.output,
                                  func.ty.params)                      (PartialApply / bound method)
  * tys/ty.py:900                 return FunctionType(inputs, row_to_type(outputs))
                                  in function_tensor_signature          (TensorCall.tensor_ty)
The bound method should keep `func.ty.unitary_flags`, the tensor should carry the intersection
of the flags of its components.

Borderline note: this is a rejects-valid defect, not an unsoundness; it is covered by the
"such code is otherwise accepted" half of C24.
"""

import sys

import guppylang
from guppylang import guppy
from guppylang.std.builtins import owned
from guppylang.std.quantum import h, qubit

guppylang.enable_experimental_features()


@guppy.struct
class P:
    n: int

    @guppy(unitary=True)
    def app(self: "P", q: qubit) -> None:
        h(q)


@guppy(unitary=True)
def uo(q: qubit @ owned) -> qubit:
    h(q)
    return q


# ---- reference: direct spellings, accepted ---------------------------------------------
@guppy(control=True)
def ref_direct_method(p: P, q: qubit) -> None:
    p.app(q)


@guppy(control=True)
def ref_direct_calls(q1: qubit @ owned, q2: qubit @ owned) -> tuple[qubit, qubit]:
    return uo(q1), uo(q2)


# ---- same callees through derived function types --------------------------------------
@guppy(control=True)
def bound_method_value(p: P, q: qubit) -> None:
    f = p.app
    f(q)


@guppy(control=True)
def tensor_of_unitaries(q1: qubit @ owned, q2: qubit @ owned) -> tuple[qubit, qubit]:
    # (CPython prints a harmless SyntaxWarning "'tuple' object is not callable" for this line)
    return (uo, uo)(q1, q2)


def outcome(f) -> str:
    try:
        f.check()
    except Exception as e:  # noqa: BLE001
        err = getattr(e, "error", None)
        return f"REJECTED ({type(e).__name__}: {getattr(err, 'title', e)})"
    return "ACCEPTED"


bad = 0
for f in (ref_direct_method, ref_direct_calls):
    res = outcome(f)
    print(f"{f.wrapped.name:25s} {res}   [reference, expected ACCEPTED]")
    if res != "ACCEPTED":
        bad += 1
for f in (bound_method_value, tensor_of_unitaries):  # noqa: F821
    res = outcome(f)
    print(f"{f.wrapped.name:25s} {res}   [expected ACCEPTED]")
    if res != "ACCEPTED":
        bad += 1

if bad:
    print(f"\nC24 VIOLATED: {bad} valid program(s) rejected")
    sys.exit(1)
print("\nC24 holds on these inputs")
sys.exit(0)
