"""C24 bug 1: a non-unitary function hides behind the flags of a unitary one (false acceptance).

Expected: a unitary context (function flagged control/dagger/power/unitary, or the body of a
`with control/dagger/power` block) is rejected whenever it passes qubits to a function whose
flags do not include every required flag.  `nonu` below has no flags, so every program that
ends up calling `nonu(q)` from such a context must be rejected with a
"Unitary constraint violation", exactly like the direct call `nonu(q)` is (control case).

Observed: when the callee is a function *value* whose static type was obtained by unifying
the type of a unitary function with the type of a non-unitary one, the check passes:

    second(h, nonu)(q)          # generic  second[T](a: T, b: T) -> T  returns `nonu`
    fs = array(h, nonu); fs[1](q)

are accepted in `@guppy(control=True)`, `@guppy(dagger=True)`, `@guppy(unitary=True)` functions
and inside `with control(c):` / `with dagger:` blocks, although at run time `nonu` (which does a
`reset`) is applied to the qubit.

Responsible code: BBUnitaryChecker._check_call (checker/unitary_checker.py:83-89) trusts
`ty.unitary_flags` of the callee's static type, but `unify` (tys/ty.py:803-809, the
`case FunctionType() as s, FunctionType() as t` arm) ignores `unitary_flags` completely, so
`T := (qubit) -> None [Unitary]` inferred from `h` also matches `nonu : (qubit) -> None [NoFlags]`.
(Type *equality* does include the flags - `f = h if b else nonu` is a "Different types" error -
so the two notions disagree.)  A flagged function type must only accept functions having at
least those flags.
"""

import sys

import guppylang
from guppylang import guppy
from guppylang.std.builtins import array
from guppylang.std.quantum import h, qubit, reset

guppylang.enable_experimental_features()

T = guppy.type_var("T")


@guppy
def nonu(q: qubit) -> None:
    reset(q)


@guppy
def second(a: T, b: T) -> T:
    return b


# --- control: the direct call is (correctly) rejected ---------------------------------
@guppy(control=True)
def direct(q: qubit) -> None:
    nonu(q)


@guppy(control=True)
def via_generic_control(q: qubit) -> None:
    second(h, nonu)(q)


@guppy(dagger=True)
def via_generic_dagger(q: qubit) -> None:
    second(h, nonu)(q)


@guppy(unitary=True)
def via_generic_unitary(q: qubit) -> None:
    second(h, nonu)(q)


@guppy(control=True)
def via_array_control(q: qubit) -> None:
    fs = array(h, nonu)
    fs[1](q)


@guppy
def via_generic_with_control(c: qubit, q: qubit) -> None:
    with control(c):
        second(h, nonu)(q)


@guppy
def via_generic_with_dagger(q: qubit) -> None:
    with dagger:
        second(h, nonu)(q)


def outcome(f) -> str:
    try:
        f.check()
    except Exception as e:  # noqa: BLE001
        err = getattr(e, "error", None)
        return f"REJECTED ({type(e).__name__}: {getattr(err, 'title', e)})"
    return "ACCEPTED"


bad = 0
res = outcome(direct)
print(f"{'direct nonu(q) under control':45s} {res}   [expected REJECTED]")
if not res.startswith("REJECTED"):
    bad += 1
for f in (
    via_generic_control,
    via_generic_dagger,
    via_generic_unitary,
    via_array_control,
    via_generic_with_control,
    via_generic_with_dagger,
):
    res = outcome(f)
    print(f"{f.wrapped.name:45s} {res}   [expected REJECTED]")
    if res == "ACCEPTED":
        bad += 1

if bad:
    print(f"\nC24 VIOLATED: {bad} program(s) passing a qubit to the flag-less `nonu` were accepted")
    sys.exit(1)
print("\nC24 holds on these inputs")
sys.exit(0)
