"""C05 violation: `maybe_qubit()` (tket.quantum.TryQAlloc) is a qubit allocation that gets NO order edge.

Property C05: side-effecting operations -- explicitly including qubit allocation -- execute in the
order of Python's evaluation of the source.

Program (accepted):

    @guppy
    def recycle(q: qubit @ owned) -> Option[qubit]:
        discard(q)              # tket.quantum.QFree     : gives a qubit back
        return maybe_qubit()    # tket.quantum.TryQAlloc : succeeds iff a qubit is free

    @guppy
    def race() -> tuple[Option[qubit], qubit]:
        m = maybe_qubit()       # must get the last free qubit ...
        q = qubit()             # ... so that this QAlloc is the one that fails
        return m, q

Expected: the lowered Hugr orders QFree before TryQAlloc (resp. TryQAlloc before QAlloc) with a state
order edge, exactly as it does for `discard(q); qubit()` (QFree -> QAlloc), because there is no data
dependency between the two operations and the outcome of TryQAlloc depends on the number of free qubits.

Observed: TryQAlloc has no order edge at all; it is neither ordered after QFree nor before QAlloc nor
relative to result reports / panics.  A scheduler may run `maybe_qubit()` before `discard(q)`; on a
device whose qubits are all in use the program then returns `nothing` although the source frees a
qubit first.

Responsible code: guppylang-internals/src/guppylang_internals/compiler/core.py, list
EXTENSION_OPS_WITH_SIDE_EFFECTS (lines 559-570): it names QAlloc, QFree and MeasureFree ("Qubit
allocation and deallocation have the side-effect of changing the number of available free qubits")
but not TryQAlloc, so may_have_side_effect() (line 573) answers False for the op that
guppylang/std/quantum/__init__.py:45 `maybe_qubit` lowers to.  (The same list also omits the
qubit-freeing ops of tket.qsystem used by guppylang.std.qsystem: Measure, QFree, LazyMeasureLeaked;
that module cannot be imported in this sandbox, so it is not demonstrated here.)

Run:  PYTHONPATH=/tmp/shim:<wt>/guppylang/src:<wt>/guppylang-internals/src /venv/bin/python bug1.py
Exit status 1 = property violated, 0 = ordered correctly.
"""

import sys

from hugr import ops
from hugr.build.function import Module

from guppylang import guppy
from guppylang.std.builtins import owned
from guppylang.std.option import Option
from guppylang.std.quantum import discard, maybe_qubit, qubit
from guppylang_internals.compiler.core import CompilerContext, may_have_side_effect
from guppylang_internals.engine import ENGINE


@guppy
def recycle(q: qubit @ owned) -> Option[qubit]:
    discard(q)
    return maybe_qubit()


@guppy
def race() -> tuple[Option[qubit], qubit]:
    m = maybe_qubit()
    q = qubit()
    return m, q


@guppy
def control(q: qubit @ owned) -> qubit:
    discard(q)
    return qubit()


def lower(fn):
    did = fn.wrapped.id
    ENGINE.check(did)
    module = Module()
    CompilerContext(module).compile(ENGINE.checked[did])
    return module.hugr


def name(op) -> str:
    if isinstance(op, ops.ExtOp):
        return op.op_def().qualified_name()
    if isinstance(op, ops.Custom):
        return f"{op.extension}.{op.op_name}"
    return type(op).__name__


def succs(h, n):
    out = set()
    for i in range(h.num_out_ports(n)):
        out.update(p.node for p in h.linked_ports(n.out(i)))
    try:  # order ("other") port
        out.update(p.node for p in h.linked_ports(n.out(-1)))
    except Exception:
        pass
    return out


def path(h, a, b) -> bool:
    seen, todo = set(), [a]
    while todo:
        x = todo.pop()
        if x == b:
            return True
        if x not in seen:
            seen.add(x)
            todo.extend(succs(h, x))
    return False


def find(h, qualified):
    found = [n for n in h if name(h[n].op) == qualified]
    assert len(found) == 1, (qualified, found)
    return found[0]


def ordered(fn, first, second) -> bool:
    h = lower(fn)
    a, b = find(h, first), find(h, second)
    ok = path(h, a, b)
    print(
        f"{fn.wrapped.name}: {first} -> {second}: "
        f"{'ordered' if ok else 'NO path (value or order edges) between the two ops'}; "
        f"may_have_side_effect = {may_have_side_effect(h[a].op)}, {may_have_side_effect(h[b].op)}"
    )
    return ok


results = [
    ordered(control, "tket.quantum.QFree", "tket.quantum.QAlloc"),  # works: both listed
    ordered(recycle, "tket.quantum.QFree", "tket.quantum.TryQAlloc"),
    ordered(race, "tket.quantum.TryQAlloc", "tket.quantum.QAlloc"),
]
if not results[0]:
    print("unexpected: even the control is unordered")
if all(results):
    print("OK: the qubit allocation `maybe_qubit()` is ordered like the source")
    sys.exit(0)
print("VIOLATION of C05: qubit allocation TryQAlloc is not ordered w.r.t. QFree / QAlloc")
sys.exit(1)
