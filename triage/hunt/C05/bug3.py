"""C05 violation: `exit(msg, signal, ...)` evaluates its second argument before its first.

Property C05: operands are evaluated left to right and arguments before the call; calls run in the
order of Python's evaluation of the source.

Program (accepted):

    @guppy.declare
    def message() -> str: ...     # e.g. reports a result and picks a message
    @guppy.declare
    def code() -> int: ...        # e.g. reports a result / may panic
    @guppy.declare
    def payload() -> int: ...

    @guppy
    def stop() -> None:
        exit(message(), code(), payload())

Python order of the calls: message, code, payload (then the exit).

Observed in the lowered Hugr: Call(code) is built first and gets the order edge
Call(code) -> Call(message) -> Call(payload) -> prelude.exit, i.e. `code()` runs BEFORE `message()`.
If `message()` reports a result and `code()` panics, the source promises the result is reported
first; the compiled program panics without reporting it.

Responsible code: guppylang-internals/src/guppylang_internals/compiler/expr_compiler.py,
ExprCompiler.visit_PanicExpr (lines 569-576):

        signal = self.visit(node.signal)          # 2nd source argument compiled first
        signal_usize = self.builder.add_op(convert_itousize(), signal)
        msg = self.visit(node.msg)                # 1st source argument compiled second
        ...
        args = [self.visit(e) for e in node.values]

(ExitChecker.synthesize in std/_internal/checker.py:376-388 checks msg, signal, values in source
order; only the compiler swaps them.)  track_hugr_side_effects then fixes the insertion order with
order edges.  A correct implementation visits node.msg before node.signal.

Exit status 1 = property violated, 0 = calls ordered as in the source.
"""

import functools
import sys

from hugr import ops
from hugr.build.function import Module

from guppylang import guppy
from guppylang.std.builtins import exit
from guppylang_internals.compiler.core import CompilerContext
from guppylang_internals.engine import ENGINE


@guppy.declare
def message() -> str: ...


@guppy.declare
def code() -> int: ...


@guppy.declare
def payload() -> int: ...


@guppy
def stop() -> None:
    exit(message(), code(), payload())


def lower(fn):
    did = fn.wrapped.id
    ENGINE.check(did)
    module = Module()
    CompilerContext(module).compile(ENGINE.checked[did])
    return module.hugr


def succs(h, n):
    out = set()
    for i in range(h.num_out_ports(n)):
        out.update(p.node for p in h.linked_ports(n.out(i)))
    try:  # order ("other") port
        out.update(p.node for p in h.linked_ports(n.out(-1)))
    except Exception:
        pass
    return out


def path(h, a, b) -> bool:
    seen, todo = set(), [a]
    while todo:
        x = todo.pop()
        if x == b:
            return True
        if x not in seen:
            seen.add(x)
            todo.extend(succs(h, x))
    return False


def callee(h, n) -> str:
    for i in range(h.num_in_ports(n) + 2):
        try:
            for p in h.linked_ports(n.inp(i)):
                op = h[p.node].op
                if isinstance(op, ops.FuncDecl | ops.FuncDefn):
                    return op.f_name.split(".")[-1]
        except Exception:
            pass
    return "?"


h = lower(stop)
effects = []
for n in h:
    op = h[n].op
    if isinstance(op, ops.Call):
        effects.append((n, callee(h, n)))
    elif isinstance(op, ops.ExtOp) and op.op_def().qualified_name() == "prelude.exit":
        effects.append((n, "<exit>"))


def cmp(x, y):
    if path(h, x[0], y[0]):
        return -1
    if path(h, y[0], x[0]):
        return 1
    raise SystemExit(f"unordered side effects {x} {y}")


effects.sort(key=functools.cmp_to_key(cmp))
observed = [name for _, name in effects]
expected = ["message", "code", "payload", "<exit>"]
print("source  : exit(message(), code(), payload())")
print("expected:", expected)
print("observed:", observed, "(order forced by value/order edges of the Hugr)")
if observed != expected:
    print("VIOLATION of C05: arguments of exit() are not evaluated left to right")
    sys.exit(1)
print("OK")
sys.exit(0)
