"""Supporting observation (NOT counted as a new finding: close relative of the known `mk()[idx()]` item).

`ys[f()][g()]` on a PLACE (a local 2-d array), as r-value and as assignment target, evaluates g() before
f().  Python: f() then g().  The known item is about subscripts on non-places
(ExprCompiler.visit_SubscriptAccessAndDrop); this is the place path:
  * compiler/expr_compiler.py ExprCompiler.visit_PlaceNode (lines 258-263) and
  * compiler/stmt_compiler.py StmtCompiler._assign_place (lines 75-80)
both take `contains_subscript(place)` = the OUTERMOST subscript, bind its index first
(`self.dfg[subscript.item] = visit(subscript.item_expr)`) and only then compile the getitem call whose
first argument is the inner place `ys[f()]` (which evaluates f()).  Exit 1 = order differs from Python.
"""
import sys
from hugr import ops
from hugr.build.function import Module
from guppylang import guppy
from guppylang.std.builtins import array
from guppylang_internals.compiler.core import CompilerContext
from guppylang_internals.engine import ENGINE

@guppy.declare
def f() -> int: ...
@guppy.declare
def g() -> int: ...

@guppy
def read(ys: array[array[int, 3], 3]) -> int:
    return ys[f()][g()]

@guppy
def write(ys: array[array[int, 3], 3]) -> None:
    ys[f()][g()] = 1

def lower(fn):
    did = fn.wrapped.id
    ENGINE.check(did)
    module = Module()
    CompilerContext(module).compile(ENGINE.checked[did])
    return module.hugr

def succs(h, n):
    out = set()
    for i in range(h.num_out_ports(n)):
        out.update(p.node for p in h.linked_ports(n.out(i)))
    try:
        out.update(p.node for p in h.linked_ports(n.out(-1)))
    except Exception:
        pass
    return out

def path(h, a, b):
    seen, todo = set(), [a]
    while todo:
        x = todo.pop()
        if x == b:
            return True
        if x not in seen:
            seen.add(x)
            todo.extend(succs(h, x))
    return False

def callee(h, n):
    for i in range(h.num_in_ports(n) + 2):
        try:
            for p in h.linked_ports(n.inp(i)):
                op = h[p.node].op
                if isinstance(op, ops.FuncDecl | ops.FuncDefn):
                    return op.f_name.split(".")[-1]
        except Exception:
            pass
    return "?"

bad = False
for fn in (read, write):
    h = lower(fn)
    calls = {callee(h, n): n for n in h if isinstance(h[n].op, ops.Call) and callee(h, n) in ("f", "g")}
    fg, gf = path(h, calls["f"], calls["g"]), path(h, calls["g"], calls["f"])
    print(f"{fn.wrapped.name}: ys[f()][g()]  f-before-g={fg}  g-before-f={gf}")
    bad |= not fg
sys.exit(1 if bad else 0)
