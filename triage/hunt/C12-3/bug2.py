"""C12 violation: applying a substitution (Substituter) to a function type with a
`@comptime` input silently drops its `comptime_args`, so a type stops unifying with
itself and a fitting generic call is rejected.

Setting
-------
    foo  : forall n: nat. (nat @comptime) -> None
    foo[5] has the closed type F5 = "nat @comptime -> None" with
           comptime_args = [ConstArg(5)]  (they are part of `F5.args`, which is what
           unify/_unify_args compares; this is what keeps foo[5] and foo[6] apart)
    pick : forall T. (T, T) -> T

Expected
--------
* `F5.substitute({})` is `F5` (a substitution without bindings changes nothing), and
  `unify(F5, F5.substitute({}), {})` succeeds.
* `pick((foo[5], 1), (foo[5], 2))` type-checks: T := tuple[F5, int] makes both
  arguments fit.  (The same program with a plain function `bar: nat -> None` instead
  of `foo[5]` is accepted.)

Observed
--------
* `F5.substitute({}) != F5`: the result has `comptime_args == []`, and
  `unify(F5, F5.substitute({}), {})` is None (argument lists of different length).
* `pick((foo[5], 1), (foo[5], 2))` is rejected with the nonsensical
  "Expected expression of type `nat @comptime -> None`, got `nat @comptime -> None`":
  after the first argument solved T, the second tuple is checked element-wise against
  `ty.element_types[i].substitute(subst)` (ExprChecker.visit_Tuple), which rebuilds F5
  without its comptime args.
* The same rebuild happens with the Instantiator (same `transform` method): a value of
  the damaged type can be called, and `type_check_args` then crashes with an uncaught
  StopIteration at `next(comptime_args)` (shown below for information).

Responsible code
----------------
guppylang-internals/src/guppylang_internals/tys/ty.py, FunctionType.transform
(lines 531-538):

    return transformer.transform(self) or FunctionType(
        [replace(inp, ty=inp.ty.transform(transformer)) for inp in self.inputs],
        self.output.transform(transformer),
        self.params,
        unitary_flags=self.unitary_flags,
    )

`comptime_args` is not passed on (nor transformed), so the constructor recomputes it
from `params` -- which is `[]` for an instantiated function type.  It is reached from
Substituter via `Type.substitute` in expr_checker.py (visit_Tuple line 271,
resolve_subst line 976, check line 238/250).
"""

import sys
import traceback
from collections.abc import Callable

import guppylang

guppylang.enable_experimental_features()

from guppylang.decorator import guppy  # noqa: E402
from guppylang.std.builtins import comptime, nat  # noqa: E402, F401
from guppylang_internals.engine import ENGINE  # noqa: E402
from guppylang_internals.error import GuppyError  # noqa: E402
from guppylang_internals.tys.arg import ConstArg  # noqa: E402
from guppylang_internals.tys.builtin import nat_type  # noqa: E402
from guppylang_internals.tys.const import ConstValue  # noqa: E402
from guppylang_internals.tys.ty import unify  # noqa: E402

T = guppy.type_var("T")


@guppy.declare
def foo(n: nat @ comptime) -> None: ...


@guppy.declare
def bar(n: nat) -> None: ...


@guppy.declare
def pick(a: T, b: T) -> T: ...


@guppy.declare
def mk(a: T) -> Callable[[], T]: ...


@guppy
def with_plain() -> None:
    pick((bar, 1), (bar, 2))


@guppy
def with_comptime() -> None:
    pick((foo[5], 1), (foo[5], 2))


@guppy
def call_damaged() -> None:
    h = mk(foo[5])
    f = h()
    f(5)


def outcome(f) -> str:
    try:
        f.check()
    except GuppyError as e:
        err = e.error
        extra = ""
        if hasattr(err, "expected"):
            extra = f": expected `{err.expected}`, got `{err.actual}`"
        return f"rejected ({type(err).__name__}{extra})"
    except BaseException as e:  # internal crash
        tb = traceback.extract_tb(e.__traceback__)[-1]
        return f"CRASH {type(e).__name__} at {tb.filename.split('/')[-1]}:{tb.lineno}"
    return "accepted"


violated = False

# 1. Direct: the substitution changes a closed type
foo_ty = ENGINE.get_parsed(foo.wrapped.id).ty
f5 = foo_ty.instantiate([ConstArg(ConstValue(nat_type(), 5))])
f5s = f5.substitute({})
print("F5               =", f5, " comptime_args =", list(f5.comptime_args))
print("F5.substitute({}) =", f5s, " comptime_args =", list(f5s.comptime_args))
print("F5.substitute({}) == F5 :", f5s == f5)
u = unify(f5, f5s, {})
print("unify(F5, F5.substitute({}), {}) =", u)
if f5s != f5 or u is None:
    violated = True

# 2. Generic call that has a fitting instantiation
r_plain = outcome(with_plain)
r_comptime = outcome(with_comptime)
print("pick((bar, 1), (bar, 2))       ->", r_plain)
print("pick((foo[5], 1), (foo[5], 2)) ->", r_comptime)
if r_plain == "accepted" and r_comptime != "accepted":
    violated = True

# 3. For information: same root cause reached through the Instantiator
r_call = outcome(call_damaged)
print("h = mk(foo[5]); f = h(); f(5)  ->", r_call)
if r_call != "accepted":
    violated = True

print("VIOLATED" if violated else "ok")
sys.exit(1 if violated else 0)
