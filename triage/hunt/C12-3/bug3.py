"""C12 violation: a type parameter is "solved" with a polymorphic function type, so a
generic call type-checks without any valid instantiation (and the compiler, or the next
unification, then crashes with an internal error).

Setting
-------
    gen   : forall T. T -> T
    ident : forall U. U -> U
    pick  : forall U. (U, U) -> U

Guppy types are rank-1: a type argument must be a monomorphic type
(`ParametrizedTypeBase.__post_init__` raises "Tried to construct a higher-rank
polymorphic type!", `check_type_against` asserts that the expected type is not
parametrized and exists "to avoid higher-rank types", and upstream's
tests/error/poly_errors/pass_poly_free.py expects
`foo(bar)` with `foo(f: Callable[[T], T])`, `bar: forall T. T -> T` to be rejected with
"higher-rank polymorphic types are not supported").

Expected
--------
`ident(gen)` has no inferable valid instantiation: U would have to be `X -> X` for some
X that nothing determines.  The call must be rejected with a user-facing GuppyError
(like pass_poly_free), and so must `pick(gen, gen)`.

Observed
--------
* `f = ident(gen)` type-checks.  The "instantiation" found is
  U := `forall T. T -> T`, i.e. not a type argument at all; compiling the checked
  function then dies with `InternalGuppyError: Tried to instantiate under binder`.
* `pick(gen, gen)`: the first argument stores the parametrized type as the solution of
  ?U, the second argument is then checked against it and trips
  `assert not isinstance(exp, FunctionType) or not exp.parametrized` in
  check_type_against -> bare AssertionError instead of a diagnostic.

Responsible code
----------------
guppylang-internals/src/guppylang_internals/checker/expr_checker.py,
ExprChecker.check, lines 240-243:

    if isinstance(ty, ExistentialTypeVar):
        expr, syn_ty = self._synthesize(expr, allow_free_vars=False)
        return with_type(syn_ty, expr), {ty: syn_ty}

The synthesized type is taken as the solution of the inference variable without
looking at whether it is a parametrized FunctionType (every other path goes through
check_type_against, which instantiates or rejects it).  synthesize_call / check_call /
check_inst (lines 1121-1271) accept the resulting Inst as well.

Borderline note: this is about which instantiations are admissible (rank-1) rather than
about the unification algorithm proper, but it falls under "a call to a generic function
type-checks exactly when an instantiation of its parameters makes the arguments fit".
"""

import sys
import traceback

import guppylang

guppylang.enable_experimental_features()

import hugr.build.function  # noqa: E402
from guppylang.decorator import guppy  # noqa: E402
from guppylang_internals.compiler.core import CompilerContext  # noqa: E402
from guppylang_internals.engine import ENGINE  # noqa: E402
from guppylang_internals.error import GuppyError  # noqa: E402

T = guppy.type_var("T")
U = guppy.type_var("U")


@guppy
def gen(x: T) -> T:
    return x


@guppy
def ident(x: U) -> U:
    return x


@guppy
def pick(a: U, b: U) -> U:
    return a


@guppy
def use_ident() -> None:
    f = ident(gen)  # noqa: F841


@guppy
def use_pick() -> None:
    f = pick(gen, gen)  # noqa: F841


def where(e: BaseException) -> str:
    tb = traceback.extract_tb(e.__traceback__)[-1]
    return f"{tb.filename.split('/')[-1]}:{tb.lineno} in {tb.name}"


def check_and_compile(f) -> tuple[str, str]:
    """Returns (outcome of checking, outcome of lowering)."""
    defn = f.wrapped
    try:
        ENGINE.check(defn.id)
    except GuppyError as e:
        return f"rejected ({type(e.error).__name__})", "-"
    except BaseException as e:
        return f"CRASH {type(e).__name__} at {where(e)}", "-"
    try:
        CompilerContext(hugr.build.function.Module()).compile(ENGINE.checked[defn.id])
    except BaseException as e:
        return "accepted", f"CRASH {type(e).__name__}: {e} at {where(e)}"
    return "accepted", "ok"


violated = False
for name, f in [("f = ident(gen)", use_ident), ("f = pick(gen, gen)", use_pick)]:
    chk, comp = check_and_compile(f)
    print(f"{name:20s} check -> {chk}")
    print(f"{'':20s} lower -> {comp}")
    if not chk.startswith("rejected"):
        violated = True

print("VIOLATED" if violated else "ok")
sys.exit(1 if violated else 0)
