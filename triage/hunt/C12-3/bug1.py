"""C12 violation: unify() ignores the unitary flags of function types.

Expected
--------
`unify(s, t, subst)` may only succeed if the substitution it returns makes `s` and `t`
identical.  The two function types

    good : qubit -> None   [unitary_flags = Control]     (@guppy.declare(control=True))
    bad  : qubit -> None   [unitary_flags = NoFlags]

contain no inference variable and are NOT identical: `FunctionType.__eq__` tells them
apart, and the rest of the checker tells them apart as well (`f = good if b else bad`
is a BranchTypeError, and calling `bad` inside `with control(c):` is a
UnitaryCallError).  So unification must fail, and the generic call `pick(good, bad)`
with `pick: forall T. (T, T) -> T` must be rejected: no instantiation of T makes both
arguments fit.

Observed
--------
`unify(good_ty, bad_ty, {})` returns `{}` although `good_ty != bad_ty`.
Consequently `pick(good, bad)` type-checks with T := "qubit -> None [Control]", the
result is considered controllable, and calling it under `with control(c):` is accepted
although the value may be the non-controllable `bad`.  The outcome even depends on the
argument order: `pick(bad, good)` followed by the same controlled call is rejected with
UnitaryCallError.

Responsible code
----------------
guppylang-internals/src/guppylang_internals/tys/ty.py, unify(), the case
    `case FunctionType() as s, FunctionType() as t if s.params == t.params:`
(lines 803-809): only `params`, the number of inputs, the flags of linear inputs and
the `args` are compared; `unitary_flags` (a compared dataclass field of FunctionType,
line 415) is never looked at.
"""

import sys

import guppylang

guppylang.enable_experimental_features()

from guppylang.decorator import guppy  # noqa: E402
from guppylang.std.quantum import qubit  # noqa: E402
from guppylang_internals.engine import ENGINE  # noqa: E402
from guppylang_internals.error import GuppyError  # noqa: E402
from guppylang_internals.tys.ty import unify  # noqa: E402

T = guppy.type_var("T")


@guppy.declare(control=True)
def good(q: qubit) -> None: ...


@guppy.declare
def bad(q: qubit) -> None: ...


@guppy.declare
def pick(a: T, b: T) -> T: ...


@guppy
def direct(c: qubit, q: qubit) -> None:
    with control(c):  # noqa: F821
        bad(q)


@guppy
def bad_first(c: qubit, q: qubit) -> None:
    f = pick(bad, good)
    with control(c):  # noqa: F821
        f(q)


@guppy
def good_first(c: qubit, q: qubit) -> None:
    f = pick(good, bad)
    with control(c):  # noqa: F821
        f(q)


def outcome(f) -> str:
    try:
        f.check()
    except GuppyError as e:
        return f"rejected ({type(e.error).__name__})"
    return "accepted"


violated = False

# 1. Direct call of unify on two closed, different function types
good_ty = ENGINE.get_parsed(good.wrapped.id).ty
bad_ty = ENGINE.get_parsed(bad.wrapped.id).ty
print("good_ty.unitary_flags =", good_ty.unitary_flags)
print("bad_ty.unitary_flags  =", bad_ty.unitary_flags)
print("good_ty == bad_ty     :", good_ty == bad_ty)
subst = unify(good_ty, bad_ty, {})
print("unify(good_ty, bad_ty, {}) =", subst)
if subst is not None:
    same = good_ty.substitute(subst) == bad_ty.substitute(subst)
    print("types identical after applying the unifier:", same)
    if not same:
        violated = True

# 2. Consequence for generic calls
r_direct = outcome(direct)
r_bad_first = outcome(bad_first)
r_good_first = outcome(good_first)
print("with control(c): bad(q)                      ->", r_direct)
print("f = pick(bad, good); with control(c): f(q)   ->", r_bad_first)
print("f = pick(good, bad); with control(c): f(q)   ->", r_good_first)
if r_good_first == "accepted":
    print("pick(good, bad) type-checks although no instantiation of T fits both args,")
    print("and a possibly non-controllable function is called under `control`.")
    violated = True

print("VIOLATED" if violated else "ok")
sys.exit(1 if violated else 0)
