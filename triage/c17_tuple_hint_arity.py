from guppylang import guppy
@guppy
def f() -> tuple[int, int]:
    return comptime((1, 2, 2**70))
@guppy
def g() -> tuple[int, int]:
    return comptime((1, 2))
for t in (f, g):
    try:
        t.check(); print("ACCEPTED")
    except Exception as e:
        print("REJECTED", type(e).__name__, type(getattr(e,'error',None)).__name__)
