"""Triage (NOT a registered check; runs repository code under the shim): a generic call that fits crashes with AssertionError.

C12: a call to a generic function type-checks exactly when an instantiation of its parameters makes the arguments fit.  With
`g: forall A, B. A -> tuple[A, B]` and `f: forall T. tuple[T, int] -> T`, the call `f(g(True))` has the instantiation
T = A = bool, B = int.  The inner call is checked against `tuple[?T, int]`: unification solves `?T := ?A`, `?B := int`, the
argument then gives `?A := bool` -- the solution is triangular, and `check_call` asserts that it is closed.

    PYTHONPATH=/verif/triage/shim:<tree>/guppylang/src:<tree>/guppylang-internals/src /venv/bin/python c12_triangular_solution.py

Exit 0: the fitting call is accepted and the non-fitting one rejected with a Guppy error.  Exit 1: otherwise.
"""
import sys
from guppylang import guppy

A = guppy.type_var("A")
B = guppy.type_var("B")
T = guppy.type_var("T")


@guppy.declare
def g(x: A) -> tuple[A, B]: ...


@guppy.declare
def f(p: tuple[T, int]) -> T: ...


@guppy
def fits() -> bool:
    return f(g(True))


@guppy
def does_not_fit() -> float:
    return f(g(True))


def outcome(fn):
    try:
        fn.check()
        return "accepted"
    except BaseException as e:  # noqa: BLE001
        return f"{type(e).__name__}"


a, b = outcome(fits), outcome(does_not_fit)
print("f(g(True)) at bool :", a)
print("f(g(True)) at float:", b)
sys.exit(0 if a == "accepted" and b.startswith("Guppy") else 1)
