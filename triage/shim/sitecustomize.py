import tket_exts
if not hasattr(tket_exts, "bool"):
    import hugr.ext as hext
    def _bool():
        from hugr.ext import Extension, TypeDef, ExplicitBound
        from hugr import tys
        import semver
        e = Extension("tket.bool", semver.Version(0,1,0))
        e.add_type_def(TypeDef("bool", description="", params=[], bound=ExplicitBound(tys.TypeBound.Copyable)))
        return e
    tket_exts.bool = _bool
