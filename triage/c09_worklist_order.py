import guppylang  # import order
from guppylang_internals.cfg import analysis
from guppylang_internals.cfg.cfg import CFG
from guppylang_internals.cfg.bb import VariableStats
from guppylang_internals.cfg.analysis import AssignmentAnalysis, LivenessAnalysis

def build():
    cfg = CFG()                       # entry=bb0, exit=bb1
    e, x = cfg.entry_bb, cfg.exit_bb
    r = cfg.new_bb(e)                 # reachable block R, assigns nothing
    cfg.link(r, x)
    u = cfg.new_bb()                  # unreachable block U, only a dummy edge R -> U
    cfg.dummy_link(r, u)
    cfg.update_reachable()
    stats = {bb: VariableStats() for bb in cfg.bbs}
    stats[e].assigned["a"] = None     # entry assigns a
    stats[u].used["a"] = None
    stats[u].used["z"] = None
    stats[x].assigned["z"] = None     # z assigned somewhere (exit) so it is in all_vars
    return cfg, stats, (e, x, r, u)

class OrderedSet(set):
    order = None
    def pop(self):
        for bb in OrderedSet.order:
            if bb in self:
                self.remove(bb); return bb
        raise KeyError

analysis.set = OrderedSet   # the module looks up `set` at call time
res = {}
for name in ("U first", "U last"):
    cfg, stats, (e, x, r, u) = build()
    OrderedSet.order = [u, e, r, x] if name == "U first" else [e, r, x, u]
    d, m = AssignmentAnalysis(stats, set(), set(), include_unreachable=True).run_unpacked(cfg.bbs)
    res[name] = (sorted(d[u]), sorted(m[u]))
    print(name, "-> definitely assigned before U:", sorted(d[u]), "| maybe assigned before U:", sorted(m[u]))
print("ORDER-DEPENDENT" if res["U first"] != res["U last"] else "same")
