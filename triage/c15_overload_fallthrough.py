from guppylang import guppy
from guppylang_internals.error import GuppyError

@guppy.declare
def v1(x: tuple[float, bool]) -> int: ...

@guppy.declare
def v2(x: tuple[int, int]) -> int: ...

@guppy.overload(v1, v2)
def ov(): ...

@guppy
def direct() -> int:
    return v2((1, 2))

@guppy
def via_overload() -> int:
    return ov((1, 2))

for f in (direct, via_overload):
    try:
        f.check(); print(f.wrapped.name if hasattr(f,'wrapped') else f, "ACCEPTED")
    except BaseException as e:
        print("REJECTED", type(e).__name__, getattr(getattr(e,'error',None),'rendered_span_label',None))
