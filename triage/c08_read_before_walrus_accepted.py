"""C08 violation: a read of a local that precedes a walrus assignment to the same local
*inside one statement* is accepted although no assignment reaches it.

Programs (all valid syntax, all raise UnboundLocalError in Python when executed):

    def w1() -> int:
        y = x + (x := 1)        # left operand `x` is read before `x := 1` is evaluated
        return y

    def w2(c: bool) -> int:
        if c:
            x = 0
        return x + (x := 1)     # path c == False reaches the read of `x` without an assignment

    def w3() -> int:
        x += (x := 1)           # the augmented target is loaded first

    def w4(c: bool) -> int:
        if x == (x := 1): ...   # single comparison, left operand first

Expected (property C08, first sentence): each function is rejected with "`x` is not defined" /
"`x` might be undefined", because the first read of `x` is reached by a path without assignment.

Observed: `.check()` succeeds for all of them.  The walrus assignment is hoisted *in front of the
whole statement*, so the earlier read silently sees the value assigned later (this is also a
mis-evaluation when `x` *is* defined before: `x = 10; y = x + (x := 1)` gives 11 in Python, but the
Guppy CFG computes 1 + 1).

Responsible code: guppylang-internals/src/guppylang_internals/cfg/builder.py,
`ExprBuilder.visit_NamedExpr` (lines ~431-441): `self.bb.statements.append(assign)` appends
`x = <value>` to the BB immediately while sub-expressions to the *left* of the walrus stay inside
the enclosing statement, which is appended to the BB only afterwards (`_build_node_value`,
`bb.statements.append(node)`).  `VariableVisitor` (cfg/bb.py) then sees `x = 1` before
`y = x + x`, so `x` is not recorded as `used` by the BB and neither the entry-BB check nor the
`live_before` check in `check_bb` (checker/cfg_checker.py) can fire.
(The chained-comparison path `BranchBuilder.visit_Compare` binds earlier operands to temporaries
first and is therefore not affected: `x == (x := 1) == 1` is rejected correctly.)
"""

import ast
import sys

from guppylang import guppy
from guppylang_internals.error import GuppyError


@guppy
def w1() -> int:
    y = x + (x := 1)
    return y


@guppy
def w2(c: bool) -> int:
    if c:
        x = 0
    return x + (x := 1)


@guppy
def w3() -> int:
    x += (x := 1)
    return x


@guppy
def w4(c: bool) -> int:
    if x == (x := 1):
        return 1
    return 0


@guppy
def control_chain() -> int:
    # Same shape, but a chained comparison: this one *is* rejected (earlier operands are bound to
    # temporaries in evaluation order), which shows what the intended behaviour is.
    if x == (x := 1) == 1:
        return 1
    return 0


def status(f) -> str:
    try:
        f.check()
        return "ACCEPTED"
    except GuppyError as e:
        return f"rejected ({type(e.error).__name__})"


def show_hoisting() -> None:
    """Prints the statements of the entry BB of w1 to make the reordering visible."""
    from guppylang_internals.ast_util import annotate_location
    from guppylang_internals.cfg.builder import CFGBuilder
    from guppylang_internals.checker.core import Globals

    src = "def w1() -> int:\n    y = x + (x := 1)\n    return y\n"
    tree = ast.parse(src)
    annotate_location(tree, src, "<w1>", 0)
    body = tree.body[0].body
    cfg = CFGBuilder().build(body, False, Globals(None))
    print("entry BB of w1 after CFG construction:")
    for s in cfg.entry_bb.statements:
        print("   ", ast.unparse(s))


violated = False
for name, f in [("w1", w1), ("w2", w2), ("w3", w3), ("w4", w4)]:
    st = status(f)
    print(f"{name}: {st}   (expected: rejected, `x` read before any assignment)")
    if st == "ACCEPTED":
        violated = True
print("control_chain:", status(control_chain), "  (expected: rejected)")
try:
    show_hoisting()
except Exception as e:  # purely informational
    print("(could not print CFG:", type(e).__name__, e, ")")

if violated:
    print("PROPERTY C08 VIOLATED: use-before-definition accepted")
    sys.exit(1)
print("ok")
sys.exit(0)
