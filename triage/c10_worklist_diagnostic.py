from guppylang import guppy
from guppylang_internals.error import GuppyError
from guppylang_internals.diagnostic import DiagnosticsRenderer
from guppylang_internals.engine import DEF_STORE
@guppy
def f(b: bool, c: bool, d: bool) -> int:
    if b:
        x = 1
    if c:
        if d:
            return x
        return x + 2
    return x + 1
try:
    f.check(); print("ACCEPTED")
except GuppyError as e:
    r = DiagnosticsRenderer(DEF_STORE.sources); r.render_diagnostic(e.error); print(r.buffer[0])
