"""C05 violation: `callable(e)` throws its argument expression away -- calls inside `e` run 0 times.

Property C05: side-effecting operations (function calls, qubit allocation, ...) execute as often as in
Python's evaluation of the source; arguments are evaluated before the call.

Programs (all accepted by `.check()`):

    @guppy
    def one() -> bool:
        return callable(report())      # report() is a function that may report results / panic

    @guppy
    def two() -> int:
        callable(report())             # expression statement
        return 0

    @guppy
    def three() -> bool:
        return callable(qubit())       # a qubit allocation

Python evaluates the argument first, so `report()` runs exactly once (and `qubit()` allocates).

Observed: the checked function body is `return False` / an empty statement: the whole call node
including its argument is replaced by a boolean constant, the argument is only type-synthesized.  No
call to `report` and no QAlloc is ever compiled.  (`three` additionally shows that a non-droppable
qubit expression disappears without a linearity error.)

Responsible code: guppylang-internals/src/guppylang_internals/std/_internal/checker.py,
CallableChecker.synthesize (lines 132-141):

        arg, ty = ExprSynthesizer(self.ctx).synthesize(arg)
        ...
        const = with_loc(self.node, ast.Constant(value=is_callable))
        return const, bool_type()

`arg` is dropped.  A correct implementation keeps the evaluation of the argument (or rejects arguments
that are not plain names).

The script inspects the checked CFG (lowering a bool constant fails in this sandbox for an unrelated
packaging reason).  Exit status 1 = property violated, 0 = calls kept (or programs rejected).
"""

import ast
import sys

from guppylang import guppy
from guppylang.std.quantum import qubit
from guppylang_internals.engine import ENGINE
from guppylang_internals.error import GuppyError
from guppylang_internals.nodes import GlobalCall


@guppy.declare
def report() -> int: ...


@guppy
def reference() -> int:
    return report()


@guppy
def one() -> bool:
    return callable(report())


@guppy
def two() -> int:
    callable(report())
    return 0


@guppy
def three() -> bool:
    return callable(qubit())


def calls_in_checked_body(fn) -> list[str] | None:
    did = fn.wrapped.id
    try:
        ENGINE.check(did)
    except GuppyError as e:
        print(f"{fn.wrapped.name}: rejected ({type(e.error).__name__})")
        return None
    found = []
    stmts = []
    for bb in ENGINE.checked[did].cfg.bbs:
        for stmt in bb.statements:
            stmts.append(type(stmt).__name__ + "(" + type(getattr(stmt, "value", None)).__name__ + ")")
            for n in ast.walk(stmt):
                if isinstance(n, GlobalCall):
                    found.append(ENGINE.get_parsed(n.def_id).name)
    print(f"{fn.wrapped.name}: checked statements {stmts}, calls compiled: {found}")
    return found


bad = False
ref = calls_in_checked_body(reference)
assert ref == ["report"], ref  # the detection works for a plain call

for fn, wanted in ((one, "report"), (two, "report"), (three, "__new__")):
    got = calls_in_checked_body(fn)
    if got is None:
        continue  # rejecting is not a C05 violation
    if not any(wanted in g for g in got):
        print(f"   -> the argument of callable(...) in `{fn.wrapped.name}` is evaluated 0 times, Python: 1 time")
        bad = True

if bad:
    print("VIOLATION of C05: callable(e) drops the evaluation of e")
    sys.exit(1)
print("OK")
sys.exit(0)
