"""C06 violation: a nested function definition silently discards (or replaces) a live qubit.

Expected: a program in which an unconsumed qubit variable `q` is rebound by
`def q(): ...` must be rejected (PlaceNotUsedError for an owned / local qubit,
BorrowShadowedError for a borrowed argument), exactly as the equivalent plain
assignment `q = 5` is rejected.  The qubit is neither consumed nor returned on
the (only) path, i.e. it is "silently discarded".

Observed: `.check()` accepts all three programs below.
  * f_owned : owned argument `q` is never consumed, the name is rebound to a function.
  * f_local : a freshly allocated qubit (in a non-entry block) is rebound to a function.
  * f_borrow: a *borrowed* argument is rebound; the function value is then handed back to the
              caller in place of the qubit -> lowering builds an ill-typed function body
              (ValueError: fixed output type [Qubit] but given [FunctionType([], [])]).

Responsible code: guppylang_internals/checker/linearity_checker.py
  BBLinearityChecker.visit_CheckedNestedFunctionDef, line 484:
        self.scope.assign(Variable(node.name, node.ty, node))
  overwrites `scope.vars[q]` directly.  It bypasses `_check_assign_targets` (lines 486-516, the
  "override of an unused linear place" / BorrowShadowedError checks) and the borrowed-shadow check of
  `visit_Assign` (lines 297-307).  Since the overwritten place lived in the *same* Scope (entry block
  arguments, or a variable assigned earlier in the same block) the old qubit place disappears from
  `scope.values()`, so the final "unused and not droppable" loop of check_cfg_linearity (lines 807-831)
  never sees it either.  (If the qubit comes from a predecessor block the dataflow check still catches it.)

Borderline note: nested function definitions are not in the "core fragment" list of the property, but the
first sentence of C06 (accepted only if no qubit is silently discarded) is violated for a program whose
only non-core construct is an otherwise harmless nested `def`.
"""

import sys

import hugr.build.function
from guppylang import guppy
from guppylang.std.builtins import owned
from guppylang.std.quantum import h, qubit
from guppylang_internals.compiler.core import CompilerContext
from guppylang_internals.engine import ENGINE


@guppy
def f_owned(q: qubit @ owned) -> None:
    def q() -> None:
        pass


@guppy
def f_local(b: bool) -> None:
    if b:
        q = qubit()
        h(q)

        def q() -> None:
            pass


@guppy
def f_borrow(q: qubit) -> None:
    def q() -> None:
        pass


# Control: the same thing spelled as a plain assignment is (correctly) rejected
@guppy
def control(q: qubit @ owned) -> None:
    q = 5


def accepted(fn) -> bool:
    try:
        fn.check()
    except Exception as e:  # GuppyError
        err = getattr(e, "error", None)
        print(f"  {fn.wrapped.name if hasattr(fn, 'wrapped') else fn}: rejected with "
              f"{type(err).__name__ if err is not None else repr(e)}")
        return False
    return True


bad = 0
print("control (q = 5 over an unused owned qubit):")
if accepted(control):
    print("  control: ACCEPTED (unexpected)")
for fn, what in [
    (f_owned, "owned qubit argument dropped by `def q()`"),
    (f_local, "local qubit dropped by `def q()`"),
    (f_borrow, "borrowed qubit argument replaced by `def q()`"),
]:
    print(what + ":")
    if accepted(fn):
        print("  ACCEPTED by the checker -> qubit silently discarded")
        bad += 1

# Show what lowering makes of the borrowed variant
try:
    defn = f_borrow
    ENGINE.check(defn.id)
    CompilerContext(hugr.build.function.Module()).compile(ENGINE.checked[defn.id])
    print("f_borrow lowered without complaint")
except Exception as e:
    print(f"lowering f_borrow: {type(e).__name__}: {e}")

if bad:
    print(f"VIOLATION: {bad} program(s) that leak a qubit were accepted")
    sys.exit(1)
print("ok")
sys.exit(0)
