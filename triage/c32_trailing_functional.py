"""Triage (NOT a registered check; runs repository code under the shim): a trailing `_@functional` statement is dropped silently.

C32: every statement either takes effect as in Python or causes a compile error.  `CFGBuilder.visit_stmts` sets a flag for the
pseudo-decorator statement and `continue`s; the flag is only looked at when ANOTHER statement follows (then NotImplementedError
is raised).  As the last statement of a block the annotation is skipped: the function below is accepted although the same
statement two lines earlier is an error, and in Python `_ @ functional` raises NameError.

    PYTHONPATH=/verif/triage/shim:<tree>/guppylang/src:<tree>/guppylang-internals/src /venv/bin/python c32_trailing_functional.py

Exit 0: both placements are rejected.  Exit 1: the trailing one is accepted.
"""

import sys

from guppylang import guppy


@guppy
def followed(x: int) -> int:
    y = x
    if x > 0:
        _@functional  # noqa
        y = 1
    return y


@guppy
def trailing(x: int) -> int:
    y = x
    if x > 0:
        y = 1
        _@functional  # noqa
    return y


def outcome(f):
    try:
        f.check()
        return "accepted"
    except BaseException as e:  # noqa: BLE001
        return f"rejected ({type(e).__name__})"


a, b = outcome(followed), outcome(trailing)
print("annotation followed by a statement:", a)
print("annotation as the last statement of the block:", b)
sys.exit(0 if a.startswith("rejected") and b.startswith("rejected") else 1)
