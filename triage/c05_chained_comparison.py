import ast
from guppylang import guppy
from guppylang_internals.engine import ENGINE
@guppy
def f(x: int, y: int) -> bool:
    return x <= -5 < y
@guppy
def g() -> int:
    return 0
@guppy
def h(x: int, y: int) -> bool:
    return x <= g() < y
for fn in (f, h):
    ENGINE.check(fn.id)
    d = ENGINE.checked[fn.id]
    consts, calls = [], 0
    for bb in d.cfg.bbs:
        for n in [*bb.statements, *( [bb.branch_pred] if bb.branch_pred is not None else [])]:
            for x in ast.walk(n):
                if isinstance(x, ast.Constant) and isinstance(x.value, int) and not isinstance(x.value, bool): consts.append(x.value)
                if type(x).__name__ == "GlobalCall" and "g" == getattr(ENGINE.get_parsed(x.def_id), "name", ""): calls += 1
    print(d.name, "integer constants in checked CFG:", consts, "| calls of g:", calls)
