"""C09/C08 triage: AssignmentAnalysis.join() with no predecessors returns (ass_before_entry, ass_before_entry):
the entry block forgets the variables that are only MAYBE assigned before entry.  Observable where the two sets
differ: a nested function that reads an outer variable assigned on some paths only.  Exits 1 while present."""
import sys
from guppylang_internals.cfg.analysis import AssignmentAnalysis
from guppylang_internals.cfg.bb import BB, VariableStats

class FakeBB:
    def __init__(self): self.predecessors=[]; self.successors=[]; self.dummy_predecessors=[]; self.dummy_successors=[]; self.reachable=True
b = FakeBB()
stats = {b: VariableStats()}
a = AssignmentAnalysis(stats, {"d"}, {"d", "m"}, include_unreachable=True)
d, m = a.run_unpacked([b])
print("definitely assigned before the entry block:", sorted(d[b]), " maybe assigned:", sorted(m[b]))
ok = m[b] == {"d", "m"}
print("path-based solution for maybe-assigned is ['d', 'm'] ->", "OK" if ok else "WRONG")
sys.exit(0 if ok else 1)
