from guppylang import guppy
from guppylang_internals.error import GuppyError

@guppy
def outer() -> int:
    def helper(x: int) -> int:
        if x > 0:
            return helper(x - 1)
        return 0
    return helper(3)

@guppy
def other() -> int:
    return helper(1)

def try_check(f, label):
    try:
        f.check()
        print(label, "ACCEPTED")
    except BaseException as e:
        print(label, "REJECTED", type(e).__name__, str(e)[:100].replace("\n"," "))

try_check(other, "other before outer:")
try_check(outer, "outer:")
print("'helper' in module globals:", "helper" in globals())
try_check(other, "other after outer:")

@guppy
def we(x: int) -> int:
    while x > 0:
        x -= 1
    else:
        x = 100
    return x
try_check(we, "while-else:")

@guppy
def fe(x: int) -> int:
    for i in range(3):
        x += i
    else:
        x = 100
    return x
try_check(fe, "for-else:")

@guppy
def ck(x: int) -> int:
    return comptime(1, key=2)
try_check(ck, "comptime kw:")

@guppy
def deco(x: int) -> int:
    @undefined_thing
    def g(y: int) -> int:
        return y
    return g(x)
try_check(deco, "nested decorator:")

@guppy
def star(x: int) -> int:
    a, *b.c = 1, 2, 3
    return a
try_check(star, "starred attr:")
