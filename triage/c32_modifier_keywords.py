from guppylang import guppy
from guppylang.std.quantum import qubit, h, cx
from guppylang_internals.experimental import enable_experimental_features
from guppylang_internals.error import GuppyError
enable_experimental_features()

@guppy(control=True)
def g(q: qubit) -> None:
    pass

def try_(src_name, f):
    try:
        f.check()
        print(src_name, "ACCEPTED")
        return True
    except GuppyError as e:
        print(src_name, "rejected:", type(e.error).__name__, getattr(e.error, "things", ""))
        return False

@guppy
def k1(c: qubit, q: qubit) -> None:
    with control(c, foo=1):
        g(q)

@guppy
def k2(q: qubit) -> None:
    with dagger(bar=2):
        pass

@guppy
def k3(q: qubit) -> None:
    with power(2, baz=3):
        pass

import sys
acc = [try_("control(c, foo=1)", k1), try_("dagger(bar=2)", k2), try_("power(2, baz=3)", k3)]
sys.exit(1 if any(acc) else 0)
