"""C08 violation: sub-expressions of an assignment *target* are never run through the CFG
expression builder; a walrus there makes a well-defined program fail with "`i` is not defined",
a conditional expression there crashes with InternalGuppyError.

    def t1() -> int:
        a = array(1, 2, 3)
        a[(i := 0)] = 5       # valid Python: evaluates 5, then a, then i := 0, then stores
        return i              # i is assigned on the only path that reaches this use

    def t2(c: bool) -> int:
        a = array(1, 2, 3)
        a[0 if c else 1] = 5  # valid Python
        return a[0]

    def t3(c: bool) -> int:   # same for augmented assignment
        a = array(1, 2, 3)
        a[0 if c else 1] += 5
        return a[0]

Expected: no variable is used before definition and no variable has path-dependent types, so by
the last sentence of C08 none of the functions may be rejected with a "not defined" error; the
conditional expression / walrus must be desugared into the CFG like it is on a right-hand side
(`x = a[0 if c else 1]` and `x = a[(i := 0)]` both work).

Observed:
  t1 -> GuppyError VarNotDefinedError "`i` is not defined" (pointing at the walrus target itself)
  t2, t3 -> InternalGuppyError "BB contains `IfExp`. Should have been removed during CFG
            construction"

Responsible code: guppylang-internals/src/guppylang_internals/cfg/builder.py,
`CFGBuilder._build_node_value` (lines ~160-172): only `node.value` is passed to
`ExprBuilder.build`; `node.targets` / `node.target` of Assign / AugAssign / AnnAssign are left
untouched, so `NamedExpr` / `IfExp` / short-circuit nodes survive inside subscript indices.
Then `VariableVisitor._handle_assign_target` (cfg/bb.py, lines ~161-165) does a plain
`self.visit(slice)`, whose generic traversal reaches `visit_Name` for the *store* name of the
walrus and records `i` as **used** by the BB (and never as assigned).  `check_bb`
(checker/cfg_checker.py, lines ~216-226) consequently raises VarNotDefinedError for a variable
that the statement itself assigns.
"""

import sys

from guppylang import guppy
from guppylang.std.builtins import array
from guppylang_internals.error import GuppyError


@guppy
def t1() -> int:
    a = array(1, 2, 3)
    a[(i := 0)] = 5
    return i


@guppy
def t2(c: bool) -> int:
    a = array(1, 2, 3)
    a[0 if c else 1] = 5
    return a[0]


@guppy
def t3(c: bool) -> int:
    a = array(1, 2, 3)
    a[0 if c else 1] += 5
    return a[0]


@guppy
def rhs_ok(c: bool) -> int:
    # The same sub-expressions on a right-hand side are fine
    a = array(1, 2, 3)
    x = a[(i := 0)] + a[0 if c else 1]
    return x + i


def status(f) -> tuple[str, str]:
    try:
        f.check()
        return "ACCEPTED", ""
    except GuppyError as e:
        return "rejected", f"{type(e.error).__name__}: {e.error.rendered_span_label}"
    except Exception as e:
        return "CRASH", f"{type(e).__name__}: {e}"


violated = False
for name, f in [("rhs_ok", rhs_ok), ("t1", t1), ("t2", t2), ("t3", t3)]:
    st, msg = status(f)
    print(f"{name}: {st} {msg}")
    if name != "rhs_ok" and (st == "CRASH" or "NotDefined" in msg):
        violated = True

if violated:
    print(
        "PROPERTY C08 VIOLATED: a program without use-before-definition is rejected as "
        "'not defined' / crashes the CFG checker"
    )
    sys.exit(1)
sys.exit(0)
