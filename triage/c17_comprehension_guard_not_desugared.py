"""C17 violation: integer literals / comptime integers in the `if` GUARD of a
comprehension are not desugared, so in-range values are rejected.

Expected (property C17): the negated literal `-9223372036854775808` (= -2^63) and a
comptime Python integer in [-2^63, 2^63-1] are accepted at type `int`.  They are when
they occur in the element or in the iterator of a comprehension.

Observed on the unmodified tree (list comprehensions, experimental features enabled):

    [y for y in ys if y > -9223372036854775808]   -> IntOverflowError ("Value does not fit
                                                      into a 64-bit signed integer")
    [y for y in ys if y > comptime(LIM)]          -> VarNotDefinedError (`comptime`)

while `[y + -9223372036854775808 for y in ys]`, `[... if y > -9223372036854775807 - 1]`
and `[y + comptime(LIM) for y in ys]` are accepted.

Cause: guppylang-internals/src/guppylang_internals/cfg/builder.py, `desugar_comprehension`
(lines 626-668): `g.iter` (line 653) and `elt` (line 667) are run through the dummy
`ExprBuilder`, but the guards are copied verbatim - `ifs=g.ifs` (line 662).  So
`ExprBuilder.visit_UnaryOp` (negative literal folding, lines 474-481) and
`ExprBuilder.visit_Call` (`comptime(...)` -> `ComptimeExpr`, lines 471-472) never see
them; `check_generator` (expr_checker.py 1336-1338) then synthesises the bare
`Constant(9223372036854775808)` at int -> `_int_bounds_check` fails, and `comptime` is
looked up as a variable.

(Only list comprehensions can reach the guard check: array comprehensions with a guard
are rejected earlier because their size is unknown.)

Run:
  PYTHONPATH=/tmp/shim:/tmp/wt/C17-1/guppylang/src:/tmp/wt/C17-1/guppylang-internals/src \
      /venv/bin/python bug2.py
Exits 1 when the property is violated, 0 on a correct implementation.
"""

import sys

import guppylang
from guppylang import guppy
from guppylang.std.builtins import comptime

guppylang.enable_experimental_features()

LIM = -5


# ---- controls ---------------------------------------------------------------------
@guppy
def elt_min(ys: list[int]) -> list[int]:
    return [y + -9223372036854775808 for y in ys]


@guppy
def guard_min_via_binop(ys: list[int]) -> list[int]:
    return [y for y in ys if y > -9223372036854775807 - 1]


@guppy
def elt_comptime(ys: list[int]) -> list[int]:
    return [y + comptime(LIM) for y in ys]


@guppy
def guard_small(ys: list[int]) -> list[int]:
    return [y for y in ys if y > -5]


# ---- under test -------------------------------------------------------------------
@guppy
def guard_min(ys: list[int]) -> list[int]:
    return [y for y in ys if y > -9223372036854775808]


@guppy
def guard_comptime(ys: list[int]) -> list[int]:
    return [y for y in ys if y > comptime(LIM)]


def outcome(f) -> str:
    try:
        f.check()
    except Exception as e:  # noqa: BLE001
        err = getattr(e, "error", e)
        return f"REJECTED ({type(err).__name__})"
    return "accepted"


controls = {
    "[y + -9223372036854775808 for y in ys]": elt_min,
    "[y for y in ys if y > -9223372036854775807 - 1]": guard_min_via_binop,
    "[y + comptime(-5) for y in ys]": elt_comptime,
    "[y for y in ys if y > -5]": guard_small,
}
tests = {
    "[y for y in ys if y > -9223372036854775808]": guard_min,
    "[y for y in ys if y > comptime(-5)]": guard_comptime,
}

print("controls:")
for label, f in controls.items():
    r = outcome(f)
    print(f"  {label:50s} {r}")
    if r != "accepted":
        print("  !! control unexpectedly rejected - environment problem?")
        sys.exit(2)
bad = False
print("under test (in-range integer in a comprehension guard):")
for label, f in tests.items():
    r = outcome(f)
    print(f"  {label:50s} {r}")
    bad |= r != "accepted"

if bad:
    print(
        "VIOLATION of C17: an in-range negated literal (-2^63) / comptime integer is "
        "rejected at type int when it occurs in a comprehension `if` guard"
    )
    sys.exit(1)
print("ok: in-range integers are accepted in comprehension guards")
sys.exit(0)
