"""C14 triage: a struct with a phantom type parameter.  `Tag[qubit]` (Tag[T]{ident: int}) is classified not copyable /
not droppable (its type argument is a qubit) while its lowered HUGR type is the copyable tuple of its fields, and the
checker (which works leaf by leaf) lets a local Tag[qubit] be copied and leaked.  Exits 1 while present."""
import sys
from typing import Generic
from guppylang import guppy
from guppylang.std.quantum import qubit
from guppylang_internals.engine import ENGINE
from guppylang_internals.error import GuppyError

T = guppy.type_var("T", copyable=False, droppable=False)

@guppy.struct
class Tag(Generic[T]):
    ident: int

@guppy.declare
def mk() -> Tag[qubit]: ...

@guppy
def copy_it() -> tuple[Tag[qubit], Tag[qubit]]:
    t = mk()
    return t, t

@guppy
def leak_it() -> None:
    t = mk()

bad = 0
for f in (copy_it, leak_it):
    try:
        f.check()
        print("accepted:", f.id)
        bad += 1
    except GuppyError as e:
        print("rejected:", type(e.error).__name__)
ty = ENGINE.get_checked(mk.id).ty.output
print("Tag[qubit].copyable =", ty.copyable, " droppable =", ty.droppable, " hugr_bound =", ty.hugr_bound)
sys.exit(1 if bad else 0)
