"""C08: a nested function that reads an outer variable only in statically dead code.
x is assigned on every path, yet the program is rejected with "x is not defined"."""
import sys
from guppylang.decorator import guppy
from guppylang_internals.experimental import enable_experimental_features
from guppylang_internals.error import GuppyError

enable_experimental_features()


@guppy
def f(b: bool) -> int:
    x = 1
    y = 0
    if b:
        y = 2

    def g() -> int:
        if False:
            return x
        return 0

    return g() + y


try:
    f.check()
    print("accepted")
    sys.exit(0)
except GuppyError as e:
    print("REJECTED:", type(e.error).__name__, getattr(e.error, "rendered_title", ""), "|", getattr(e.error, "rendered_span_label", ""))
    sys.exit(1)
