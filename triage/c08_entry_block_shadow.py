from guppylang import guppy
gx = guppy.constant("gx", "float", None) if False else None
@guppy
def helper() -> int:
    return 1
@guppy
def entry_shadow() -> int:
    y = helper      # `helper` is assigned below, so it is a local: Python raises UnboundLocalError here
    helper = 2
    return helper
@guppy
def later_shadow(b: bool) -> int:
    if b:
        pass
    y = helper      # same, but not in the entry block
    helper = 2
    return helper
for f in (entry_shadow, later_shadow):
    try:
        f.check(); print(f.wrapped.name, "ACCEPTED")
    except Exception as e:
        print(f.wrapped.name, "REJECTED", type(getattr(e,'error',e)).__name__)
