"""C12: unify(?n, ?m, {?m: ?n}) on two const inference variables fails although trivially unifiable
(the second chasing branch of _unify_var only looks at type variables).  Exits 1 while the defect is present."""
import sys
from guppylang_internals.tys.const import ExistentialConstVar
from guppylang_internals.tys.ty import unify
from guppylang_internals.tys.builtin import nat_type

n, m = ExistentialConstVar.fresh("n", nat_type()), ExistentialConstVar.fresh("m", nat_type())
r1 = unify(n, m, {m: n})
r2 = unify(m, n, {m: n})
print("unify(?n, ?m, {?m: ?n}) =", r1)
print("unify(?m, ?n, {?m: ?n}) =", r2)
sys.exit(0 if (r1 is not None and r2 is not None) else 1)
