"""C05 triage: sub-expressions that need control flow (conditional expression, and/or, chained comparison) are lifted
out of their enclosing expression by ExprBuilder and evaluated BEFORE siblings to their left.

Differential check of the CFG builder against Python's evaluation order.

Each program is a small function whose operands are calls to tracing functions
a(), b(), c(), d().  We (1) run it under CPython and record the call trace, and
(2) build the guppy CFG with the real `CFGBuilder`, walk that CFG with a tiny
AST evaluator and record the call trace.  The property C05 demands both traces be
identical (same calls, same count, same order) for every valuation.

Exit 0: all traces agree.  Exit 1: some trace differs (property violated).
"""
import ast
import itertools
import operator
import sys

from guppylang_internals.ast_util import annotate_location
from guppylang_internals.cfg.builder import CFGBuilder
from guppylang_internals.checker.core import Globals

PROGRAMS = [
    # a short-circuit / conditional sub-expression to the RIGHT of an already evaluated sibling
    "def main():\n    return a() + (b() if c() else d())\n",
    "def main():\n    x = a() + (b() if c() > 0 else 0)\n    return x\n",
    "def main():\n    return (a(), b() > 0 and c() > 0)\n",
    "def main():\n    return a() * (0 if (b() < c() < d()) else 1)\n",
]
NAMES = ["a", "b", "c", "d"]
VALUES = [0, 1, 2]

CMP = {
    ast.Lt: operator.lt, ast.LtE: operator.le, ast.Gt: operator.gt,
    ast.GtE: operator.ge, ast.Eq: operator.eq, ast.NotEq: operator.ne,
}
BIN = {ast.Add: operator.add, ast.Sub: operator.sub, ast.Mult: operator.mul}


class Return(Exception):
    pass


def make_env(vals, trace):
    def mk(n):
        def fn():
            trace.append(n)
            return vals[n]
        return fn
    return {n: mk(n) for n in NAMES}


def ev(node, env):
    """Evaluates a (short-circuit free) expression left in a BB by the builder."""
    match node:
        case ast.Constant(value=v):
            return v
        case ast.Name(id=x):
            return env[x]
        case ast.Call(func=f, args=args):
            fn = ev(f, env)
            return fn(*[ev(x, env) for x in args])
        case ast.Compare(left=l, ops=[op], comparators=[r]):
            lv = ev(l, env)
            rv = ev(r, env)
            return CMP[type(op)](lv, rv)
        case ast.BinOp(left=l, op=op, right=r):
            lv = ev(l, env)
            rv = ev(r, env)
            return BIN[type(op)](lv, rv)
        case ast.UnaryOp(op=ast.Not(), operand=o):
            return not ev(o, env)
        case ast.Tuple(elts=elts):
            return tuple(ev(e, env) for e in elts)
    raise NotImplementedError(ast.dump(node))


def run_cfg(cfg, env):
    bb = cfg.entry_bb
    ret = None
    steps = 0
    while bb is not cfg.exit_bb:
        steps += 1
        assert steps < 1000
        for st in bb.statements:
            match st:
                case ast.Assign(targets=[ast.Name(id=x)], value=v):
                    env[x] = ev(v, env)
                case ast.Return(value=v):
                    ret = ev(v, env) if v is not None else None
                case ast.Expr(value=v):
                    ev(v, env)
                case _:
                    raise NotImplementedError(ast.dump(st))
        if bb.branch_pred is not None:
            # `BranchBuilder` links the false successor first, then the true one
            false_bb, true_bb = bb.successors
            bb = true_bb if ev(bb.branch_pred, env) else false_bb
        else:
            [bb] = bb.successors
    return ret


def main() -> int:
    bad = 0
    for src in PROGRAMS:
        code = compile(src, "<prog>", "exec")
        for combo in itertools.product(VALUES, repeat=len(NAMES)):
            vals = dict(zip(NAMES, combo))
            # Reference: CPython
            py_trace: list[str] = []
            ns = make_env(vals, py_trace)
            exec(code, ns)
            py_ret = ns["main"]()
            # Subject: the CFG produced by guppy's builder
            func = ast.parse(src).body[0]
            annotate_location(func, src, "<prog>", 0)
            cfg = CFGBuilder().build(func.body, False, Globals(None))
            g_trace: list[str] = []
            g_ret = run_cfg(cfg, make_env(vals, g_trace))
            if py_trace != g_trace or py_ret != g_ret:
                bad += 1
                if bad <= 5:
                    print("MISMATCH for program:\n" + src.rstrip())
                    print(f"  values      : {vals}")
                    print(f"  python trace: {py_trace} -> {py_ret}")
                    print(f"  guppy  trace: {g_trace} -> {g_ret}")
                break
        else:
            print("ok:", src.splitlines()[1].strip())
    if bad:
        print(f"C05 VIOLATED: {bad} program(s) evaluate side effects differently from Python")
        return 1
    print("C05 holds on all programs / valuations tried")
    return 0


if __name__ == "__main__":
    sys.exit(main())
