from guppylang_internals.diagnostic import wrap
for t in ("hello world", "a\n\nb", "   ", " \n "):
    try:
        print(repr(t), "->", wrap(t, 20))
    except Exception as e:
        print(repr(t), "-> raises", type(e).__name__, e)
