"""C24: a non-unitary call inside the callee tuple of a tensor call, in a unitary context."""
import sys
from guppylang.decorator import guppy
from guppylang.std.quantum import qubit, h
from guppylang.std.builtins import owned
from guppylang_internals.experimental import enable_experimental_features
from guppylang_internals.error import GuppyError
from collections.abc import Callable

enable_experimental_features()


@guppy
def ident(x: int) -> int:
    return x


@guppy
def pick(q: qubit) -> Callable[[int], int]:
    # not flagged as controllable: calling it with a qubit inside `with control(...)` must be rejected
    return ident


@guppy
def main(c: qubit, q: qubit) -> None:
    with control(c):
        (pick(q), ident)(1, 2)


try:
    main.check()
    print("accepted: the call pick(q) inside the tensor callee was never checked against the control context")
    sys.exit(1)
except GuppyError as e:
    print("rejected:", type(e.error).__name__)
    sys.exit(0)
