"""Triage (NOT a registered check; runs repository code under the shim): a method's dependent const parameter points at the wrong type variable.

C13: a generic signature means what a textual copy with the arguments substituted means.  For a method of a generic struct with an
implicit `self`, `handle_implicit_self_arg` moves the method's own parameters behind the struct's (`param.with_idx(idx + n)`), but
the indices INSIDE a const parameter's type are not moved: in

    @guppy.struct
    class S[T]:
        @guppy
        def m[U: (Copy, Drop), x: U](self, y: U) -> U: ...

the parsed signature is `forall T, U, x: T. ...` -- x is typed by the struct's T instead of the method's U.

    PYTHONPATH=/verif/triage/shim:<tree>/guppylang/src:<tree>/guppylang-internals/src /venv/bin/python c13_method_const_param_type.py

Exit 0: the type of x is the variable with U's index.  Exit 1: it is another one.
"""
import sys
from guppylang import guppy
from guppylang.std.lang import Copy, Drop
from guppylang_internals.engine import ENGINE


@guppy.struct
class S[T]:
    v: T

    @guppy
    def m[U: (Copy, Drop), x: U](self, y: U) -> U:
        return y


@guppy
def main(s: S[float]) -> int:
    return s.m(3)


try:
    main.check()
except BaseException as e:  # noqa: BLE001  (whether the call checks is not the point here)
    print("(check of a caller:", type(e).__name__, ")")
sig = next(d.ty for d in ENGINE.parsed.values() if getattr(d, "name", "") == "m")
idx = {p.name: p.idx for p in sig.params}
x = next(p for p in sig.params if p.name == "x")
print("signature:", sig)
print("parameter indices:", idx, "| x is typed by the variable with index", x.ty.idx)
sys.exit(0 if x.ty.idx == idx["U"] else 1)
