import guppylang
from guppylang.emulator.instance import EmulatorInstance
print(guppylang.__file__)
base = EmulatorInstance(_instance=None, _n_qubits=1)
a = base.with_seed(1)
print("a.seed", a.seed, "a.simulator.random_seed", a.simulator.random_seed)
b = a.with_seed(2)
print("after deriving b = a.with_seed(2): a.seed", a.seed, "a.simulator.random_seed", a.simulator.random_seed, "| same simulator object:", a.simulator is b.simulator is base.simulator)
